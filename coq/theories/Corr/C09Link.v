(* The reference the correspondence predicate is written with (C09Corr: ref_expand, ref_width,
   ref_printable, ref_nowrap -- kinds and widths only) and the notions the theorems of Props/C09.v
   are stated with (expand, printables, nowrap_place, keep_placed over Cell::layout's classification)
   describe the same lists of cells. *)
From Coq Require Import List Arith Bool NArith Lia.
From SNT Require Import Base.Outcome Surface.Shape Render.CellLayout Render.Writer Render.LayoutFacts Render.LayoutRender Corr.C09Corr.
Import ListNotations.
Local Arguments Nat.modulo : simpl never.
Local Arguments Nat.div : simpl never.
Local Arguments Nat.mul : simpl never.

Lemma ref_expand_eq ctx cells : ref_expand ctx cells = expand ctx cells.
Proof. reflexivity. Qed.

(* after expansion a glyph cell only remains when the terminal draws glyphs *)
Definition glyph_ok (ctx : rctx) (c : ccell) : Prop :=
  match c_kind c with KGlyph _ _ _ _ => has_glyphs ctx = true | _ => True end.

Lemma expand_glyph_ok ctx cells : Forall (glyph_ok ctx) (expand ctx cells).
Proof.
  unfold expand. induction cells as [|c t IH]; cbn [flat_map]; [constructor|].
  apply Forall_app. split; [|exact IH]. unfold expand1, glyph_ok.
  destruct (c_kind c) as [ch|id h w fb|id h w] eqn:Ek.
  - repeat constructor. now rewrite Ek.
  - destruct (has_glyphs ctx) eqn:Eg.
    + repeat constructor. now rewrite Ek.
    + apply Forall_map. apply Forall_forall. intros ch _. exact I.
  - repeat constructor. now rewrite Ek.
Qed.

Lemma ref_printable_spec ctx c : glyph_ok ctx c ->
  match ref_width ctx c with Some (S _) => true | _ => false end = printable ctx c.
Proof.
  unfold glyph_ok, ref_width, printable, classify, cw. destruct (c_kind c) as [ch|id h w fb|id h w].
  - intros _. destruct (N.eqb ch 10) eqn:E10; [reflexivity|]. destruct (N.eqb ch 13) eqn:E13; [reflexivity|].
    destruct (N.eqb ch 9) eqn:E9; [reflexivity|]. cbn. destruct (cw_lookup (cw_tab ctx) ch); reflexivity.
  - intros ->. destruct h, w; reflexivity.
  - intros _. destruct h, w; reflexivity.
Qed.

(* with wrapping: the cells the predicate expects are the theorem's printables *)
Theorem link_wrap ctx cells : ref_printable ctx (ref_expand ctx cells) = printables ctx cells.
Proof.
  unfold ref_printable, printables. rewrite ref_expand_eq. apply filter_ext_in.
  intros c Hin. apply ref_printable_spec.
  pose proof (expand_glyph_ok ctx cells) as Hall. rewrite Forall_forall in Hall. now apply Hall.
Qed.

Lemma tab_stop col w : col <= w -> col + Nat.min (8 - col mod 8) (w - col) = Nat.min w ((col / 8 + 1) * 8).
Proof.
  intros H. pose proof (Nat.div_mod col 8 ltac:(lia)). pose proof (Nat.mod_upper_bound col 8 ltac:(lia)). lia.
Qed.

(* without wrapping: the cells the predicate expects are those the reference placement of the
   theorems keeps *)
Ltac stepc := cbn [ref_nowrap filter map]; unfold ref_width, printable, classify; cbn [c_kind N.eqb Pos.eqb orb negb nowrap_place keep_placed].

Lemma link_nowrap_gen ctx w : forall l row col, Forall (glyph_ok ctx) l -> col <= w ->
  ref_nowrap ctx w l col =
  keep_placed (filter (printable ctx) l) (nowrap_place w (map (fun c => classify ctx (c_kind c)) l) row col).
Proof.
  induction l as [|[f k] t IH]; intros row col Hall Hcol; [reflexivity|].
  apply Forall_cons_iff in Hall as [Hc Ht]. unfold glyph_ok in Hc. cbn [c_kind] in Hc.
  cbn [ref_nowrap filter map].
  set (FT := filter (printable ctx) t) in *. set (MT := map (fun c : ccell => classify ctx (c_kind c)) t) in *.
  destruct k as [ch|id h cwid fb|id h cwid].
  - destruct (N.eq_dec ch 10) as [->|N10]; [stepc; apply IH; [exact Ht|lia]|].
    destruct (N.eq_dec ch 13) as [->|N13]; [stepc; apply IH; [exact Ht|lia]|].
    destruct (N.eq_dec ch 9) as [->|N9]; [stepc; rewrite tab_stop by exact Hcol; apply IH; [exact Ht|lia]|].
    apply N.eqb_neq in N10, N13, N9.
    cbn [ref_nowrap filter map]. unfold ref_width, printable, classify, cw. cbn [c_kind]. rewrite !N10, !N13, !N9. cbn [orb].
    destruct (cw_lookup (cw_tab ctx) ch) as [|n] eqn:Ew.
    + cbn [Nat.eqb orb negb nowrap_place]. apply IH; assumption.
    + cbn [Nat.eqb orb negb nowrap_place]. destruct (col + S n <=? w) eqn:Efit.
      * cbn [keep_placed]. f_equal. apply IH; [exact Ht|apply Nat.leb_le in Efit; lia].
      * cbn [keep_placed]. apply IH; assumption.
  - cbn [ref_nowrap filter map]. unfold ref_width, printable, classify. cbn [c_kind]. rewrite Hc.
    destruct h as [|h]; [cbn [Nat.eqb orb negb nowrap_place]; apply IH; assumption|].
    destruct cwid as [|n]; [cbn [Nat.eqb orb negb nowrap_place]; apply IH; assumption|].
    cbn [Nat.eqb orb negb nowrap_place]. destruct (col + S n <=? w) eqn:Efit.
    + cbn [keep_placed]. f_equal. apply IH; [exact Ht|apply Nat.leb_le in Efit; lia].
    + cbn [keep_placed]. apply IH; assumption.
  - cbn [ref_nowrap filter map]. unfold ref_width, printable, classify. cbn [c_kind].
    destruct h as [|h]; [cbn [Nat.eqb orb negb nowrap_place]; apply IH; assumption|].
    destruct cwid as [|n]; [cbn [Nat.eqb orb negb nowrap_place]; apply IH; assumption|].
    cbn [Nat.eqb orb negb nowrap_place]. destruct (col + S n <=? w) eqn:Efit.
    + cbn [keep_placed]. f_equal. apply IH; [exact Ht|apply Nat.leb_le in Efit; lia].
    + cbn [keep_placed]. apply IH; assumption.
Qed.

Theorem link_nowrap ctx cells w :
  ref_nowrap ctx w (ref_expand ctx cells) 0 =
  keep_placed (printables ctx cells) (nowrap_place w (lcells ctx (expand ctx cells)) 0 0).
Proof. rewrite ref_expand_eq. apply link_nowrap_gen; [apply expand_glyph_ok|lia]. Qed.

(* both in one statement: what holds_t compares the canvas with is what C09_layout_render / C09_text_view
   promise *)
Theorem expected_cells_link ctx cells wraps w :
  expected_cells ctx cells wraps w =
  if wraps then printables ctx cells
  else keep_placed (printables ctx cells) (nowrap_place w (lcells ctx (expand ctx cells)) 0 0).
Proof. unfold expected_cells. destruct wraps; [apply link_wrap|apply link_nowrap]. Qed.
