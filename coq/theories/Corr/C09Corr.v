(* Correspondence for C09.  Cases carry the implementation's observations:
   CW  a client program run against TerminalWriter over a view of a canvas of sentinel
       cells, observed twice: as given, and with the chunks of every write merged;
   CT  Text::layout followed by Text::render into a view at least as large as the
       reported size, inside a canvas of sentinel cells;
   CJ  a Text deserialised from a JSON document (TextDeserializer): cells, wraps flag, writing face.
   First component: the model (Render/Writer.v) reproduces canvas, flags, cursor, layout.
   Second component (specification side): sentinels outside the window of a plain matrix
   are intact; the canvas does not depend on the partition of the bytes; the printable
   cells of the text appear exactly once, in reading order (without wrapping: exactly those
   the reference no-wrap placement keeps). *)
From Coq Require Import List NArith ZArith Arith Bool.
From SNT Require Export Base.Outcome Base.Report Surface.Bounds Surface.Shape Render.CellLayout Render.Writer.
Import ListNotations.

(* ---------- encoding of canvas cells as numbers ---------- *)
Definition enc_col (o : option N) : N := match o with None => 0%N | Some c => (c + 1)%N end.

Definition enc_kind (k : kind) : list N :=
  match k with
  | KChar ch => [0; ch]
  | KGlyph id _ _ _ => [1; id]
  | KImage id _ _ => [2; id]
  end%N.

Definition enc_cell (c : ccell) : list N :=
  [enc_col (f_fg (c_face c)); enc_col (f_bg (c_face c)); f_attrs (c_face c)] ++ enc_kind (c_kind c).

Definition enc_canvas (d : list ccell) : list N := flat_map enc_cell d.

(* ---------- the canvas of sentinel cells (harness: c09::sentinel) ---------- *)
Definition SENT_BASE : N := 57344%N.   (* U+E000 *)

Definition sent_cell (i : nat) : ccell :=
  mkCell (if Nat.even i then face0
          else mkFace (Some ((((N.of_nat (i mod 256) * 256 + 85) * 256 + 170) * 256) + 255)%N) None 0%N)
         (KChar (SENT_BASE + N.of_nat i)%N).

Definition init_canvas (len : nat) : list ccell := map sent_cell (seq 0 len).

Definition cell_at (canvas : list N) (k : nat) : list N := firstn 5 (skipn (5 * k) canvas).

(* ---------- windows (specification side, plain matrix coordinates as in C07) ---------- *)
Definition win_cells (W : nat) (w : window) : list nat :=
  map (fun p => root_index W (win_coord w (fst p) (snd p))) (positions (w_h w) (w_w w)).

Definition shape_cells (sh : shape) : list nat :=
  map (fun p => offset sh (fst p) (snd p)) (positions (sh_height sh) (sh_width sh)).

Fixpoint mem_nat (x : nat) (l : list nat) : bool :=
  match l with [] => false | y :: t => (x =? y) || mem_nat x t end.

(* every cell outside `cells` still is its sentinel *)
Definition outside_intact (len : nat) (cells : list nat) (canvas : list N) : bool :=
  (length canvas =? 5 * len) &&
  forallb (fun k => mem_nat k cells || nlist_eqb (cell_at canvas k) (enc_cell (sent_cell k))) (seq 0 len).

(* ---------- CW ---------- *)
Inductive wres := WPanic | WRes (canvas : list N) (flags : list bool) (cur_r cur_c : nat).

Definition blist_eqb := list_eqb Bool.eqb.

Definition wres_eqb (a b : wres) : bool :=
  match a, b with
  | WPanic, WPanic => true
  | WRes c f r cc, WRes c' f' r' cc' => nlist_eqb c c' && blist_eqb f f' && (r =? r') && (cc =? cc')
  | _, _ => false
  end.

Definition the_shape (H W : nat) (vops : list vop) (custom : option shape) : shape :=
  match custom with Some sh => sh | None => apply_chain (of_size H W) vops end.

Definition model_w (H W len : nat) (vops : list vop) (custom : option shape) (ctx : rctx) (ops : list wop) : wres :=
  match wops_run ctx (writer_new (the_shape H W vops custom) (init_canvas len)) ops with
  | Ok (st, flags) => WRes (enc_canvas (w_data st)) flags (l_r (w_l st)) (l_c (w_l st))
  | _ => WPanic
  end.

Definition split_items (items : list sitem) : list sitem :=
  flat_map (fun it => match it with SBytes b => map (fun x => SBytes [x]) b | p => [p] end) items.

(* every byte of a write in a call of its own *)
Definition split_op (o : wop) : wop :=
  match o with
  | OWrite chunks => OWrite (map (fun b => [b]) (concat chunks))
  | OWriteU chunks => OWriteU (map (fun b => [b]) (concat chunks))
  | OWriteT chunks => OWriteT (map (fun b => [b]) (concat chunks))
  | OSessU items => OSessU (split_items items)
  | OSessT items => OSessT (split_items items)
  | other => other
  end.

Definition window_of (H W : nat) (vops : list vop) (custom : option shape) : list nat :=
  match custom with
  | Some sh => shape_cells sh
  | None => win_cells W (win_chain (win_root H W) vops)
  end.

(* ---------- CT ---------- *)
(* nat_h: the height the implementation reports for the same text and width when the height is
   unconstrained (a second call of View::layout), so that the predicate knows whether the constraint
   of the case cut the text *)
Inductive tres := TPanic | TRes (lay_h lay_w : nat) (nat_h : nat) (canvas : list N).

Definition tres_eqb (a b : tres) : bool :=
  match a, b with
  | TPanic, TPanic => true
  | TRes h w n c, TRes h' w' n' c' => (h =? h') && (w =? w') && (n =? n') && nlist_eqb c c'
  | _, _ => false
  end.

Definition model_t (H W : nat) (vops : list vop) (ctx : rctx) (cells : list ccell) (wraps : bool)
           (minh minw maxh maxw pr pc : nat) : tres :=
  let '(h, w) := text_layout ctx cells wraps minh minw maxh maxw in
  match text_render ctx (apply_chain (of_size H W) vops) (init_canvas (H * W)) pr pc h w cells wraps with
  | Ok st => TRes h w (fst (text_size ctx cells wraps maxw)) (enc_canvas (w_data st))
  | _ => TPanic
  end.

(* the cells found in the window, in reading order, sentinels left out: canvas index and cell *)
Definition is_sentinel_kind (len : nat) (c : list N) : bool :=
  match c with
  | [_; _; _; tag; v] => (tag =? 0)%N && (SENT_BASE <=? v)%N && (v <? SENT_BASE + N.of_nat len)%N
  | _ => false
  end.

Definition visible (len : nat) (cells : list nat) (canvas : list N) : list (nat * list N) :=
  filter (fun kc => negb (is_sentinel_kind len (snd kc))) (map (fun k => (k, cell_at canvas k)) cells).

Definition nnlist_eqb := list_eqb nlist_eqb.

(* ----- reference semantics, written from the kinds and widths alone (no use of the model's
   classify / layout_step / nowrap_place) ----- *)
(* what gets written for a cell: a glyph without glyph support is its fallback characters *)
Definition ref_expand (ctx : rctx) (cs : list ccell) : list ccell :=
  flat_map (fun c => match c_kind c with
                     | KGlyph _ _ _ fb => if has_glyphs ctx then [c] else map (fun ch => mkCell (c_face c) (KChar ch)) fb
                     | _ => [c]
                     end) cs.

(* None: control character (newline 10, carriage return 13, tab 9); Some w: columns taken, 0 = not printable *)
Definition ref_width (ctx : rctx) (c : ccell) : option nat :=
  match c_kind c with
  | KChar ch => if (ch =? 10)%N || (ch =? 13)%N || (ch =? 9)%N then None else Some (cw_lookup (cw_tab ctx) ch)
  | KGlyph _ h w _ => Some (if (h =? 0)%nat then 0%nat else w)
  | KImage _ h w => Some (if (h =? 0)%nat then 0%nat else w)
  end.

(* row by row, without wrapping, on lines of width w: which printable cells are kept.  A tab moves to
   the next multiple of eight, but not beyond the right edge. *)
Fixpoint ref_nowrap (ctx : rctx) (w : nat) (cs : list ccell) (col : nat) : list ccell :=
  match cs with
  | [] => []
  | c :: t =>
      match ref_width ctx c with
      | None =>
          match c_kind c with
          | KChar 9 => ref_nowrap ctx w t (Nat.min w ((col / 8 + 1) * 8))
          | _ => ref_nowrap ctx w t 0
          end
      | Some 0%nat => ref_nowrap ctx w t col
      | Some cwid => if (col + cwid <=? w)%nat then c :: ref_nowrap ctx w t (col + cwid) else ref_nowrap ctx w t col
      end
  end.

Definition ref_printable (ctx : rctx) (cs : list ccell) : list ccell :=
  filter (fun c => match ref_width ctx c with Some (S _) => true | _ => false end) cs.

Definition ref_has_cr (cs : list ccell) : bool :=
  existsb (fun c => match c_kind c with KChar 13 => true | _ => false end) cs.

Definition expected_cells (ctx : rctx) (cells : list ccell) (wraps : bool) (w : nat) : list ccell :=
  let ex := ref_expand ctx cells in
  if wraps then ref_printable ctx ex else ref_nowrap ctx w ex 0.

(* the view is transposed with respect to the canvas iff it was transposed an odd number of times *)
Fixpoint has_transpose (ops : list vop) : bool :=
  match ops with [] => false | OpT :: t => negb (has_transpose t) | _ :: t => has_transpose t end.

(* rows a text needs on lines of width w, from kinds, widths and heights alone: the gate of the
   no-lost-cell clause (the constraint did not cut the text) no longer asks the implementation *)
Definition ref_cell_height (c : ccell) : nat :=
  match c_kind c with KChar _ => 1%nat | KGlyph _ h _ _ => h | KImage _ h _ => h end.

Fixpoint ref_rows (ctx : rctx) (wraps : bool) (w : nat) (cs : list ccell) (row col rows : nat) : nat :=
  match cs with
  | [] => rows
  | c :: t =>
      match ref_width ctx c with
      | None =>
          match c_kind c with
          | KChar 10 => ref_rows ctx wraps w t (row + 1) 0 (Nat.max rows (row + 1))
          | KChar 9 => ref_rows ctx wraps w t row (Nat.min w ((col / 8 + 1) * 8)) rows
          | _ => ref_rows ctx wraps w t row 0 rows
          end
      | Some 0%nat => ref_rows ctx wraps w t row col rows
      | Some cwid =>
          if (col + cwid <=? w)%nat then ref_rows ctx wraps w t row (col + cwid) (Nat.max rows (row + ref_cell_height c))
          else if wraps then ref_rows ctx wraps w t (row + 1) (Nat.min cwid w) (Nat.max rows (row + 1 + ref_cell_height c))
          else ref_rows ctx wraps w t row col rows
      end
  end.

(* a placed cell shows its kind; on views whose offsets grow in reading order (no transposition) also
   its face laid over the face the sentinel had (nothing else touches a placed cell: the face fill of
   tabs / newlines only covers cells the cursor skipped) *)
Definition cell_matches (faces : bool) (vis : nat * list N) (c : ccell) : bool :=
  nlist_eqb (skipn 3 (snd vis)) (enc_kind (c_kind c))
  && (if faces then nlist_eqb (firstn 3 (snd vis)) (firstn 3 (enc_cell (mkCell (overlay (c_face (sent_cell (fst vis))) (c_face c)) (c_kind c))))
      else true).

Fixpoint all2 {A B} (f : A -> B -> bool) (x : list A) (y : list B) : bool :=
  match x, y with
  | [], [] => true
  | a :: x', b :: y' => f a b && all2 f x' y'
  | _, _ => false
  end.

Definition holds_t (H W : nat) (vops : list vop) (ctx : rctx) (cells : list ccell) (wraps : bool)
           (minh minw maxh maxw pr pc : nat) (impl : tres) : bool :=
  match impl with
  | TPanic => false
  | TRes h w nat_h canvas =>
      let w0 := win_chain (win_root H W) vops in
      let sub := win_view w0 (py_resolve (w_h w0) (Rng (Z.of_nat pr) (Z.of_nat (pr + h))))
                             (py_resolve (w_w w0) (Rng (Z.of_nat pc) (Z.of_nat (pc + w)))) in
      let cells_in := win_cells W sub in
      outside_intact (H * W) cells_in canvas
      && (minh <=? h) && (h <=? maxh) && (minw <=? w) && (w <=? maxw)
      (* judged whenever the constraint did not cut the height (exact fit included; decided by the
         reference row count, not by asking the implementation) and the reported rectangle lies inside
         the view *)
      && (if (1 <=? maxw) && negb (ref_has_cr (ref_expand ctx cells))
             && (ref_rows ctx wraps maxw (ref_expand ctx cells) 0 0 0 <=? maxh)
             && (pr + h <=? w_h w0) && (pc + w <=? w_w w0)
          then all2 (cell_matches (negb (has_transpose vops))) (visible (H * W) cells_in canvas)
                    (expected_cells ctx cells wraps w)
          else true)
  end.

(* ---------- CJ: a Text deserialised from a JSON document ---------- *)
Inductive jres := JPanic | JError | JRes (cells : list ccell) (wraps : bool) (f : face).

Definition face_eqb_n (a b : face) : bool := nlist_eqb (firstn 3 (enc_cell (mkCell a (KChar 0)))) (firstn 3 (enc_cell (mkCell b (KChar 0)))).

Definition kind_eqb (a b : kind) : bool :=
  match a, b with
  | KChar x, KChar y => N.eqb x y
  | KGlyph i h w fb, KGlyph i' h' w' fb' => N.eqb i i' && (h =? h') && (w =? w') && nlist_eqb fb fb'
  | KImage i h w, KImage i' h' w' => N.eqb i i' && (h =? h') && (w =? w')
  | _, _ => false
  end.

Definition cell_eqb_full (a b : ccell) : bool := face_eqb_n (c_face a) (c_face b) && kind_eqb (c_kind a) (c_kind b).

Definition model_j (doc : jtext) : jres :=
  let st := jt_collect j0 doc in JRes (j_cells st) (j_wraps st) (j_face st).

Definition jres_eqb (a b : jres) : bool :=
  match a, b with
  | JRes c w f, JRes c' w' f' => all2 cell_eqb_full c c' && Bool.eqb w w' && face_eqb_n f f'
  | JPanic, JPanic | JError, JError => true
  | _, _ => false
  end.

(* specification side, written without the model's state machine: the characters and glyphs of the
   document in document order, nothing else; the writing face is the default one afterwards *)
Fixpoint doc_kinds (t : jtext) {struct t} : list kind :=
  match t with
  | TxStr chars => map KChar chars
  | TxArr items => flat_map doc_kinds items
  | TxObj _ _ (JBGlyph k _) => [k]       (* the "text" of a glyph object is not part of the text *)
  | TxObj _ _ (JBText t') => doc_kinds t'
  | TxObj _ _ JBNone => []
  end.

Definition holds_j (doc : jtext) (impl : jres) : bool :=
  match impl with
  | JRes cells _ f => all2 kind_eqb (map c_kind cells) (doc_kinds doc) && face_eqb_n f face0
  | _ => false
  end.

Inductive c09_case :=
| CW (H W len : nat) (vops : list vop) (custom : option shape) (glyphs : bool) (cwt : list (N * nat))
     (d : dfa) (sgr : list (list N * face * face)) (ops : list wop) (impl impl_merged impl_bytes : wres)
| CT (H W : nat) (vops : list vop) (glyphs : bool) (cwt : list (N * nat)) (cells : list ccell) (wraps : bool)
     (minh minw maxh maxw pr pc : nat) (impl : tres)
| CJ (doc : jtext) (impl : jres).

Definition c09_check (c : c09_case) : bool * bool :=
  match c with
  | CW H W len vops custom glyphs cwt d sgr ops impl merged bytewise =>
      let ctx := mkCtx glyphs cwt d sgr in
      ( wres_eqb (model_w H W len vops custom ctx ops) impl
        && wres_eqb (model_w H W len vops custom ctx (map merge_op ops)) merged
        && wres_eqb (model_w H W len vops custom ctx (map split_op ops)) bytewise,
        (* three partitions of every write: as given, all bytes in one call, one byte per call *)
        match impl, merged, bytewise with
        | WRes canvas _ _ _, WRes canvas' _ _ _, WRes canvas'' _ _ _ =>
            outside_intact len (window_of H W vops custom) canvas
            && outside_intact len (window_of H W vops custom) canvas'
            && outside_intact len (window_of H W vops custom) canvas''
            && nlist_eqb canvas canvas' && nlist_eqb canvas canvas''
        | _, _, _ => false
        end )
  | CT H W vops glyphs cwt cells wraps minh minw maxh maxw pr pc impl =>
      let ctx := mkCtx glyphs cwt dfa0 [] in
      ( tres_eqb (model_t H W vops ctx cells wraps minh minw maxh maxw pr pc) impl,
        holds_t H W vops ctx cells wraps minh minw maxh maxw pr pc impl )
  | CJ doc impl => ( jres_eqb (model_j doc) impl, holds_j doc impl )
  end.

Definition c09_report := report c09_check.
