(* C20 correspondence.  One case = one opaque colour under one colour depth;
   the real encoder is asked for FaceModify { fg, bg, underline_color = colour }
   and its bytes are read by the independent SGR interpreter (Encoder/VT.v).

   The implementation computes in f32, the model in exact rationals, so the
   256-colour and grey comparisons carry a tolerance, stated here once:
     tol256   = 1e-6 in linear-light distance (color_den / 10^6)
     tol_luma = 1e-6 in luma
   first component:  the implementation chose the model's entry, or one whose
                     exact distance differs from the model's by at most the tolerance
   second component: (property) the implementation's entry is within the tolerance of
                     the brute-force minimum over all 240 entries / all 4 levels;
                     true colour: channels unchanged. *)
From Coq Require Import List NArith ZArith Bool.
From SNT Require Export Base.Report Base.Outcome Encoder.Decimal Encoder.Utf8 Encoder.Encode Encoder.VT Encoder.Denote
  Encoder.Color256 Gen.TabColor.
Import ListNotations.
Local Open Scope N_scope.

Inductive c20_case := K (d : depth) (c : rgba) (impl : option (list N)).

(* the 240 entries once, not per case *)
Definition palette_entries : list vec := Eval vm_compute in map (entry cube_z greys_z) palette_indices.
Definition best_d2_tab (v : vec) : Z :=
  fold_left (fun m e => Z.min m (d2 v e)) palette_entries (d2 v (entry cube_z greys_z 16)).

Definition level_of_entry (e : N) : option N :=
  match e with 0 => Some 0 | 8 => Some 1 | 7 => Some 2 | 15 => Some 3 | _ => None end.

Definition colour_eqb (a b : colour) : bool := if colour_eq_dec a b then true else false.

Definition c20_check (k : c20_case) : bool * bool :=
  match k with
  | K d c None => (false, false)
  | K d c (Some ib) =>
      let opaque_ok := rgba_ok c && (ca c =? 255) in
      match vt_ops ib with
      | [OSgr t] =>
          match d with
          | TrueColor =>
              let want := Some (CRgb (cr c) (cg c) (cb c)) in
              let same := match t_fg t, t_bg t, t_ulc t with
                          | Some a, Some b, Some u => colour_eqb a (CRgb (cr c) (cg c) (cb c)) && colour_eqb b a && colour_eqb u a
                          | _, _, _ => false
                          end in
              ( match encode pal256_exact gray4_exact (mkCaps d false false)
                             (FaceModify (mkFM false (Some c) (Some c) None (Some c) None None None None)) with
                | Ok bs => nlist_eqb bs ib
                | _ => false
                end
              , opaque_ok && same && vt_complete ib )
          | EightBit =>
              match t_fg t, t_bg t, t_ulc t with
              | Some (CIdx n), Some (CIdx n2), Some (CIdx n3) =>
                  let v := lin_vec c in
                  let di := d2 v (entry cube_z greys_z n) in
                  let dm := d2 v (entry cube_z greys_z (pal256_exact c)) in
                  let roles := (n =? n2) && (n =? n3) && (16 <=? n) && (n <? 256) in
                  ( roles && ((n =? pal256_exact c) || sqrt_le_plus di dm tol256)
                  , opaque_ok && roles && sqrt_le_plus di (best_d2_tab v) tol256 && vt_complete ib )
              | _, _, _ => (false, false)
              end
          | Gray =>
              match t_fg t, t_bg t, t_ulc t with
              | Some (CIdx e), Some (CIdx e2), None =>
                  match level_of_entry e with
                  | Some l =>
                      let lz := luma_z c in
                      let dist j := Z.abs (lz - nthz gray_levels_z j) in
                      let di := dist (N.to_nat l) in
                      ( (e =? e2) && ((l =? gray4_exact c) || (di <=? dist (N.to_nat (gray4_exact c)) + tol_luma)%Z)
                      , opaque_ok && (e =? e2) &&
                        forallb (fun j => (di <=? dist j + tol_luma)%Z) [0; 1; 2; 3]%nat && vt_complete ib )
                  | None => (false, false)
                  end
              | _, _, _ => (false, false)
              end
          end
      | _ => (false, false)
      end
  end.

Definition c20_report := report c20_check.
