(* C20 correspondence.  One case = one opaque colour under one colour depth;
   the real encoder is asked for FaceModify { fg, bg, underline_color = colour }
   and its bytes are read by the independent SGR interpreter (Encoder/VT.v).

   The implementation computes in f32, the model in exact rationals, so the
   256-colour and grey comparisons carry a tolerance, stated here once:
     tol256   = 1e-6 in linear-light distance (color_den / 10^6)
     tol_luma = 1e-6 in luma
   first component:  the implementation chose the model's entry, or one whose
                     exact distance differs from the model's by at most the tolerance
   second component: (property) the xterm palette entry the implementation selected,
                     placed where the library's own sRGB->linear conversion puts its
                     colour (NOT where the typed tables say), is within the tolerance of
                     the brute-force minimum over all 240 entries so placed / of the
                     nearest of the 4 levels; true colour: channels unchanged.
                     A mistyped table constant therefore yields failing colours. *)
From Coq Require Import List NArith ZArith Bool.
From SNT Require Export Base.Report Base.Outcome Encoder.Decimal Encoder.Utf8 Encoder.Encode Encoder.VT Encoder.Denote
  Encoder.Color256 Gen.TabColor.
Import ListNotations.
Local Open Scope N_scope.

(* `tool`: the verdict of the Rust implementation of the property predicate (harness tool c20sweep,
   used for the exhaustive sweep) on the same bytes; it must equal the verdict computed here *)
Inductive c20_case := K (d : depth) (c : rgba) (impl : option (list N)) (tool : option bool).

(* the three roles get three different colours: fg = c, bg = rot c, underline = rot (rot c) *)
Definition rot (c : rgba) : rgba := mkRgba (cg c) (cb c) (cr c) (ca c).

Definition level_of_entry (e : N) : option N :=
  match e with 0 => Some 0 | 8 => Some 1 | 7 => Some 2 | 15 => Some 3 | _ => None end.

Definition colour_eqb (a b : colour) : bool := if colour_eq_dec a b then true else false.

Definition is_rgb (o : option colour) (c : rgba) : bool :=
  match o with Some x => colour_eqb x (CRgb (cr c) (cg c) (cb c)) | None => false end.

(* 256 colours, one role: (agrees with the exact model, property) *)
Definition check256 (o : option colour) (c : rgba) : bool * bool :=
  match o with
  | Some (CIdx n) =>
      let v := lin_vec c in
      let range := (16 <=? n) && (n <? 256) in
      ( range && ((n =? pal256_exact c)
                  || sqrt_le_plus (d2 v (entry cube_z greys_z n)) (d2 v (entry cube_z greys_z (pal256_exact c))) tol256)
      , range && sqrt_le_plus (d2 v (entry xcube_z xgreys_z n)) (best_d2_tab v) tol256 )
  | _ => (false, false)
  end.

(* grey, one role *)
Definition check_gray (o : option colour) (c : rgba) : bool * bool :=
  match o with
  | Some (CIdx e) =>
      match level_of_entry e with
      | Some l =>
          let lz := luma_z c in
          let dist j := Z.abs (lz - nthz gray_levels_z j) in
          let di := dist (N.to_nat l) in
          ( (l =? gray4_exact c) || (di <=? dist (N.to_nat (gray4_exact c)) + tol_luma)%Z
          , forallb (fun j => (di <=? dist j + tol_luma)%Z) [0; 1; 2; 3]%nat )
      | None => (false, false)
      end
  | _ => (false, false)
  end.

Definition and2 (a b : bool * bool) : bool * bool := (fst a && fst b, snd a && snd b).

Definition c20_check_bytes (d : depth) (c : rgba) (impl : option (list N)) : bool * bool :=
  match impl with
  | None => (false, false)
  | Some ib =>
      let c2 := rot c in let c3 := rot c2 in
      let opaque_ok := rgba_ok c && (ca c =? 255) in
      match vt_ops ib with
      | [OSgr t] =>
          let shape := opaque_ok && vt_complete ib in
          match d with
          | TrueColor =>
              ( match encode pal256_exact gray4_exact (mkCaps d false false)
                             (FaceModify (mkFM false (Some c) (Some c2) None (Some c3) None None None None)) with
                | Ok bs => nlist_eqb bs ib
                | _ => false
                end
              , shape && is_rgb (t_fg t) c && is_rgb (t_bg t) c2 && is_rgb (t_ulc t) c3 )
          | EightBit =>
              and2 (and2 (check256 (t_fg t) c) (check256 (t_bg t) c2)) (and2 (check256 (t_ulc t) c3) (true, shape))
          | Gray =>
              (* no grey rendering of an underline colour: nothing may be sent for it *)
              let no_ul := match t_ulc t with None => true | Some _ => false end in
              and2 (and2 (check_gray (t_fg t) c) (check_gray (t_bg t) c2)) (no_ul, no_ul && shape)
          end
      | _ => (false, false)
      end
  end.

Definition c20_check (k : c20_case) : bool * bool :=
  match k with
  | K d c impl tool =>
      let '(agree, holds) := c20_check_bytes d c impl in
      (* cross-check of the second implementation: same verdict on the property *)
      (agree && match tool with Some v => Bool.eqb v holds | None => false end, holds)
  end.

Definition c20_report := report c20_check.
