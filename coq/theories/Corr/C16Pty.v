(* Correspondence for C16 (terminal object): sessions of the real `SystemTerminal` on a
   pseudo-terminal, recorded by `snt_harness tool pty16`.

   A session is the program the harness ran on the terminal object (every payload, in order),
   what it observed after each call (`stats().send`, `frames_pending()`), and every byte the
   peer read from the master side.  Bytes are primitive 63-bit integers here (seven bytes are
   packed in one literal, which keeps megabyte sessions cheap to parse); the models are
   parametric in the byte type.

     agree = the model IO/TermIO.v, driven by a kernel schedule reconstructed from the observed
             send counters, makes the same observations after every call and delivers exactly
             the bytes the peer received;
     holds = the received stream is the written stream, in order, with only whole frames that
             had not started transmission cut out (specification side: frames delimited by
             flush / poll / frames_drop, the send counter at each drop as oracle). *)
From Coq Require Import List NArith ZArith Arith Bool Uint63.
From SNT Require Import Base.Outcome Base.Report IO.IOQueue IO.TermIO IO.FrameSpec.
Import ListNotations.

Local Open Scope uint63_scope.

(* ---------------------------------------------------------------- packed byte strings *)
Inductive packed := Pk (len : int) (chunks : list (list int)).

Definition unpack7 (x : int) (acc : list int) : list int :=
  (x >> 48) :: ((x >> 40) land 255) :: ((x >> 32) land 255) :: ((x >> 24) land 255)
  :: ((x >> 16) land 255) :: ((x >> 8) land 255) :: (x land 255) :: acc.

Definition nat_of (x : int) : nat := Z.to_nat (Uint63.to_Z x).
Definition N_of (x : int) : N := Z.to_N (Uint63.to_Z x).

Definition unpack (p : packed) : list int :=
  match p with
  | Pk len chunks => firstn (nat_of len) (fold_right (fun c acc => fold_right unpack7 acc c) [] chunks)
  end.

Fixpoint ilist_eqb (a b : list int) : bool :=
  match a, b with
  | [], [] => true
  | x :: a', y :: b' => if x =? y then ilist_eqb a' b' else false
  | _, _ => false
  end.

(* ---------------------------------------------------------------- sessions *)
Inductive sobs := Ob (send pending : int).

Inductive sop :=
| SW (b : packed) (o : sobs)     (* write / execute: the bytes appended to the queue *)
| SF (o : sobs)                  (* flush *)
| SP (o : sobs)                  (* poll *)
| SD (o : sobs).                 (* frames_drop *)

(* p0: what the constructor sent before the script; epilogue: what dispose queues *)
Inductive session := Sess (p0 epilogue : packed) (ops : list sop) (received : packed).

(* ---------------------------------------------------------------- model side *)
Definition term_i := term int.

(* a kernel schedule for one poll that delivers d bytes in all and leaves `count` chunks *)
Fixpoint resched (fuel : nat) (q : queue int) (d : N) (count : nat) : list (round int) :=
  match fuel with
  | O => []
  | S f =>
      if (0 <? d)%N then
        match consume_with q (consumer d true) with
        | Ok (q', size) => KAccept d :: resched f q' (d - size) count
        | _ => []
        end
      else if Nat.ltb count (chunks_count q) then
        match consume_with q (consumer 0 true) with
        | Ok (q', _) =>
            if Nat.ltb (chunks_count q') (chunks_count q) then KAccept 0 :: resched f q' 0 count else []
        | _ => []
        end
      else []
  end.

Definition poll_to (t : term_i) (d : N) (count : nat) : top int :=
  let q := flush (tq t) in
  TPoll (resched (2 * chunks_count q + 4)%nat q d count).

Definition obs_ok (t : term_i) (o : sobs) : bool :=
  match o with
  | Ob send pending => Nat.eqb (sent t) (nat_of send) && Nat.eqb (frames_pending t) (nat_of pending)
  end.

Definition mstep (t : term_i) (o : top int) : option term_i :=
  match tstep t o with Ok (t', _) => Some t' | _ => None end.

Definition model_op (t : term_i) (s : sop) : option term_i :=
  match s with
  | SW b o => match mstep t (TWrite (unpack b)) with
              | Some t' => if obs_ok t' o then Some t' else None | None => None end
  | SF o => match mstep t TFlush with
            | Some t' => if obs_ok t' o then Some t' else None | None => None end
  | SP (Ob send pending as o) =>
      let s := nat_of send in
      if Nat.ltb s (sent t) then None
      else match mstep t (poll_to t (N.of_nat (s - sent t)%nat) (nat_of pending)) with
           | Some t' => if obs_ok t' o then Some t' else None | None => None end
  | SD o => match mstep t TDrop with
            | Some t' => if obs_ok t' o then Some t' else None | None => None end
  end.

Fixpoint model_ops (t : term_i) (ops : list sop) : option term_i :=
  match ops with
  | [] => Some t
  | s :: r => match model_op t s with Some t' => model_ops t' r | None => None end
  end.

(* deliver everything that is queued and leave the queue empty *)
Definition deliver_all (t : term_i) : option term_i :=
  mstep t (poll_to t (N.of_nat (length (pending (flush (tq t))))) 0).

Definition model_session (s : session) : bool :=
  match s with
  | Sess p0 epi ops received =>
      match mstep term0 (TWrite (unpack p0)) with
      | Some t0 =>
          match deliver_all t0 with
          | Some t1 =>
              match model_ops t1 ops with
              | Some t2 =>
                  (* dispose: frames_drop, the closing sequence, polls until the sync answer *)
                  match mstep t2 TDrop with
                  | Some t3 =>
                      match mstep t3 (TWrite (unpack epi)) with
                      | Some t4 =>
                          match deliver_all t4 with
                          | Some t5 => ilist_eqb (tty t5) (unpack received) && is_empty (tq t5)
                          | None => false
                          end
                      | None => false
                      end
                  | None => false
                  end
              | None => false
              end
          | None => false
          end
      | None => false
      end
  end.

(* ---------------------------------------------------------------- specification side *)
(* IO/FrameSpec.v: the written stream cut into frames at every flush / poll / frames_drop; a drop is
   recorded with the number of bytes the tty had accepted when it happened.  IO/FrameSpecProofs.v
   proves that the check accepts every run of the model. *)
Definition fop_of (s : sop) : fop int :=
  match s with
  | SW b _ => FW (unpack b)
  | SF _ => FDelim
  | SP _ => FDelim
  | SD (Ob send _) => FDrop (N_of send)
  end.

Fixpoint last_send (ops : list sop) (d : N) : N :=
  match ops with
  | [] => d
  | (SW _ (Ob s _) | SF (Ob s _) | SP (Ob s _) | SD (Ob s _)) :: r => last_send r (N_of s)
  end.

Definition spec_session (s : session) : bool :=
  match s with
  | Sess p0 epi ops received =>
      let total := N.of_nat (length (unpack received)) in
      (* what the constructor sent is a frame of its own; dispose: frames_drop with the send counter
         as last observed (no poll happens in between), then the closing sequence as one more frame *)
      let drop_at := last_send ops (N.of_nat (length (unpack p0))) in
      frame_check Uint63.eqb
        (FW (unpack p0) :: FDelim :: map fop_of ops ++ [FDrop drop_at; FW (unpack epi)])
        (unpack received)
      && (0 <? total)%N
  end.

Definition pty_check (s : session) : bool * bool := (model_session s, spec_session s).
Definition pty_report := report pty_check.
