(* C05 o C01 correspondence: one renderer SESSION.  The harness drives the real TerminalRenderer
   against a recording terminal, encodes every recorded command with the real TTYEncoder (one
   encoder object, true colour) and hands over, per frame: the surface drawn, the commands the
   renderer issued, and the bytes.  Here the bytes are read by the independent VT interpreter and
   run on C01's reference screen (Encoder/ScreenSem.v):

   first component : the bytes are the model encoder's bytes for the recorded commands, and running
                     the bytes gives the very screen that executing the commands gives (the
                     refinement theorem C05_C01_list, on this instance);
   second component: PROPERTY of the composition, specification side only: after every frame the
                     screen reached THROUGH THE BYTES displays show(S) for the surface S drawn for
                     that frame, with no protocol error (C01's predicate, C05's interpreter). *)
From Coq Require Import List NArith Bool Arith.
From SNT Require Import Base.Outcome Render.Cell Render.Screen Render.Domain
  Encoder.Encode Encoder.EncodeStream Encoder.VT Encoder.Denote Encoder.EncodeMeaning Encoder.Term Encoder.ScreenSem.
Import ListNotations.

Fixpoint nlookup {B} (l : list (N * B)) (k : N) (d : B) : B :=
  match l with
  | [] => d
  | (k', v) :: t => if N.eqb k k' then v else nlookup t k d
  end.
Fixpoint nmem (k : N) (l : list N) : bool :=
  match l with [] => false | x :: t => N.eqb k x || nmem k t end.

Record frame_obs := mkFrameObs {
  fo_surface : grid cell;
  fo_cmds : list Screen.cmd;
  fo_bytes : option (list N) }.

Record session := mkSession {
  se_h : N; se_w : N;
  se_widths : list (N * N);                 (* display width of every character that occurs *)
  se_faces : list (N * Encode.face);        (* face id -> Face value *)
  se_fsp : list (N * N); se_fer : list (N * N); se_ers : list N;   (* C01's look-of-blank tables *)
  se_frames : list frame_obs }.

Definition se_oracle (x : session) : oracle :=
  mkoracle (fun ch => N.to_nat (nlookup (se_widths x) ch 1%N)) (fun _ => (1, 1)) (fun _ _ => 0%N)
           (fun f => nlookup (se_fsp x) f f) (fun f => nlookup (se_fer x) f f) (fun f => nmem f (se_ers x)).

Definition se_fval (x : session) (id : N) : Encode.face := nlookup (se_faces x) id (mkFace None None 0).
Definition rendition_eqb (a b : rendition) : bool := if rendition_eq_dec a b then true else false.
Definition se_fid (x : session) (r : rendition) : N :=
  match find (fun kv => rendition_eqb (face_rendition (snd kv)) r) (se_faces x) with
  | Some kv => fst kv
  | None => 9999%N
  end.

Definition pal0 (_ : rgba) : N := 16%N.
Definition caps_tc : caps := mkCaps TrueColor false false.

Definition opt_cmds (l : list Screen.cmd) (fval : N -> Encode.face) : option (list Encode.cmd) :=
  fold_right (fun c acc => match to_cmd fval c, acc with Some t, Some r => Some (t :: r) | _, _ => None end) (Some []) l.

Definition screen_eqb (a b : screen) : bool :=
  sgrid_eqb (sgrid a) (sgrid b) && places_eqb (places a) (places b) && Bool.eqb (err a) (err b)
  && Nat.eqb (fst (cur a)) (fst (cur b)) && Nat.eqb (snd (cur a)) (snd (cur b)) && N.eqb (pen a) (pen b)
  && Nat.eqb (sh a) (sh b) && Nat.eqb (sw a) (sw b).

Fixpoint session_frames (x : session) (s : screen) (fs : list frame_obs) : bool * bool :=
  match fs with
  | [] => (true, true)
  | f :: rest =>
      let o := se_oracle x in
      let h := N.to_nat (se_h x) in let w := N.to_nat (se_w x) in
      match fo_bytes f with
      | None => (false, false)
      | Some bs =>
          let s' := interp_bytes o (se_fval x) (se_fid x) s bs in
          let agree :=
            match opt_cmds (fo_cmds f) (se_fval x) with
            | Some tcs =>
                match encode_stream pal0 pal0 caps_tc tcs with
                | Ok mb => if list_eq_dec N.eq_dec mb bs then true else false
                | _ => false
                end
            | None => false
            end
            && screen_eqb s' (exec_list o s (fo_cmds f)) in
          let holds :=
            in_domain o h w (fo_surface f) && no_image_overlap o h w (fo_surface f)
            && forallb (cmd_valid (se_fval x) (se_fid x)) (fo_cmds f)
            && vt_complete bs
            && same_display s' (show o h w (fo_surface f)) in
          let '(a, p) := session_frames x s' rest in
          (agree && a, holds && p)
      end
  end.

Definition session_check (x : session) : bool * bool :=
  session_frames x (blank_screen (N.to_nat (se_h x)) (N.to_nat (se_w x))) (se_frames x).
