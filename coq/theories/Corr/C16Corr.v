(* Correspondence for C16 (queue part): a case is a history of calls on a real
   `IOQueue` together with what the harness observed after each call
   (return value, len(), chunks_count(), is_empty(), as_slice()).
     agree = the model IO/IOQueue.v makes the same observations
     holds = the byte-FIFO-with-flush-marks specification IO/FifoSpec.v accepts
             the implementation's observations                                *)
From Coq Require Import List NArith Arith Bool.
From SNT Require Import Base.Outcome Base.Report IO.IOQueue IO.FifoSpec.
Import ListNotations.
Local Open Scope N_scope.

(* case-file syntax: sizes are written as N *)
Inductive cop :=
| W (b : list N) | F | Rd (n : N) | Cn (amt : N) | CW (k : N) (clamp : bool) | CE | D | RE.

Inductive cret := U | Bs (l : list N) | Nm (n : N).
Inductive cobs := Ob (r : cret) (len count : N) (empty : bool) (slice : list N) | Pn.

Definition op_of (c : cop) : op N :=
  match c with
  | W b => OWrite b | F => OFlush | Rd n => ORead (N.to_nat n) | Cn a => OConsume a
  | CW k c => OConsumeWith k c | CE => OConsumeWithErr | D => ODrop | RE => OReadToEnd
  end.

Definition ret_of (r : cret) : ret N :=
  match r with U => RUnit | Bs l => RBytes l | Nm n => RNum n end.

Definition obs_of (o : cobs) : obs N :=
  match o with
  | Ob r len count e s => Obs (ret_of r) (N.to_nat len) (N.to_nat count) e s
  | Pn => ObsPanic
  end.

Definition ret_eqb (a b : ret N) : bool :=
  match a, b with
  | RUnit, RUnit => true
  | RBytes x, RBytes y => nlist_eqb x y
  | RNum x, RNum y => x =? y
  | _, _ => false
  end.

Definition obs_eqb (a b : obs N) : bool :=
  match a, b with
  | Obs r l c e s, Obs r' l' c' e' s' =>
      ret_eqb r r' && Nat.eqb l l' && Nat.eqb c c' && Bool.eqb e e' && nlist_eqb s s'
  | ObsPanic, ObsPanic => true
  | _, _ => false
  end.

Inductive c16_case := Q (ops : list cop) (impl : list cobs).

Definition c16_check (c : c16_case) : bool * bool :=
  match c with
  | Q ops impl =>
      let ops' := map op_of ops in
      let impl' := map obs_of impl in
      (list_eqb obs_eqb (trace qempty ops') impl', fifo_check ops' impl')
  end.

Definition c16_report := report c16_check.
