(* Correspondence for C16 (queue part): a case is a history of calls on a real
   `IOQueue` together with what the harness observed after each call
   (return value, len(), chunks_count(), is_empty(), as_slice()).
     agree = the model IO/IOQueue.v makes the same observations
     holds = the byte-FIFO-with-flush-marks specification IO/FifoSpec.v accepts
             the implementation's observations                                *)
From Coq Require Import List NArith ZArith Arith Bool Uint63.
From SNT Require Import Base.Outcome Base.Report IO.IOQueue IO.FifoSpec IO.SegQueue.
Import ListNotations.
Local Open Scope N_scope.

(* case-file syntax: sizes are written as N *)
Inductive cop :=
| W (b : list N) | F | Rd (n : N) | Cn (amt : N) | CW (k : N) (clamp : bool) | CE | D | RE.

Inductive cret := U | Bs (l : list N) | Nm (n : N).
Inductive cobs := Ob (r : cret) (len count : N) (empty : bool) (slice : list N) | Pn.

Definition op_of (c : cop) : op N :=
  match c with
  | W b => OWrite b | F => OFlush | Rd n => ORead (N.to_nat n) | Cn a => OConsume a
  | CW k c => OConsumeWith k c | CE => OConsumeWithErr | D => ODrop | RE => OReadToEnd
  end.

Definition ret_of (r : cret) : ret N :=
  match r with U => RUnit | Bs l => RBytes l | Nm n => RNum n end.

Definition obs_of (o : cobs) : obs N :=
  match o with
  | Ob r len count e s => Obs (ret_of r) (N.to_nat len) (N.to_nat count) e s
  | Pn => ObsPanic
  end.

Definition ret_eqb (a b : ret N) : bool :=
  match a, b with
  | RUnit, RUnit => true
  | RBytes x, RBytes y => nlist_eqb x y
  | RNum x, RNum y => x =? y
  | _, _ => false
  end.

Definition obs_eqb (a b : obs N) : bool :=
  match a, b with
  | Obs r l c e s, Obs r' l' c' e' s' =>
      ret_eqb r r' && Nat.eqb l l' && Nat.eqb c c' && Bool.eqb e e' && nlist_eqb s s'
  | ObsPanic, ObsPanic => true
  | _, _ => false
  end.

(* ------------------------------------------------------------------------------------------
   Big histories: chunks of 64 KiB .. 1 MiB drained by many short reads / consumes.  Bytes are
   primitive 63-bit integers, payloads are generated from a seed on both sides, and byte
   strings in observations are summarised as (length, digest); the digest of the candidate the
   model / the specification expects is compared with the digest the harness computed from
   what the implementation returned. *)
Local Open Scope uint63_scope.

Definition lcg (x : int) : int := x * 6364136223846793005 + 1442695040888963407.

Fixpoint gen_bytes (n : nat) (x : int) : list int :=
  match n with
  | O => []
  | S k => let x' := lcg x in ((x' >> 32) land 255) :: gen_bytes k x'
  end.

Definition digest (l : list int) : int := fold_left (fun h b => h * 1000003 + b + 1) l 0.

Definition nat_of (x : int) : nat := Z.to_nat (Uint63.to_Z x).
Definition N_of (x : int) : N := Z.to_N (Uint63.to_Z x).

Inductive bop :=
| BW (seed len : int) | BF | BRd (n : int) | BCn (amt : int) | BCW (k : int) (clamp : bool)
| BCE | BD | BRE.
Inductive bret := BU | BBs (len dig : int) | BNm (n : int).
Inductive bobs := BOb (r : bret) (len count : int) (empty : bool) (slen sdig : int) | BPn.
(* case files open N_scope: the integer arguments of these constructors are read as primitive ints *)
Arguments BW (seed len)%uint63_scope.
Arguments BRd n%uint63_scope.
Arguments BCn amt%uint63_scope.
Arguments BCW k%uint63_scope clamp.
Arguments BBs (len dig)%uint63_scope.
Arguments BNm n%uint63_scope.
Arguments BOb r (len count)%uint63_scope empty (slen sdig)%uint63_scope.

Definition bop_of (c : bop) : op int :=
  match c with
  | BW seed len => OWrite (gen_bytes (nat_of len) seed)
  | BF => OFlush | BRd n => ORead (nat_of n) | BCn a => OConsume (N_of a)
  | BCW k c => OConsumeWith (N_of k) c | BCE => OConsumeWithErr | BD => ODrop | BRE => OReadToEnd
  end.

Definition sum_ok (l : list int) (len dig : int) : bool :=
  Nat.eqb (length l) (nat_of len) && (digest l =? dig).

Definition bret_ok (r : ret int) (b : bret) : bool :=
  match r, b with
  | RUnit, BU => true
  | RBytes l, BBs len dig => sum_ok l len dig
  | RNum x, BNm y => (x =? N_of y)%N
  | _, _ => false
  end.

Definition bobs_ok (o : obs int) (b : bobs) : bool :=
  match o, b with
  | Obs r l c e s, BOb r' l' c' e' slen sdig =>
      bret_ok r r' && Nat.eqb l (nat_of l') && Nat.eqb c (nat_of c') && Bool.eqb e e'
      && sum_ok s slen sdig
  | ObsPanic, BPn => true
  | _, _ => false
  end.

Fixpoint all2 {X Y} (f : X -> Y -> bool) (a : list X) (b : list Y) : bool :=
  match a, b with
  | [], [] => true
  | x :: a', y :: b' => if f x y then all2 f a' b' else false
  | _, _ => false
  end.

(* the specification replays the history; the byte strings an observation stands for are
   taken from the specification's own state and must have the observed digest *)
Definition b_step (f : fifo int) (prev : list int) (o : op int) (bo : bobs)
  : option (fifo int * list int) :=
  match bo with
  | BPn => match f_step Uint63.eqb f prev o ObsPanic with Some f' => Some (f', []) | None => None end
  | BOb r len count e slen sdig =>
      let ro :=
        match r with
        | BU => Some RUnit
        | BNm n => Some (RNum (N_of n))
        | BBs l d => let out := firstn (nat_of l) (owed f) in
                     if sum_ok out l d then Some (RBytes out) else None
        end in
      match ro with
      | None => None
      | Some r' =>
          match f_step Uint63.eqb f prev o (Obs r' (nat_of len) (nat_of count) e []) with
          | None => None
          | Some f' =>
              let sl := firstn (nat_of slen) (owed f') in
              if sum_ok sl slen sdig then Some (f', sl) else None
          end
      end
  end.

Fixpoint b_run (f : fifo int) (prev : list int) (ops : list (op int)) (obs : list bobs) : bool :=
  match ops, obs with
  | [], [] => true
  | o :: ops', bo :: obs' =>
      match b_step f prev o bo with
      | None => false
      | Some (f', sl) =>
          match bo with
          | BPn => match obs' with [] => true | _ => false end
          | _ => b_run f' sl ops' obs'
          end
      end
  | _, _ => false
  end.

Local Open Scope N_scope.

Inductive c16_case :=
| Q (ops : list cop) (impl : list cobs)
| QB (ops : list bop) (impl : list bobs)
| QS (ops : list sop) (impl : list sobs).
    (* segment histories (IO/SegQueue.v): the payloads are the consecutive positions of one pattern stream;
       the harness has verified that the bytes it got equal the pattern over every run it reports *)

Definition swritten (ops : list sop) : N :=
  fold_left (fun acc o => match o with SWr n => acc + n | _ => acc end) ops 0.
Definition c16_check (c : c16_case) : bool * bool :=
  match c with
  | Q ops impl =>
      let ops' := map op_of ops in
      let impl' := map obs_of impl in
      (list_eqb obs_eqb (trace qempty ops') impl', fifo_check ops' impl')
  | QB ops impl =>
      let ops' := map bop_of ops in
      (all2 bobs_ok (trace qempty ops') impl, b_run (fifo0 (A := int)) [] ops' impl)
  | QS ops impl =>
      (* agree: the segment model makes the same observations - and, on histories small enough to expand, the
         byte-level model of IO/IOQueue.v makes them too (the abstraction, evaluated);
         holds: the specification on runs accepts the implementation's observations *)
      (s_agree ops impl && (if swritten ops <=? 4096 then abstraction_ok ops else true), s_holds ops impl)
  end.

Definition c16_report := report c16_check.
