(* Correspondence for C15.  A case is an expression built through the public NFA
   API together with what the implementation showed:
     - the NFA graph parsed from `impl Debug for NFA` (DOT),
     - the compiled DFA enumerated breadth first through start/transition/info,
     - acceptance / terminal / tags after every string over `sigma` up to a
       length (a tree, dead branches cut) and after some longer probe strings.
   agree : the model (Build.build, Compile.compile) reproduces all three.
   holds : the property predicate, computed from the regular expression alone
           (derivatives): accepting iff the expression matches, a dead
           transition only where no extension can match, terminal only if no
           byte extends, tags exactly those of the matching alternatives. *)
From Coq Require Import List NArith Bool Arith.
From SNT Require Export Base.Outcome Base.Report Automata.Regex Automata.NFA Automata.Build Automata.Compile
  Automata.CompileFast Automata.TagSpec.
Import ListNotations.

(* ---------- observed data ---------- *)

(* canonical DFA state: info and edges (symbol, canonical target), symbols increasing *)
Inductive cstate := CS (acc term : bool) (tags : list N) (es : list (N * nat)).

(* observation tree: one child per symbol of sigma, no children at the depth limit.
   Per string s: Dead / Live = transition_many(start, s) is None / Some state;
   acc, term, tags = info(state); m = DFA::matches(s). *)
Inductive obs := Dead (m : bool) | Live (acc term m : bool) (tags : list N) (kids : list obs).

Inductive c15_case :=
| Built (e : regex) (sigma : list N)
        (impl_nfa : nfa) (impl_dfa : list cstate) (impl_obs : obs)
        (probes : list (list N * obs))
        (consistent : bool)   (* single-stepping with transition agrees with transition_many on every string *)
        (size_ok : bool)      (* DFA::size() = number of states reachable from start (agree only) *)
| Crashed (e : regex)         (* the implementation panicked while building / compiling / stepping *)
| Skipped (e : regex).        (* automaton too large for the observation budget: nothing observed;
                                 reported as a disagreement, never silently passed *)

(* ---------- equality tests ---------- *)

Definition pair_eqb {A B} (fa : A -> A -> bool) (fb : B -> B -> bool) (x y : A * B) : bool :=
  fa (fst x) (fst y) && fb (snd x) (snd y).

Definition opt_eqb {A} (f : A -> A -> bool) (x y : option A) : bool :=
  match x, y with
  | None, None => true
  | Some a, Some b => f a b
  | _, _ => false
  end.

Definition nstate_eqb (a b : nstate) : bool :=
  list_eqb (pair_eqb N.eqb Nat.eqb) (edges a) (edges b)
  && list_eqb Nat.eqb (eps a) (eps b)
  && opt_eqb N.eqb (tag a) (tag b).

Definition nfa_eqb (a b : nfa) : bool :=
  Nat.eqb (start a) (start b) && Nat.eqb (stop a) (stop b)
  && list_eqb nstate_eqb (states a) (states b).

Definition cstate_eqb (a b : cstate) : bool :=
  match a, b with
  | CS a1 t1 g1 e1, CS a2 t2 g2 e2 =>
      Bool.eqb a1 a2 && Bool.eqb t1 t2 && nlist_eqb g1 g2
      && list_eqb (pair_eqb N.eqb Nat.eqb) e1 e2
  end.

(* ---------- breadth-first canonical form of the model's DFA ---------- *)

Definition row (d : dfa) (q : nat) : list (option nat) :=
  firstn (lang_size d) (skipn (lang_size d * q) (dtable d)).

(* sparse edges of a row: (symbol, target) for the Some entries *)
Fixpoint row_edges (c : N) (r : list (option nat)) : list (N * nat) :=
  match r with
  | [] => []
  | Some q :: r' => (c, q) :: row_edges (N.succ c) r'
  | None :: r' => row_edges (N.succ c) r'
  end.

Fixpoint index_of (q : nat) (l : list nat) (i : nat) : option nat :=
  match l with
  | [] => None
  | x :: r => if Nat.eqb x q then Some i else index_of q r (S i)
  end.

(* order : states discovered so far (breadth first), todo : the suffix not yet expanded *)
Fixpoint bfs (fuel : nat) (d : dfa) (order todo : list nat) : option (list nat) :=
  match todo with
  | [] => Some order
  | q :: rest =>
      match fuel with
      | O => None
      | S f =>
          let new := fold_left (fun acc e => if existsb (Nat.eqb (snd e)) (order ++ acc) then acc else acc ++ [snd e])
                               (row_edges 0 (row d q)) [] in
          bfs f d (order ++ new) (rest ++ new)
      end
  end.

Definition canon (d : dfa) : option (list cstate) :=
  match bfs 4096 d [dstart d] [dstart d] with
  | None => None
  | Some order =>
      Some (map (fun q =>
                   let i := nth q (dinfos d) default_info in
                   CS (accepting i) (terminal i) (dtags i)
                      (map (fun e => (fst e, match index_of (snd e) order 0 with Some k => k | None => 0 end))
                           (row_edges 0 (row d q))))
                order)
  end.

(* ---------- the model's DFA against the observation tree ---------- *)

Definition info_eqb (i : dinfo) (acc term : bool) (tags : list N) : bool :=
  Bool.eqb (accepting i) acc && Bool.eqb (terminal i) term && nlist_eqb (dtags i) tags.

Fixpoint obs_model (d : dfa) (sigma : list N) (q : option nat) (o : obs) {struct o} : bool :=
  match o, q with
  | Dead m, None => negb m
  | Live acc term m tags kids, Some q =>
      match info d q with
      | Ok i => info_eqb i acc term tags && Bool.eqb m (accepting i)
      | _ => false
      end
      && (is_nil kids ||
          (fix go (cs : list N) (ks : list obs) {struct ks} : bool :=
             match cs, ks with
             | [], [] => true
             | c :: cs', k :: ks' =>
                 match transition d q c with
                 | Ok t => obs_model d sigma t k
                 | _ => false
                 end && go cs' ks'
             | _, _ => false
             end) sigma kids)
  | _, _ => false
  end.

Definition obs_matches (o : obs) : bool :=
  match o with Dead m => m | Live _ _ m _ _ => m end.

(* probes go through the model of transition_many and of DFA::matches literally *)
Definition probe_model (d : dfa) (p : list N * obs) : bool :=
  match transition_many d (dstart d) (fst p), dfa_matches d (fst p) with
  | Ok t, Ok m => obs_model d [] t (snd p) && Bool.eqb m (obs_matches (snd p))
  | _, _ => false
  end.

(* ---------- the property predicate, from the expression alone ---------- *)

(* tags expected after a string: the tags of the alternatives whose residual is nullable *)
Definition spec_tags (alts : list (N * regex)) : list N :=
  fold_left (fun acc a => if nullable (snd a) then nins (fst a) acc else acc) alts [].

Definition deriv_alts (c : N) (alts : list (N * regex)) : list (N * regex) :=
  map (fun a => (fst a, deriv c (snd a))) alts.

(* r : residual of the expression after the string read so far; alts : residuals
   of the tagged alternatives; wf : the expression has the tagged-choice shape,
   otherwise tags are not part of the predicate *)
(* every tag of the expression (for expressions outside the tagged-choice shape
   the predicate only requires reported tags to be tags of the expression) *)
Fixpoint all_tags (e : regex) : list N :=
  match e with
  | Tag t e => t :: all_tags e
  | Seq es | Choice es => flat_map all_tags es
  | Plus e | Opt e | Many e => all_tags e
  | _ => []
  end.

Fixpoint obs_spec (sigma : list N) (wf : bool) (ts : list N) (r : regex) (alts : list (N * regex)) (o : obs)
         {struct o} : bool :=
  match o with
  | Dead m => isempty r && negb m
  | Live acc term m tags kids =>
      Bool.eqb acc (nullable r) && Bool.eqb m (nullable r)
      && (if wf then nlist_eqb tags (spec_tags alts) else forallb (fun t => existsb (N.eqb t) ts) tags)
      (* `if`, not `||`: vm_compute is call by value *)
      && (if term then forallb (fun c => isempty (deriv c r)) all_bytes else true)
      && (is_nil kids ||
          (fix go (cs : list N) (ks : list obs) {struct ks} : bool :=
             match cs, ks with
             | [], [] => true
             | c :: cs', k :: ks' =>
                 obs_spec sigma wf ts (deriv c r) (deriv_alts c alts) k && go cs' ks'
             | _, _ => false
             end) sigma kids)
  end.

(* tags only, against a list of (tag, residual): used with `tex e` on the AGREE side
   (the general tag law describes this construction, not the property) *)
Fixpoint obs_tags (sigma : list N) (alts : list (N * regex)) (o : obs) {struct o} : bool :=
  match o with
  | Dead _ => true
  | Live _ _ _ tags kids =>
      nlist_eqb tags (spec_tags alts)
      && (is_nil kids ||
          (fix go (cs : list N) (ks : list obs) {struct ks} : bool :=
             match cs, ks with
             | [], [] => true
             | c :: cs', k :: ks' => obs_tags sigma (deriv_alts c alts) k && go cs' ks'
             | _, _ => false
             end) sigma kids)
  end.

Definition probe_tags (e : regex) (p : list N * obs) : bool :=
  obs_tags [] (fold_left (fun al c => deriv_alts c al) (fst p) (tex e)) (snd p).

Definition probe_spec (wf : bool) (e : regex) (p : list N * obs) : bool :=
  obs_spec [] wf (all_tags e) (derivs (fst p) e)
           (fold_left (fun al c => deriv_alts c al) (fst p) (tagalts e)) (snd p)
  && Bool.eqb (obs_matches (snd p)) (matcher e (fst p)).

Definition bytes_ok (s : list N) : bool := forallb (fun c => N.ltb c 256) s.

Definition c15_check (c : c15_case) : bool * bool :=
  match c with
  | Crashed _ => (false, false)         (* building / compiling / stepping never panics *)
  | Skipped _ => (false, true)
  | Built e sigma infa idfa iobs probes consistent size_ok =>
      (* HOLDS judges tags as the property states them: for the tagged-choice shape the tags
         of the matching alternatives (tagalts); elsewhere only that every reported tag is a
         tag of the expression.  The general law tex (TagLaw.tag_law) describes where THIS
         construction keeps tags (shared stop states) and is compared on the AGREE side. *)
      let wf := tagwf e in
      ( consistent && size_ok
        && nfa_eqb (build e) infa
        (* compile_fast_default = compile_default (CompileFastProofs.compile_fast_default_eq) *)
        && match compile_fast_default (build e) with
           | Ok d =>
               match canon d with
               | Some cd => list_eqb cstate_eqb cd idfa
               | None => false
               end
               && obs_model d sigma (Some (dstart d)) iobs
               && forallb (probe_model d) probes
           | _ => false
           end
        && obs_tags sigma (tex e) iobs
        && forallb (probe_tags e) probes,
        consistent
        && bytes_ok sigma && forallb (fun p => bytes_ok (fst p)) probes
        && obs_spec sigma wf (all_tags e) e (tagalts e) iobs
        && forallb (probe_spec wf e) probes )
  end.

Definition c15_report := report c15_check.
