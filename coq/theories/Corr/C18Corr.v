(* Correspondence for C18: cases written by harness/src/c18.rs carry what the
   real KeyMap / KeyMapHandler / FromStr / Display did.

   first component  : the model (Keys/KeyMap.v trie, Keys/KeyParse.v parsers)
                      reproduces the implementation's observations
   second component : the PROPERTY, evaluated from the specification side only
                      (dictionary of chords `reg` / `spec_lookup` /
                      `spec_override` / `spec_handle`; for the parsers: no
                      panic, and the implementation's own print-then-parse
                      returns the value it had accepted) *)
From Coq Require Import List NArith Bool.
From SNT Require Export Base.Outcome Base.Report Keys.KeyMap Keys.KeyParse.
Import ListNotations.
Local Open Scope N_scope.

Definition key_eqb (a b : key) : bool := keq key_cmp a b.
Definition chord_eq (a b : list key) : bool := list_eqb key_eqb a b.
Definition opt_eqb {A} (e : A -> A -> bool) (a b : option A) : bool :=
  match a, b with
  | None, None => true
  | Some x, Some y => e x y
  | _, _ => false
  end.
Definition binding_eqb (a b : list key * N) : bool :=
  chord_eq (fst a) (fst b) && (snd a =? snd b).

(* ------------------------------------------------------------ key maps *)

Inductive op :=
| ORegister (m : N) (c : list key) (v : N)   (* KeyMap::register on map m; mirrored on KeyMapHandler m *)
| OLookup (m : N) (c : list key)             (* KeyMap::lookup *)
| OForEach (m : N)                           (* KeyMap::for_each *)
| OOverride (dst src : N)                    (* maps[dst].register_override(&maps[src]) *)
| OHandle (m : N) (k : key)                  (* KeyMap::lookup_state on the chord vector kept for m, and KeyMapHandler::handle *)
| OClear (m : N).                            (* KeyMap::clear, KeyMapHandler::clear, chord vector cleared *)

Inductive old_obs := OldNone | OldVal (v : N) | OldMap (l : list (list key * N)).

Inductive obs :=
| BOld (o : old_obs)
| BRes (r : kmres N)
| BList (l : list (list key * N))
| BUnit
| BHandle (fired : option N) (st : list key) (handler_fired : option N)
| BPanic.

Definition res_eqb (a b : kmres N) : bool :=
  match a, b with
  | Success x, Success y => x =? y
  | Failure, Failure => true
  | Continue, Continue => true
  | _, _ => false
  end.

Definition old_eqb (a b : old_obs) : bool :=
  match a, b with
  | OldNone, OldNone => true
  | OldVal x, OldVal y => x =? y
  | OldMap x, OldMap y => list_eqb binding_eqb x y
  | _, _ => false
  end.

(* exact equality of observations (model vs implementation) *)
Definition obs_eqb (a b : obs) : bool :=
  match a, b with
  | BOld x, BOld y => old_eqb x y
  | BRes x, BRes y => res_eqb x y
  | BList x, BList y => list_eqb binding_eqb x y
  | BUnit, BUnit => true
  | BHandle f s h, BHandle f' s' h' => opt_eqb N.eqb f f' && chord_eq s s' && opt_eqb N.eqb h h'
  | _, _ => false
  end.

Definition tr := trie key N.

(* two maps (0 and 1), each with the chord vector of its matcher *)
Record mstate := MS { m0 : tr; s0 : list key; m1 : tr; s1 : list key }.
Definition get_m (s : mstate) (m : N) := if m =? 0 then m0 s else m1 s.
Definition get_s (s : mstate) (m : N) := if m =? 0 then s0 s else s1 s.
Definition set_m (s : mstate) (m : N) (t : tr) :=
  if m =? 0 then MS t (s0 s) (m1 s) (s1 s) else MS (m0 s) (s0 s) t (s1 s).
Definition set_s (s : mstate) (m : N) (c : list key) :=
  if m =? 0 then MS (m0 s) c (m1 s) (s1 s) else MS (m0 s) (s0 s) (m1 s) c.

Definition old_of (e : option (entry key N)) : old_obs :=
  match e with
  | None => OldNone
  | Some (EVal v) => OldVal v
  | Some (ESub t) => OldMap (for_each t)
  end.

Definition model_step (s : mstate) (o : op) : mstate * obs :=
  match o with
  | ORegister m c v =>
      let t := get_m s m in
      (set_m s m (register key_cmp t c v), BOld (old_of (register_old key_cmp t c)))
  | OLookup m c => (s, BRes (lookup key_cmp (get_m s m) c))
  | OForEach m => (s, BList (for_each (get_m s m)))
  | OOverride d r => (set_m s d (register_override key_cmp (get_m s d) (get_m s r)), BUnit)
  | OHandle m k =>
      let '(st, f) := lookup_state key_cmp (get_m s m) (get_s s m) k in
      (set_s s m st, BHandle f st f)
  | OClear m => (set_s (set_m s m TNil) m [], BUnit)
  end.

Fixpoint model_exec (s : mstate) (ops : list op) : list obs :=
  match ops with
  | [] => []
  | o :: r => let '(s', b) := model_step s o in b :: model_exec s' r
  end.

(* ---- specification side: dictionaries of chords *)
Definition dc := dict key N.
Record sstate := SS { d0 : dc; t0 : list key; d1 : dc; t1 : list key }.
Definition get_d (s : sstate) (m : N) := if m =? 0 then d0 s else d1 s.
Definition get_t (s : sstate) (m : N) := if m =? 0 then t0 s else t1 s.
Definition set_d (s : sstate) (m : N) (d : dc) :=
  if m =? 0 then SS d (t0 s) (d1 s) (t1 s) else SS (d0 s) (t0 s) d (t1 s).
Definition set_t (s : sstate) (m : N) (c : list key) :=
  if m =? 0 then SS (d0 s) c (d1 s) (t1 s) else SS (d0 s) (t0 s) (d1 s) c.

Definition mem_binding (p : list key * N) (l : list (list key * N)) : bool :=
  existsb (binding_eqb p) l.

(* the enumeration lists exactly the bound chords (each once, any order) *)
Definition same_bindings (impl spec : list (list key * N)) : bool :=
  (N.of_nat (length impl) =? N.of_nat (length spec))
  && forallb (fun p => mem_binding p spec) impl
  && forallb (fun p => mem_binding p impl) spec.

(* ---- the matcher clauses of the property, evaluated on the stream of handle() observations.
   Nothing below runs spec_handle or the code's two-pass loop: the clauses are read off the
   dictionary and the implementation's answers.

   steps: the maximal run of consecutive handle() calls on one map starting here
          (key typed, lookup_state's answer, KeyMapHandler::handle's answer) *)
Definition hstep := (key * option N * option N)%type.

Fixpoint handle_run (m : N) (ops : list op) (impl : list obs) : list hstep :=
  match ops, impl with
  | OHandle m' k :: r, BHandle f _ h :: bs => if m' =? m then (k, f, h) :: handle_run m r bs else []
  | _, _ => []
  end.

Definition is_none {A} (o : option A) : bool := match o with None => true | Some _ => false end.

(* the next n answers are: nothing n-1 times, then v *)
Fixpoint fired_pattern (n : nat) (v : N) (steps : list hstep) : bool :=
  match n, steps with
  | S O, (_, f, h) :: _ => opt_eqb N.eqb f (Some v) && opt_eqb N.eqb h (Some v)
  | S n', (_, f, h) :: r => is_none f && is_none h && fired_pattern n' v r
  | _, _ => false
  end.

(* every bound chord that the coming keys spell out fires exactly at its last key *)
Definition chords_fire (d : dc) (steps : list hstep) : bool :=
  let keys := map (fun s => fst (fst s)) steps in
  forallb (fun p => if is_prefix key_cmp (fst p) keys
                    then fired_pattern (length (fst p)) (snd p) steps else true) d.

Definition begins_none (d : dc) (u : key) : bool :=
  forallb (fun p => match fst p with k :: _ => negb (key_eqb k u) | [] => true end) d.

(* one handle() call.  `pending`: the keys pending before the call according to the dictionary-level
   matcher (spec_handle, used here as bookkeeping only: what must be ANSWERED is read off the clauses).
   `literal`: evaluate clause B as the property text words it, for every pending state; otherwise it is
   skipped exactly in the class of the known finding: the unbound key continues the pending chord
   (pending ++ [k] is a proper prefix of a bound chord). *)
Definition in_class (d : dc) (pending : list key) (k : key) : bool :=
  begins_none d k && match spec_lookup key_cmp d (pending ++ [k]) with Continue => true | _ => false end.

Definition english_step (literal : bool) (d : dc) (pending : list key) (steps : list hstep) : bool :=
  match steps with
  | [] => true
  | (k, f, _) :: rest =>
      (* typed from an idle state, a bound chord fires exactly at its last key *)
      (match pending with [] => chords_fire d steps | _ => true end)
      (* an unbound key never prevents the chord typed immediately after it from firing *)
      && (if begins_none d k && (literal || negb (in_class d pending k)) then chords_fire d rest else true)
      (* and only bound chords fire: the pending keys plus this key, or this key alone *)
      && (match f with
          | Some v => mem_binding (pending ++ [k], v) d || mem_binding ([k], v) d
          | None => true
          end)
  end.

(* does the implementation's observation satisfy the property, given the dictionaries?
   (t0 / t1 of the state: the pending keys of the dictionary-level matcher, NOT the chord vector the
   implementation reports: a stale vector must not make the "idle" clause vacuous) *)
Definition spec_step (literal : bool) (s : sstate) (o : op) (ops : list op) (impl : list obs) : sstate * bool :=
  match o, impl with
  | ORegister m c v, BOld _ :: _ => (set_d s m (reg key_cmp c v (get_d s m)), true)
  | OLookup m c, BRes r :: _ =>
      (s, match c with
          | [] => true                (* the property speaks of non-empty chords *)
          | _ => res_eqb (spec_lookup key_cmp (get_d s m) c) r
          end)
  | OForEach m, BList l :: _ => (s, same_bindings l (get_d s m))
  | OOverride d r, BUnit :: _ => (set_d s d (spec_override key_cmp (get_d s d) (get_d s r)), true)
  | OHandle m k, BHandle _ _ _ :: _ =>
      (set_t s m (fst (spec_handle key_cmp (get_d s m) (get_t s m) k)),
       english_step literal (get_d s m) (get_t s m) (handle_run m ops impl))
  | OClear m, BUnit :: _ => (set_t (set_d s m []) m [], true)
  | _, _ => (s, false)
  end.

Fixpoint spec_exec (literal : bool) (s : sstate) (ops : list op) (impl : list obs) : bool :=
  match ops, impl with
  | [], [] => true
  | o :: r, _ :: bs => let '(s', ok) := spec_step literal s o ops impl in ok && spec_exec literal s' r bs
  | _, _ => false
  end.

(* does the history contain a step of the known-finding class?  (decided on the dictionary side) *)
Fixpoint has_class_step (s : sstate) (ops : list op) (impl : list obs) : bool :=
  match ops, impl with
  | o :: r, _ :: bs =>
      (match o with OHandle m k => in_class (get_d s m) (get_t s m) k | _ => false end)
      || has_class_step (fst (spec_step false s o ops impl)) r bs
  | _, _ => false
  end.

(* ------------------------------------------------------------- parsers *)

Inductive pkind := PName | PKey | PChord.
Inductive pval := VName (n : key_name) | VKey (k : key) | VChord (ks : list key).
Inductive pout := POk (v : pval) | PErr | PPanic.

Definition name_eqb (a b : key_name) : bool := key_eqb (Key a 0) (Key b 0).

Definition pval_eqb (a b : pval) : bool :=
  match a, b with
  | VName x, VName y => name_eqb x y
  | VKey x, VKey y => key_eqb x y
  | VChord x, VChord y => chord_eq x y
  | _, _ => false
  end.

Definition pout_eqb (a b : pout) : bool :=
  match a, b with
  | POk x, POk y => pval_eqb x y
  | PErr, PErr => true
  | PPanic, PPanic => true
  | _, _ => false
  end.

Definition to_pout {A} (f : A -> pval) (o : outcome A) : pout :=
  match o with
  | Ok a => POk (f a)
  | Err _ => PErr
  | Panic _ => PPanic
  | OutOfFuel => PPanic
  end.

Definition model_parse (lower : str -> str) (k : pkind) (s : str) : pout :=
  match k with
  | PName => to_pout VName (parse_name lower s)
  | PKey => to_pout VKey (parse_key lower s)
  | PChord => to_pout VChord (parse_chord lower s)
  end.

Definition model_print (v : pval) : str :=
  match v with
  | VName n => print_name n
  | VKey k => print_key k
  | VChord ks => print_chord ks
  end.

(* the two facts about to_lowercase the theorems assume, checked on the
   answers actually given in this case *)
Definition is_ascii_nonupper (c : N) : bool := (c <? 128) && negb ((65 <=? c) && (c <=? 90)).
Definition oracle_entry_ok (p : str * str) : bool :=
  let '(a, b) := p in
  (if forallb is_ascii_nonupper a then str_eqb a b else true)
  && (if starts_with 102 b then starts_with 102 a || starts_with 70 a else true).

Inductive c18_case :=
| CMap (ops : list op) (impl : list obs)
| CMapLiteral (ops : list op) (impl : list obs)
    (* the same history judged by the clauses exactly as the property text words them (clause B for every
       pending state): fails in the class of the known finding C18-unbound-key-inside-chord *)
| CParse (k : pkind) (s : str) (tbl : list (str * str))
         (parsed : pout) (printed : str) (reparsed : pout)
    (* parsed = s.parse(); when Ok(v): printed = v.to_string(), reparsed = printed.parse() *)
| CPrint (v : pval) (printed : str) (tbl : list (str * str)) (reparsed : pout).
    (* Display of an arbitrary value (including ones the parser never returns), and FromStr of that *)

(* the values the parsers can return (decidable form of key_canon, Keys/KeyParseProofs.v) *)
Definition key_canonb (k : key) : bool :=
  name_canonb (kname k) && (kmode k <? 512) && (N.land (kmode k) 128 =? 0).
Definition pval_canonb (v : pval) : bool :=
  match v with
  | VName n => name_canonb n
  | VKey k => key_canonb k
  | VChord ks => forallb key_canonb ks && negb (match ks with [] => true | _ => false end)
  end.
Definition kind_of (v : pval) : pkind :=
  match v with VName _ => PName | VKey _ => PKey | VChord _ => PChord end.

Definition init_m := MS TNil [] TNil [].
Definition init_s := SS [] [] [] [].

Definition c18_check (c : c18_case) : bool * bool :=
  match c with
  | CMap ops impl =>
      (list_eqb obs_eqb (model_exec init_m ops) impl,
       spec_exec false init_s ops impl)
  | CMapLiteral ops impl =>
      (* a failure here is attributed to the class (first component stays true, so that the known
         finding with require_agree covers it) only if the model reproduces the observations, the history
         has a step of the class, and everything but the literal clause B holds; any other failure makes
         the first component false and is reported *)
      (list_eqb obs_eqb (model_exec init_m ops) impl
       && (spec_exec true init_s ops impl
           || (has_class_step init_s ops impl && spec_exec false init_s ops impl)),
       spec_exec true init_s ops impl)
  | CParse k s tbl parsed printed reparsed =>
      let lower := table_lower tbl in
      (pout_eqb (model_parse lower k s) parsed
       && forallb oracle_entry_ok tbl
       && match parsed with
          | POk v => str_eqb (model_print v) printed
                     && pout_eqb (model_parse lower k printed) reparsed
          | _ => true
          end,
       negb (pout_eqb parsed PPanic)
       && match parsed with
          | POk v => pout_eqb reparsed (POk v)
          | _ => true
          end)
  | CPrint v printed tbl reparsed =>
      (str_eqb (model_print v) printed
       && forallb oracle_entry_ok tbl
       && pout_eqb (model_parse (table_lower tbl) (kind_of v) printed) reparsed,
       (* printing then parsing never panics, and returns the value whenever it is one a parser can return *)
       negb (pout_eqb reparsed PPanic)
       && (if pval_canonb v then pout_eqb reparsed (POk v) else true))
  end.

Definition c18_report := report c18_check.
