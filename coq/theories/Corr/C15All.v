(* The case type of the C15 correspondence run: expression cases (Corr/C15Corr.v) and
   probes of the PRODUCTION automata: a byte string stepped through the real
   TTY_EVENT / TTY_COMMAND / UTF8 DFA (dead, accepting, tags as observed), judged
   against the production NFA dumped before compile (Gen/ProdNFA.v) by stepping
   subsets with the executable definitions of Automata/ProdCheck.v.  The failing
   inputs reported by the production certificate hook replay through this. *)
From Coq Require Import List NArith Bool.
From SNT Require Export Corr.C15Corr.
From SNT Require Automata.ProdNfaData Automata.ProdCheck Corr.C15Prod Gen.ProdNFA.
Import ListNotations.

Inductive c15_any :=
| Expr (c : c15_case)
| Prod (which : N)                   (* 0 event, 1 command, 2 utf8 *)
       (bytes : list N)
       (dead acc : bool) (tags : list (bool * N)).

Definition prod_nfa (which : N) : ProdNfaData.nfa_data :=
  match which with
  | 0%N => ProdNFA.event_nfa_data
  | 1%N => ProdNFA.command_nfa_data
  | _ => ProdNFA.utf8_nfa_data
  end.

Definition prod_probe (which : N) (bytes : list N) (dead acc : bool) (tags : list (bool * N)) : bool :=
  let nd := prod_nfa which in
  let idx := ProdCheck.sd_index nd in
  let fuel := N.to_nat 100000 in
  let qs := fold_left (fun qs c => C15Prod.closure_of idx fuel (ProdCheck.targets idx qs c)) bytes
                      (C15Prod.closure_of idx fuel [0%N]) in
  match qs with
  | [] => dead
  | _ => negb dead
         && Bool.eqb acc (ProdCheck.memN (ProdNfaData.nd_stop nd) qs)
         && nlist_eqb (C15Prod.prod_tags tags) (C15Prod.nfa_tags idx qs)
  end.

Definition c15_any_check (c : c15_any) : bool * bool :=
  match c with
  | Expr c => c15_check c
  | Prod which bytes dead acc tags =>
      let ok := forallb (fun c => N.ltb c 256) bytes && prod_probe which bytes dead acc tags in
      (ok, ok)
  end.

Definition c15_any_report := report c15_any_check.
