(* Correspondence for C01.  A case is one history driven through the real
   TerminalRenderer against a recording Terminal: terminal size, the oracle
   tables the harness obtained from the real code (unicode-width, size_cells),
   the operations, and the command list the implementation issued per
   operation.

   first component : the model (Render/Frame.v) issues the same commands, the
   class tags of the harness are the Coq-side classes, AND the part of the
   property that holds in every case, known classes included, holds on the
   IMPLEMENTATION's commands (Spec.resume_run = C01_history_resumes: judging
   is suspended only from the frame of an overlapping surface to the next
   forced repaint; Loop.loop_spec false = C01_render_loop: every delivery is
   judged, tolerating only the placements of the last stale drop).  A
   known-class case is accepted only when this component is true
   (require_agree);
   second component: PROPERTY PREDICATE, computed on the specification side
   only — the reference terminal (Render/Screen.v) executes the
   IMPLEMENTATION's commands from a blank screen; after every frame it must
   display exactly [show S] for the surface S drawn for that frame, and no
   command may be a protocol error (fails inside the known classes only). *)
From Coq Require Import List NArith Bool Arith.
From SNT Require Export Base.Report Render.Cell Render.Screen Render.Frame Render.Domain Render.Spec Render.Loop.
Import ListNotations.

Definition c (f ch : N) : cell := mkcell f (KChar ch).
Definition im (f i : N) : cell := mkcell f (KImg i).
Definition gl (f g : N) : cell := mkcell f (KGlyph g).

Fixpoint lookup {B} (l : list (N * B)) (k : N) (d : B) : B :=
  match l with
  | [] => d
  | (k', v) :: t => if N.eqb k k' then v else lookup t k d
  end.

(* glyph (g, face) -> image id; the harness numbers rasterised glyph images the same way *)
Definition glyph_image (g f : N) : N := (1000 + 16 * g + f)%N.

Fixpoint nmem (k : N) (l : list N) : bool :=
  match l with [] => false | x :: t => N.eqb k x || nmem k t end.

(* fsp / fer: how a printed space / an erased cell of each face looks (identity where not listed);
   ers: the faces without underline, strike or reverse attribute *)
Definition mk_oracle (widths : list (N * N)) (isizes : list (N * (N * N)))
           (fsp fer : list (N * N)) (ers : list N) : oracle :=
  mkoracle (fun ch => N.to_nat (lookup widths ch 1%N))
           (fun i => let '(a, b) := lookup isizes i (1%N, 1%N) in (N.to_nat a, N.to_nat b))
           glyph_image
           (fun f => lookup fsp f f) (fun f => lookup fer f f) (fun f => nmem f ers).

(* case files are written with N literals only *)
Definition to (r c : N) : cmd := CCursorTo (N.to_nat r) (N.to_nat c).
Definition ech (n : N) : cmd := CEraseChars (N.to_nat n).
Definition img (i r c : N) : cmd := CImage i (N.to_nat r) (N.to_nat c).
Definition unimg (i r c : N) : cmd := CImageErase i (Some (N.to_nat r, N.to_nat c)).
Definition unimg_all (i : N) : cmd := CImageErase i None.

(* screens and the resize operation in case files *)
Definition sb (f : N) : scell := (Blank, f).
Definition sc (ch f : N) : scell := (Ch ch, f).
Definition sl (ch f : N) : scell := (WL ch, f).
Definition sr (f : N) : scell := (WR, f).
Definition so (f : N) : scell := (Orphan, f).
Definition rsz (h w : N) (g : grid scell) : op := Resize (N.to_nat h) (N.to_nat w) g.
Definition ffr (k : N) : op := FailFrame (N.to_nat k).

(* an iteration of the render loop in case files *)
Definition itr (a : N) (s : grid cell) (frame : bool) (p : option N) (k : N) (rz : bool) : iter :=
  mkiter (N.to_nat a) s (if frame then AWait else AWaitNoFrame) (option_map N.to_nat p) (N.to_nat k) rz.

Inductive c01_case :=
  Hist (h w : N) (widths : list (N * N)) (isizes : list (N * (N * N)))
       (fsp fer : list (N * N)) (ers : list N)
       (ops : list op) (impl : list (list cmd)) (ovl_ii ovl_wi ovl_ww : bool)
| Forced (h w : N) (widths : list (N * N)) (isizes : list (N * (N * N)))
         (fsp fer : list (N * N)) (ers : list N)
         (g : grid scell) (foreign : list (N * N * N)) (s : grid cell) (impl : list cmd) (good : bool)
    (* TerminalRenderer::new(term, true) on a terminal showing g with placements [foreign]; draw s; frame *)
| FHist (h w : N) (widths : list (N * N)) (isizes : list (N * (N * N)))
        (fsp fer : list (N * N)) (ers : list N)
        (g : grid scell) (foreign : list (N * N * N)) (ops : list op) (impl : list (list cmd))
    (* a renderer re-created WITHOUT clear(): TerminalRenderer::new(term, true) on a terminal that still shows g and
       the placements [foreign] (what a previous renderer left), then a whole history *)
| Loop (h w : N) (widths : list (N * N)) (isizes : list (N * (N * N)))
       (fsp fer : list (N * N)) (ers : list N)
       (its : list iter) (impl : list (bool * list cmd)) (good stale : bool).
    (* the real Terminal::run_render with a scripted handler, on a terminal with a queue of chunks:
       per iteration (frames_drop was called, commands issued) *)

Definition cmd_eqb (a b : cmd) : bool :=
  match a, b with
  | CChar x, CChar y => N.eqb x y
  | CFace x, CFace y => N.eqb x y
  | CCursorTo r c, CCursorTo r' c' => Nat.eqb r r' && Nat.eqb c c'
  | CEraseChars n, CEraseChars m => Nat.eqb n m
  | CImage i r c, CImage j r' c' => N.eqb i j && Nat.eqb r r' && Nat.eqb c c'
  | CImageErase i None, CImageErase j None => N.eqb i j
  | CImageErase i (Some (r, c)), CImageErase j (Some (r', c')) => N.eqb i j && Nat.eqb r r' && Nat.eqb c c'
  | CSync a, CSync b => Bool.eqb a b
  | COther, COther => true
  | _, _ => false
  end.

(* the drawn surfaces with the terminal size at the time; resize screens must have the new size *)
Fixpoint sized_surfaces (h w : nat) (ops : list op) : list (nat * nat * grid cell) :=
  match ops with
  | [] => []
  | Draw g :: ops' => (h, w, g) :: sized_surfaces h w ops'
  | Resize h' w' _ :: ops' => sized_surfaces h' w' ops'
  | _ :: ops' => sized_surfaces h w ops'
  end.
Definition resizes_ok (ops : list op) : bool :=
  forallb (fun x => match x with Resize h w g => grid_dims g h w | _ => true end) ops.

(* a history with an aborted frame (frame() returned Err) is outside the theorems and outside the exact
   predicate (images placed by the aborted frame may stay); it is judged by resume_run alone *)
Definition has_fail (ops : list op) : bool :=
  existsb (fun x => match x with FailFrame _ => true | _ => false end) ops.

Definition c01_check (k : c01_case) : bool * bool :=
  match k with
  | Hist hN wN widths isizes fsp fer ers ops impl oii owi oww =>
      let h := N.to_nat hN in
      let w := N.to_nat wN in
      let o := mk_oracle widths isizes fsp fer ers in
      let surfs := sized_surfaces h w ops in
      let dom := forallb (fun '(h, w, g) => in_domain o h w g) surfs && resizes_ok ops in
      let ovl := negb (forallb (fun '(h, w, g) => overlap_free o h w g) surfs) in
      let kinds := map (fun '(h, w, g) => overlap_kinds o h w g) surfs in
      let any := fun (sel : bool * bool * bool -> bool) => dom && existsb sel kinds in
      ( list_eqb (list_eqb cmd_eqb) (rrun o (rnew h w false) ops) impl
        (* the harness's class tags are the Coq-side classes, and together they are exactly Overlap *)
        && Bool.eqb oii (any (fun k => fst (fst k)))
        && Bool.eqb owi (any (fun k => snd (fst k)))
        && Bool.eqb oww (any (fun k => snd k))
        && Bool.eqb (oii || owi || oww) (dom && ovl)
        (* the classes cut to their extent: judged again after the next forced repaint (C01_history_resumes) *)
        && (negb dom || resume_run o h w (blank_screen h w) (gmake h w cell_default) (Some []) ops impl),
        (* outside the property's domain (zero-width characters, a wide character in the
           last column, empty images) only the agreement of model and code is checked *)
        (negb dom
         || (if has_fail ops
             then resume_run o h w (blank_screen h w) (gmake h w cell_default) (Some []) ops impl
             else spec_run o h w (blank_screen h w) (gmake h w cell_default) ops impl))
        (* and, whatever is drawn: a frame that repeats the previous one issues nothing (C01_idle_frame) *)
        && idle_ok o h w (Some (gmake h w cell_default)) (gmake h w cell_default) ops impl )
  | Forced hN wN widths isizes fsp fer ers g foreign s impl good =>
      let h := N.to_nat hN in
      let w := N.to_nat wN in
      let o := mk_oracle widths isizes fsp fer ers in
      let fp := map (fun '(i, r, c) => (i, N.to_nat r, N.to_nat c)) foreign in
      let isgood := in_domain o h w s && no_image_overlap o h w s && grid_dims g h w in
      ( list_eqb cmd_eqb (fst (frame o (rdraw (rnew h w true) s))) impl && Bool.eqb good isgood,
        (* C01_forced on the implementation's commands: every cell as repainted from scratch, whatever
           the terminal showed; placements = the foreign ones and the drawn ones *)
        negb isgood
        || (let scr' := exec_list o (mkscreen h w g fp (0, 0) face_default false) impl in
            let sh := show o h w s in
            sgrid_eqb (sgrid scr') (sgrid sh) && negb (err scr')
            && places_eqb (places scr') (fp ++ places sh)) )
  | FHist hN wN widths isizes fsp fer ers g foreign ops impl =>
      let h := N.to_nat hN in
      let w := N.to_nat wN in
      let o := mk_oracle widths isizes fsp fer ers in
      let fp := map (fun '(i, r, c) => (i, N.to_nat r, N.to_nat c)) foreign in
      let dom := forallb (fun '(h, w, g) => in_domain o h w g) (sized_surfaces h w ops) && resizes_ok ops
                 && grid_dims g h w in
      ( list_eqb (list_eqb cmd_eqb) (rrun o (rnew h w true) ops) impl,
        (* C01_forced_history on the implementation's commands: every frame that is judged (Spec.resume_run) shows
           its surface, and the terminal places nothing besides it and what it placed at the start *)
        negb dom
        || resume_run o h w (mkscreen h w g fp (0, 0) face_default false) (gmake h w cell_default) (Some fp) ops impl )
  | Loop hN wN widths isizes fsp fer ers its impl good stale =>
      let h := N.to_nat hN in
      let w := N.to_nat wN in
      let o := mk_oracle widths isizes fsp fer ers in
      let isgood := forallb (fun it => in_domain o h w (it_draw it) && no_image_overlap o h w (it_draw it)) its in
      let '(ok, st) := loop_spec o h w true (blank_screen h w) [] [] (gmake h w cell_default) its impl in
      ( list_eqb (fun a b => Bool.eqb (fst a) (fst b) && list_eqb cmd_eqb (snd a) (snd b))
                 (loop_model o (rnew h w false) 0 its) impl
        && Bool.eqb good isgood && Bool.eqb stale (isgood && st)
        (* every delivery is judged, tolerating only the placements of the last stale drop (C01_render_loop) *)
        && (negb isgood
            || fst (loop_spec o h w false (blank_screen h w) [] [] (gmake h w cell_default) its impl)),
        (* every delivered frame is displayed exactly (C01_render_loop_exact on the implementation's commands) *)
        negb isgood || ok )
  end.

Definition c01_report := report c01_check.
