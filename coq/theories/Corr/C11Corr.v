(* Correspondence for C11: cases produced by the Rust harness carry, per call
   on one KittyImageHandler, the bytes the implementation wrote and what it
   returned.  First component: the model (Image/Kitty.v) writes the same bytes.
   Second component: the property predicate (Image/KittySpec.v: independent
   parser + terminal-side store, written from the protocol document) holds of
   the IMPLEMENTATION's bytes. *)
From Coq Require Import List NArith Bool.
From SNT Require Import Base.Report Surface.Shape Image.Kitty Image.KittySpec Image.Fnv Image.Handlers.
Import ListNotations.
Local Open Scope N_scope.

Inductive c11_op :=
| CDraw (k : nat) (pos : N * N)                 (* draw(images[k], pos) *)
| CErase (k : nat) (pos : option (N * N))       (* erase(images[k], pos) *)
| CResp (id : N) (pl : option N) (err : bool) (lost : bool)
    (* handle(KittyImage { id, placement, error }); lost: the terminal side is taken to have lost the image *)
| COther.                                       (* handle(some other event) *)

(* image as the implementation holds it (backing data, shape), the value of Surface::hash,
   and the index of its content in the case's content table *)
Definition c11_img : Type := (image * N * nat)%type.

Inductive c11_case :=
| Case (quiet : bool) (imgs : list c11_img) (contents : list content)
       (ops : list c11_op) (impl : list (list N * N))
    (* a history on one KittyImageHandler, called directly or through Box<dyn ImageHandler> *)
| CaseDummy (imgs : list c11_img) (ops : list c11_op) (impl : list (list N * N))
    (* the same calls on a DummyImageHandler *)
| CaseKind (s : list N) (impl : option N)
    (* s.parse::<ImageHandlerKind>(): Some 0 / 1 / 2 = Kitty / Sixel / Dummy, None = Err *)
| CaseKindOf (dummy : bool) (impl : N).
    (* ImageHandler::kind() of a KittyImageHandler / DummyImageHandler (boxed or not) *)

Definition dummy_img : c11_img := (mkImage [] zero_shape, 0, O).

Definition model_op (imgs : list c11_img) (o : c11_op) : op :=
  match o with
  | CDraw k pos => let '(im, h, _) := nth k imgs dummy_img in OpDraw im h pos
  | CErase k pos => let '(im, h, _) := nth k imgs dummy_img in OpErase im h pos
  | CResp id pl err _ => OpEvent (EvKitty id pl err)
  | COther => OpEvent EvOther
  end.

Definition spec_op (imgs : list c11_img) (o : c11_op) : sop :=
  match o with
  | CDraw k pos => SDraw (snd (nth k imgs dummy_img)) pos
  | CErase k pos => SErase (snd (nth k imgs dummy_img)) pos
  | CResp id pl err lost => SResp id pl err lost
  | COther => SOther
  end.

Definition out_eqb (a b : list N * N) : bool := nlist_eqb (fst a) (fst b) && (snd a =? snd b).

Definition c11_model (c : c11_case) : list (list N * N) :=
  match c with
  | Case quiet imgs _ ops _ => run (kitty_new quiet) (map (model_op imgs) ops)
  | CaseDummy imgs ops _ => dummy_run (map (model_op imgs) ops)
  | _ => []
  end.

(* reason code of the property predicate on the implementation's output (0 = holds) *)
Definition c11_code (c : c11_case) : N :=
  match c with
  | Case _ imgs contents ops impl => check_history contents track0 (map (spec_op imgs) ops) impl
  | CaseDummy _ ops impl =>
      (* "image handler which ignores requests": every call returns normally and writes nothing *)
      if Nat.eqb (length impl) (length ops) &&
         forallb (fun o => match fst o with [] => snd o =? 0 | _ => false end) impl then 0 else 300
  | CaseKind s impl =>
      (* the three documented names, in any letter case, and nothing else *)
      let lower := map (fun c => if (65 <=? c) && (c <=? 90) then c + 32 else c) s in
      let want := if nlist_eqb lower [107; 105; 116; 116; 121] then Some 0
                  else if nlist_eqb lower [115; 105; 120; 101; 108] then Some 1
                  else if nlist_eqb lower [100; 117; 109; 109; 121] then Some 2 else None in
      match want, impl with
      | Some a, Some b => if a =? b then 0 else 301
      | None, None => 0
      | _, _ => 301
      end
  | CaseKindOf dummy impl => if impl =? (if dummy then 2 else 0) then 0 else 302
  end.

(* the content hash the crate computed for every image is the one the model of Surface::hash computes *)
Definition hashes_agree (imgs : list c11_img) : bool :=
  forallb (fun e : c11_img => let '(im, h, _) := e in surface_hash im =? h) imgs.

Definition c11_check (c : c11_case) : bool * bool :=
  match c with
  | Case _ imgs _ _ impl =>
      (list_eqb out_eqb (c11_model c) impl && hashes_agree imgs, c11_code c =? 0)
  | CaseDummy _ _ impl => (list_eqb out_eqb (c11_model c) impl, c11_code c =? 0)
  | CaseKind s impl =>
      (match option_map hkind_code (kind_of_bytes s), impl with
       | Some a, Some b => a =? b
       | None, None => true
       | _, _ => false
       end, c11_code c =? 0)
  | CaseKindOf dummy impl => (hkind_code (kind_of_handler dummy) =? impl, c11_code c =? 0)
  end.

Definition c11_report := report c11_check.
