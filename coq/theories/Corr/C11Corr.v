(* Correspondence for C11: cases produced by the Rust harness carry, per call
   on one KittyImageHandler, the bytes the implementation wrote and what it
   returned.  First component: the model (Image/Kitty.v) writes the same bytes.
   Second component: the property predicate (Image/KittySpec.v: independent
   parser + terminal-side store, written from the protocol document) holds of
   the IMPLEMENTATION's bytes. *)
From Coq Require Import List NArith Bool.
From SNT Require Import Base.Report Surface.Shape Image.Kitty Image.KittySpec Image.Fnv Image.Handlers.
Import ListNotations.
Local Open Scope N_scope.

Inductive c11_op :=
| CDraw (k : nat) (pos : N * N)                 (* draw(images[k], pos) *)
| CErase (k : nat) (pos : option (N * N))       (* erase(images[k], pos) *)
| CResp (id : N) (pl : option N) (err : bool) (lost : bool)
    (* handle(KittyImage { id, placement, error }); lost: the terminal side is taken to have lost the image *)
| COther.                                       (* handle(some other event) *)

(* calls whose sink may fail: budget = Some b: the writer accepts b bytes in all, then every write is an error *)
Inductive c11_fop :=
| FDraw (k : nat) (pos : N * N) (budget : option N)
| FErase (k : nat) (pos : option (N * N)).

(* image as the implementation holds it (backing data, shape), the value of Surface::hash,
   and the index of its content in the case's content table *)
Definition c11_img : Type := (image * N * nat)%type.

Inductive c11_case :=
| Case (quiet : bool) (imgs : list c11_img) (contents : list content)
       (ops : list c11_op) (impl : list (list N * N))
    (* a history on one KittyImageHandler, called directly or through Box<dyn ImageHandler> *)
| CaseDummy (imgs : list c11_img) (ops : list c11_op) (impl : list (list N * N))
    (* the same calls on a DummyImageHandler *)
| CaseFail (quiet : bool) (imgs : list c11_img) (contents : list content)
           (ops : list c11_fop) (impl : list (list N * N))
    (* draw / erase calls of which some draws write into a sink that accepts `budget` bytes and then fails *)
| CaseKind (s : list N) (impl : option N)
    (* s.parse::<ImageHandlerKind>(): Some 0 / 1 / 2 = Kitty / Sixel / Dummy, None = Err *)
| CaseKindOf (dummy : bool) (impl : N).
    (* ImageHandler::kind() of a KittyImageHandler / DummyImageHandler (boxed or not) *)

Definition dummy_img : c11_img := (mkImage [] zero_shape, 0, O).

Definition model_op (imgs : list c11_img) (o : c11_op) : op :=
  match o with
  | CDraw k pos => let '(im, h, _) := nth k imgs dummy_img in OpDraw im h pos
  | CErase k pos => let '(im, h, _) := nth k imgs dummy_img in OpErase im h pos
  | CResp id pl err _ => OpEvent (EvKitty id pl err)
  | COther => OpEvent EvOther
  end.

Definition spec_op (imgs : list c11_img) (o : c11_op) : sop :=
  match o with
  | CDraw k pos => SDraw (snd (nth k imgs dummy_img)) pos
  | CErase k pos => SErase (snd (nth k imgs dummy_img)) pos
  | CResp id pl err lost => SResp id pl err lost
  | COther => SOther
  end.

(* ---------- sinks that fail ----------
   Model: draw writes its bytes front to back through write_all; a sink with budget b takes the first b of
   them and the call returns the error (2).  The image is filed as transmitted only after the last chunk
   has been written: when the sink gave out during the transmission the handler does not count the
   image as transmitted (the id stays assigned) *)
Definition model_fstep (imgs : list c11_img) (st : kitty) (o : c11_fop) : (list N * N) * kitty :=
  match o with
  | FErase k pos => let '(im, h, _) := nth k imgs dummy_img in step st (OpErase im h pos)
  | FDraw k pos budget =>
      let '(im, h, _) := nth k imgs dummy_img in
      let '(bytes, st') := draw st im h pos in
      match budget with
      | None => ((bytes, 0), st')
      | Some b =>
          if N.of_nat (length bytes) <=? b then ((bytes, 0), st')
          else
            let id := image_id st h in
            let q := match k_suppress st with Some x => x | None => 0 end in
            let place_len := length (gfx (kvs_put id (placement_id pos) q) true []) in
            let tx_len := N.of_nat (length bytes - place_len) in
            let was_cached := match lookup id (k_imgs st) with Some _ => true | None => false end in
            ((firstn (N.to_nat b) bytes, 2),
             if was_cached || (tx_len <=? b) then st' else mkKitty (k_imgs st) (k_ids st') (k_suppress st))
      end
  end.

Fixpoint model_frun (imgs : list c11_img) (st : kitty) (ops : list c11_fop) : list (list N * N) :=
  match ops with
  | [] => []
  | o :: r => let '(out, st') := model_fstep imgs st o in out :: model_frun imgs st' r
  end.

(* Terminal side: what a terminal makes of a stream that breaks off: the complete commands (up to the last
   ESC \) are read, the rest is lost, and a chunked transmission left open is discarded *)
Fixpoint last_complete (l : list N) (pos best : nat) : nat :=
  match l with
  | a :: r =>
      match r with
      | b :: _ => if (a =? 27) && (b =? 92) then last_complete r (S pos) (pos + 2)%nat else last_complete r (S pos) best
      | [] => best
      end
  | [] => best
  end.
Definition complete_part (l : list N) : list N := firstn (last_complete l 0 0) l.
Definition abort_pending (s : tstore) : tstore :=
  mkStore (t_images s) (t_places s) None (t_cursor s) (t_saved s) (t_sent s) (t_errs s).

Definition last_put_id (its : list item) : option N :=
  match rev its with
  | IGfx kvs _ :: _ =>
      match kv_chr k_a kvs 116, kv_num k_i kvs 0 with
      | Some 112, Some i => Some i
      | _, _ => None
      end
  | _ => None
  end.

(* predicate over such a history, from the terminal's side: a call whose sink held returns Ok, and a draw
   then leaves a placement of an image the terminal holds with exactly the pixels and size of the content
   drawn; a call whose sink gave out returns the error and has written no more than the sink took; the
   terminal never sees a protocol error (in particular no placement of an image it was never sent in full) *)
Fixpoint check_fail (contents : list content) (cids : list nat) (s : tstore) (ops : list c11_fop)
         (impl : list (list N * N)) : N :=
  match ops, impl with
  | [], [] => 0
  | o :: ops', (bytes, ret) :: impl' =>
      match o with
      | FErase _ _ =>
          match parse_stream bytes with
          | None => 401
          | Some its =>
              let s' := store_run (clear_log s) its in
              if negb (ret =? 0) then 402
              else match t_errs s', t_pending s' with
                   | [], None => check_fail contents cids s' ops' impl'
                   | _, _ => 403
                   end
          end
      | FDraw k _ budget =>
          let within := match budget with Some b => N.of_nat (length bytes) <=? b | None => true end in
          if negb within then 404
          else if ret =? 0 then
            match parse_stream bytes with
            | None => 405
            | Some its =>
                let s' := store_run (clear_log s) its in
                match t_errs s', t_pending s' with
                | [], None =>
                    match nth_error contents (nth k cids O) with
                    | None => 406
                    | Some c =>
                        if (c_w c =? 0) || (c_h c =? 0) then
                          match bytes with [] => check_fail contents cids s' ops' impl' | _ => 407 end
                        else
                          match last_put_id its with
                          | None => 408
                          | Some i =>
                              match img_lookup i (t_images s') with
                              | Some ti => if timage_eqb ti c then check_fail contents cids s' ops' impl' else 409
                              | None => 410
                              end
                          end
                    end
                | _, _ => 411
                end
            end
          else if ret =? 2 then
            match budget, parse_stream (complete_part bytes) with
            | Some _, Some its =>
                let s' := abort_pending (store_run (clear_log s) its) in
                match t_errs s' with
                | [] => check_fail contents cids s' ops' impl'
                | _ => 412
                end
            | _, _ => 413
            end
          else 414
      end
  | _, _ => 415
  end.

Definition out_eqb (a b : list N * N) : bool := nlist_eqb (fst a) (fst b) && (snd a =? snd b).

Definition c11_model (c : c11_case) : list (list N * N) :=
  match c with
  | Case quiet imgs _ ops _ => run (kitty_new quiet) (map (model_op imgs) ops)
  | CaseDummy imgs ops _ => dummy_run (map (model_op imgs) ops)
  | CaseFail quiet imgs _ ops _ => model_frun imgs (kitty_new quiet) ops
  | _ => []
  end.

(* reason code of the property predicate on the implementation's output (0 = holds) *)
Definition c11_code (c : c11_case) : N :=
  match c with
  | Case _ imgs contents ops impl => check_history contents track0 (map (spec_op imgs) ops) impl
  | CaseFail _ imgs contents ops impl => check_fail contents (map snd imgs) store0 ops impl
  | CaseDummy _ ops impl =>
      (* "image handler which ignores requests": every call returns normally and writes nothing *)
      if Nat.eqb (length impl) (length ops) &&
         forallb (fun o => match fst o with [] => snd o =? 0 | _ => false end) impl then 0 else 300
  | CaseKind s impl =>
      (* the three documented names, in any letter case, and nothing else *)
      let lower := map (fun c => if (65 <=? c) && (c <=? 90) then c + 32 else c) s in
      let want := if nlist_eqb lower [107; 105; 116; 116; 121] then Some 0
                  else if nlist_eqb lower [115; 105; 120; 101; 108] then Some 1
                  else if nlist_eqb lower [100; 117; 109; 109; 121] then Some 2 else None in
      match want, impl with
      | Some a, Some b => if a =? b then 0 else 301
      | None, None => 0
      | _, _ => 301
      end
  | CaseKindOf dummy impl => if impl =? (if dummy then 2 else 0) then 0 else 302
  end.

(* the content hash the crate computed for every image is the one the model of Surface::hash computes *)
Definition hashes_agree (imgs : list c11_img) : bool :=
  forallb (fun e : c11_img => let '(im, h, _) := e in surface_hash im =? h) imgs.

Definition c11_check (c : c11_case) : bool * bool :=
  match c with
  | Case _ imgs _ _ impl =>
      (list_eqb out_eqb (c11_model c) impl && hashes_agree imgs, c11_code c =? 0)
  | CaseFail _ imgs _ _ impl =>
      (list_eqb out_eqb (c11_model c) impl && hashes_agree imgs, c11_code c =? 0)
  | CaseDummy _ _ impl => (list_eqb out_eqb (c11_model c) impl, c11_code c =? 0)
  | CaseKind s impl =>
      (match option_map hkind_code (kind_of_bytes s), impl with
       | Some a, Some b => a =? b
       | None, None => true
       | _, _ => false
       end, c11_code c =? 0)
  | CaseKindOf dummy impl => (hkind_code (kind_of_handler dummy) =? impl, c11_code c =? 0)
  end.

Definition c11_report := report c11_check.
