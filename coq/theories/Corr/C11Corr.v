(* Correspondence for C11: cases produced by the Rust harness carry, per call
   on one KittyImageHandler, the bytes the implementation wrote and what it
   returned.  First component: the model (Image/Kitty.v) writes the same bytes.
   Second component: the property predicate (Image/KittySpec.v: independent
   parser + terminal-side store, written from the protocol document) holds of
   the IMPLEMENTATION's bytes. *)
From Coq Require Import List NArith Bool.
From SNT Require Import Base.Report Surface.Shape Image.Kitty Image.KittySpec.
Import ListNotations.
Local Open Scope N_scope.

Inductive c11_op :=
| CDraw (k : nat) (pos : N * N)                 (* draw(images[k], pos) *)
| CErase (k : nat) (pos : option (N * N))       (* erase(images[k], pos) *)
| CResp (id : N) (pl : option N) (err : bool)   (* handle(KittyImage { id, placement, error }) *)
| COther.                                       (* handle(some other event) *)

(* image as the implementation holds it (backing data, shape), the value of Surface::hash,
   and the index of its content in the case's content table *)
Definition c11_img : Type := (image * N * nat)%type.

Inductive c11_case :=
  Case (quiet : bool) (imgs : list c11_img) (contents : list content)
       (ops : list c11_op) (impl : list (list N * N)).

Definition dummy_img : c11_img := (mkImage [] zero_shape, 0, O).

Definition model_op (imgs : list c11_img) (o : c11_op) : op :=
  match o with
  | CDraw k pos => let '(im, h, _) := nth k imgs dummy_img in OpDraw im h pos
  | CErase k pos => let '(im, h, _) := nth k imgs dummy_img in OpErase im h pos
  | CResp id pl err => OpEvent (EvKitty id pl err)
  | COther => OpEvent EvOther
  end.

Definition spec_op (imgs : list c11_img) (o : c11_op) : sop :=
  match o with
  | CDraw k pos => SDraw (snd (nth k imgs dummy_img)) pos
  | CErase k pos => SErase (snd (nth k imgs dummy_img)) pos
  | CResp id pl err => SResp id pl err
  | COther => SOther
  end.

Definition out_eqb (a b : list N * N) : bool := nlist_eqb (fst a) (fst b) && (snd a =? snd b).

Definition c11_model (c : c11_case) : list (list N * N) :=
  match c with
  | Case quiet imgs _ ops _ => run (kitty_new quiet) (map (model_op imgs) ops)
  end.

(* reason code of the property predicate on the implementation's output (0 = holds) *)
Definition c11_code (c : c11_case) : N :=
  match c with
  | Case _ imgs contents ops impl => check_history contents track0 (map (spec_op imgs) ops) impl
  end.

Definition c11_check (c : c11_case) : bool * bool :=
  match c with
  | Case _ _ _ _ impl => (list_eqb out_eqb (c11_model c) impl, c11_code c =? 0)
  end.

Definition c11_report := report c11_check.
