(* Correspondence for C07: a chain of view/transpose operations on an H x W
   surface whose backing vector is [1; 2; ...; H*W], then a fixed battery of
   observations.  The model side evaluates the Shape arithmetic of
   Surface/Shape.v; the property side evaluates plain-matrix window semantics. *)
From Coq Require Import List NArith ZArith Arith Bool.
From SNT Require Export Base.Report Surface.Bounds Surface.Shape.
Import ListNotations.

Definition enc_opt (o : option N) : N := match o with None => 0%N | Some x => (x + 1)%N end.
Definition nn (n : nat) : N := N.of_nat n.

Definition init_data (H W : nat) : list N := map (fun i => nn (S i)) (seq 0 (H * W)).
Definition fw_fun (r c : nat) (v : N) : N := (v + 1000 * nn (S r) + 100000 * nn (S c))%N.
Definition FILLV : N := 7777%N.

Definition all_gets (h w : nat) : list (nat * nat) := positions (S h) (S w).

Definition flat (o : option (list N)) : list N :=
  match o with Some l => 1%N :: l | None => [0%N] end.   (* leading 0 = panicked *)

(* what the implementation is asked for, computed with the model of Shape *)
Record obs := mkObs {
  o_shape : list N; o_empty : bool; o_iter : list N; o_gets : list N; o_muts : list N;
  o_fill : list N; o_fillwith : list N; o_insert : list N; o_map : list N }.

Definition model_obs (H W : nat) (ops : list vop) (ir ic : nat) (items : list N) : obs :=
  let data := init_data H W in
  let sh := apply_chain (of_size H W) ops in
  {| o_shape := map nn [sh_start sh; sh_end sh; sh_width sh; sh_height sh; sh_rstride sh; sh_cstride sh];
     o_empty := is_empty sh;
     o_iter := iter sh data;
     o_gets := map (fun p => enc_opt (get sh data (fst p) (snd p))) (all_gets (sh_height sh) (sh_width sh));
     o_muts := map nn (mut_offsets sh (length data));
     o_fill := flat (fill sh data FILLV);
     o_fillwith := flat (fill_with sh data fw_fun);
     o_insert := flat (insert sh data ir ic items);
     o_map := flat (map_surf sh data fw_fun) |}.

(* the same observations computed from the window a plain matrix would give *)
Definition win_cells (W : nat) (w : window) : list nat :=
  map (fun p => root_index W (win_coord w (fst p) (snd p))) (positions (w_h w) (w_w w)).

Definition nth_default_N (l : list N) (k : nat) : N := nth k l 0%N.

(* replace root cell k by g (index in window order, old value) *)
Fixpoint overwrite (data : list N) (cells : list nat) (vals : list N) : list N :=
  match cells, vals with
  | k :: cs, v :: vs =>
      overwrite (firstn k data ++ v :: skipn (S k) data) cs vs
  | _, _ => data
  end.

Definition spec_obs (H W : nat) (ops : list vop) (ir ic : nat) (items : list N)
  : (nat * nat) * bool * list N * list N * list N * list N * list N * list N * list N :=
  let data := init_data H W in
  let w := win_chain (win_root H W) ops in
  let cells := win_cells W w in
  let ps := positions (w_h w) (w_w w) in
  let vals := map (nth_default_N data) cells in
  ((w_h w, w_w w),
   ((w_h w =? 0) || (w_w w =? 0)),
   vals,
   map (fun p => if (fst p <? w_h w) && (snd p <? w_w w)
                 then (nth_default_N data (root_index W (win_coord w (fst p) (snd p))) + 1)%N else 0%N)
       (all_gets (w_h w) (w_w w)),
   map nn cells,
   1%N :: overwrite data cells (map (fun _ => FILLV) cells),
   1%N :: overwrite data cells (map (fun p => fw_fun (fst p) (snd p)
                                      (nth_default_N data (root_index W (win_coord w (fst p) (snd p))))) ps),
   1%N :: overwrite data (skipn (ir * w_w w + ic) cells) items,
   1%N :: map (fun p => fw_fun (fst p) (snd p)
                    (nth_default_N data (root_index W (win_coord w (fst p) (snd p))))) ps).

Inductive c07_case :=
| S07 (H W : nat) (ops : list vop) (ir ic : nat) (items : list N)
      (shape : list N) (empty : bool) (it gets muts fil filw ins mp : list N).

Definition c07_check (c : c07_case) : bool * bool :=
  match c with
  | S07 H W ops ir ic items shape empty it gets muts fil filw ins mp =>
      let m := model_obs H W ops ir ic items in
      let '(dims, sempty, sit, sgets, smuts, sfil, sfilw, sins, smp) := spec_obs H W ops ir ic items in
      ( nlist_eqb (o_shape m) shape && Bool.eqb (o_empty m) empty && nlist_eqb (o_iter m) it
        && nlist_eqb (o_gets m) gets && nlist_eqb (o_muts m) muts && nlist_eqb (o_fill m) fil
        && nlist_eqb (o_fillwith m) filw && nlist_eqb (o_insert m) ins && nlist_eqb (o_map m) mp,
        (* property: dimensions, emptiness, reads, iteration, handed-out offsets and every
           mutation agree with the window of a plain matrix; no operation panicked *)
        nlist_eqb [nth 3 shape 0%N; nth 2 shape 0%N] [nn (fst dims); nn (snd dims)]
        && Bool.eqb sempty empty && nlist_eqb sit it && nlist_eqb sgets gets && nlist_eqb smuts muts
        && nlist_eqb sfil fil && nlist_eqb sfilw filw && nlist_eqb sins ins && nlist_eqb smp mp )
  end.

Definition c07_report := report c07_check.
