(* Correspondence for C07: a chain of view/transpose operations on an H x W
   surface whose backing vector is [1; 2; ...; H*W], then a fixed battery of
   observations.  The model side evaluates the Shape arithmetic of
   Surface/Shape.v; the property side evaluates plain-matrix window semantics. *)
From Coq Require Import List NArith ZArith Arith Bool.
From SNT Require Export Base.Report Surface.Bounds Surface.Shape.
Import ListNotations.

Definition enc_opt (o : option N) : N := match o with None => 0%N | Some x => (x + 1)%N end.
Definition nn (n : nat) : N := N.of_nat n.

Definition init_data (H W : nat) : list N := map (fun i => nn (S i)) (seq 0 (H * W)).
Definition fw_fun (r c : nat) (v : N) : N := (v + 1000 * nn (S r) + 100000 * nn (S c))%N.
Definition FILLV : N := 7777%N.

Definition all_gets (h w : nat) : list (nat * nat) := positions (S h) (S w).

Definition flat (o : option (list N)) : list N :=
  match o with Some l => 1%N :: l | None => [0%N] end.   (* leading 0 = panicked *)

(* ---------- iterator programs: one iterator driven through a sequence of calls ----------
   INth j = it.nth(j) (also it.by_ref().skip(j).next(), which std maps to nth(j)); INext = it.next();
   ITake j = it.by_ref().take(j) collected; IPos = it.position(); IIdx = it.index();
   IWith = it.with_position() (from then on items come with their position; position()/index()/nth are
   not asked any more); IRest = everything that is left.  The interpreter is parameterised by what the
   iterator yields at index k and which position it reports there: instantiated with the model of
   SurfaceIter / SurfaceMutIter on one side and with the plain-matrix window on the other. *)
Inductive istep := INth (j : nat) | INext | ITake (j : nat) | IPos | IIdx | IWith | IRest.

Section IterProg.
  Variables (item_at : nat -> option N) (pos_at : nat -> nat * nat) (total : nat).

  (* up to `fuel` calls of next(): new index, number of items, what was yielded (flattened) *)
  Fixpoint take_run (wp : bool) (fuel idx : nat) : nat * nat * list N :=
    match fuel with
    | O => (idx, O, [])
    | S f =>
        match item_at idx with
        | None => (S idx, O, [])
        | Some x =>
            let '(i', n, l) := take_run wp f (S idx) in
            (i', S n, (if wp then [N.of_nat (fst (pos_at idx)); N.of_nat (snd (pos_at idx)); x] else [x]) ++ l)
        end
    end.

  Fixpoint run_prog (prog : list istep) (idx : nat) (wp : bool) : list N :=
    match prog with
    | [] => []
    | INth j :: r =>
        if wp then run_prog r idx wp
        else enc_opt (item_at (idx + j)) :: run_prog r (S (idx + j)) wp
    | INext :: r =>
        (if wp then match item_at idx with
                    | Some x => [1%N; N.of_nat (fst (pos_at idx)); N.of_nat (snd (pos_at idx)); x]
                    | None => [0%N]
                    end
         else [enc_opt (item_at idx)]) ++ run_prog r (S idx) wp
    | ITake j :: r =>
        if wp then run_prog r idx wp
        else let '(i', n, l) := take_run false j idx in N.of_nat n :: l ++ run_prog r i' wp
    | IPos :: r =>
        if wp then run_prog r idx wp
        else N.of_nat (fst (pos_at idx)) :: N.of_nat (snd (pos_at idx)) :: run_prog r idx wp
    | IIdx :: r => if wp then run_prog r idx wp else N.of_nat idx :: run_prog r idx wp
    | IWith :: r => run_prog r idx true
    | IRest :: r =>
        let '(i', n, l) := take_run wp (S total) idx in N.of_nat n :: l ++ run_prog r i' wp
    end.
End IterProg.

(* what the implementation is asked for, computed with the model of Shape *)
Record obs := mkObs {
  o_shape : list N; o_empty : bool; o_iter : list N; o_gets : list N; o_muts : list N;
  o_fill : list N; o_fillwith : list N; o_insert : list N; o_map : list N;
  o_clear : list N; o_getm : list N; o_set : list N; o_nth : list N; o_wpos : list N;
  o_prog : list N; o_progm : list N }.

Definition SETV : N := 4242%N.

Definition model_obs (H W : nat) (ops : list vop) (ir ic : N) (items : list N) (nk : nat) (prog : list istep) : obs :=
  let data := init_data H W in
  let sh := apply_chain (of_size H W) ops in
  {| o_shape := map nn [sh_start sh; sh_end sh; sh_width sh; sh_height sh; sh_rstride sh; sh_cstride sh];
     o_empty := is_empty sh;
     o_iter := iter sh data;
     o_gets := map (fun p => enc_opt (get sh data (fst p) (snd p))) (all_gets (sh_height sh) (sh_width sh));
     o_muts := map nn (mut_offsets sh (length data));
     o_fill := flat (fill sh data FILLV);
     o_fillwith := flat (fill_with sh data fw_fun);
     o_insert := flat (insert_at sh data ir ic items);
     o_map := flat (map_surf sh data fw_fun);
     o_clear := flat (clear 0%N sh data);
     o_getm := map (fun p => enc_opt (get_mut sh data (fst p) (snd p))) (all_gets (sh_height sh) (sh_width sh));
     o_set := match (if (ir <? nn (sh_height sh))%N && (ic <? nn (sh_width sh))%N
                     then set_at sh data (N.to_nat ir) (N.to_nat ic) SETV else None) with
              | Some (old, d) => 1%N :: old :: d
              | None => [0%N]
              end;
     (* it = iter(); a = it.nth(nk); p = it.position(); b = it.next() *)
     o_nth := [enc_opt (iter_at sh data nk); nn (fst (iter_position sh (S nk))); nn (snd (iter_position sh (S nk)));
               enc_opt (iter_at sh data (S nk))];
     o_wpos := flat_map (fun e => let '(r, c, v) := e in [nn r; nn c; v]) (pos_iter sh data);
     (* the program on iter(): items are the values read; on iter_mut(): items are the offsets of the
        references handed out, + 1 (the backing vector is [1; 2; ..], so both read the same numbers) *)
     o_prog := run_prog (iter_at sh data) (iter_position sh) (sh_height sh * sh_width sh) prog 0 false;
     o_progm := run_prog (fun k => option_map (fun o => nn (S o)) (mut_at sh (length data) k)) (iter_position sh)
                         (sh_height sh * sh_width sh) prog 0 false |}.

(* the same observations computed from the window a plain matrix would give *)
Definition win_cells (W : nat) (w : window) : list nat :=
  map (fun p => root_index W (win_coord w (fst p) (snd p))) (positions (w_h w) (w_w w)).

Definition nth_default_N (l : list N) (k : nat) : N := nth k l 0%N.

(* replace root cell k by g (index in window order, old value) *)
Fixpoint overwrite (data : list N) (cells : list nat) (vals : list N) : list N :=
  match cells, vals with
  | k :: cs, v :: vs =>
      overwrite (firstn k data ++ v :: skipn (S k) data) cs vs
  | _, _ => data
  end.

Record sobs := mkSobs {
  s_dims : nat * nat; s_empty : bool; s_iter : list N; s_gets : list N; s_muts : list N; s_fill : list N;
  s_fillwith : list N; s_insert : list N; s_map : list N; s_clear : list N; s_set : list N;
  s_nth : list N; s_wpos : list N; s_prog : list N }.

Definition spec_obs (H W : nat) (ops : list vop) (ir ic : N) (items : list N) (nk : nat) (prog : list istep) : sobs :=
  let data := init_data H W in
  let w := win_chain (win_root H W) ops in
  let cells := win_cells W w in
  let ps := positions (w_h w) (w_w w) in
  let vals := map (nth_default_N data) cells in
  let total := w_h w * w_w w in
  let at_k := fun k => if k <? total then (nth_default_N vals k + 1)%N else 0%N in
  let index := (ir * nn (w_w w) + ic)%N in
  {| s_dims := (w_h w, w_w w);
     s_empty := (w_h w =? 0) || (w_w w =? 0);
     s_iter := vals;
     s_gets := map (fun p => if (fst p <? w_h w) && (snd p <? w_w w)
                   then (nth_default_N data (root_index W (win_coord w (fst p) (snd p))) + 1)%N else 0%N)
                 (all_gets (w_h w) (w_w w));
     s_muts := map nn cells;
     s_fill := 1%N :: overwrite data cells (map (fun _ => FILLV) cells);
     s_fillwith := 1%N :: overwrite data cells (map (fun p => fw_fun (fst p) (snd p)
                                      (nth_default_N data (root_index W (win_coord w (fst p) (snd p))))) ps);
     (* insert: the items land on the window cells from row-major index `index` on.  A position whose
        index does not fit usize (or is usize::MAX) is not a position of any window: there the window
        semantics only demand the frame condition, checked by insert_ok below *)
     s_insert := if (nn (length cells) <=? index)%N then 1%N :: data
                 else 1%N :: overwrite data (skipn (N.to_nat index) cells) items;
     s_map := 1%N :: map (fun p => fw_fun (fst p) (snd p)
                    (nth_default_N data (root_index W (win_coord w (fst p) (snd p))))) ps;
     s_clear := 1%N :: overwrite data cells (map (fun _ => 0%N) cells);
     (* set outside the window trips the debug assertion; inside it returns the old item *)
     s_set := if (ir <? nn (w_h w))%N && (ic <? nn (w_w w))%N then
                let cell := root_index W (win_coord w (N.to_nat ir) (N.to_nat ic)) in
                1%N :: nth_default_N data cell :: overwrite data [cell] [SETV]
              else [0%N];
     s_nth := [at_k nk;
               nn (if S nk <? total then S nk / w_w w else w_h w);
               nn (if S nk <? total then S nk mod w_w w else 0);
               at_k (S nk)];
     s_wpos := flat_map (fun pv => [nn (fst (fst pv)); nn (snd (fst pv)); snd pv]) (combine ps vals);
     (* an iterator at index k yields the k-th cell of the window in row-major order, reports the position
        (k / width, k mod width), and is at (height, 0) with nothing to yield from height*width on; reading
        the cell gives its value, which is also its root index + 1 *)
     s_prog := run_prog (fun k => if k <? total then Some (nth_default_N vals k) else None)
                        (fun k => if k <? total then (k / w_w w, k mod w_w w) else (w_h w, 0)) total prog 0 false |}.

(* frame condition: same length, and every element that is not a window cell is unchanged *)
Fixpoint frame_from (k : nat) (cells : list nat) (data d : list N) : bool :=
  match data, d with
  | [], [] => true
  | x :: data', y :: d' => (existsb (Nat.eqb k) cells || (x =? y)%N) && frame_from (S k) cells data' d'
  | _, _ => false
  end.

(* what insert may do: exactly the specified writes; for an index of usize::MAX or beyond (no such
   position exists in any window) a panic, or any result that leaves everything outside the window alone *)
Definition insert_ok (H W : nat) (ops : list vop) (ir ic : N) (expected ins : list N) : bool :=
  let w := win_chain (win_root H W) ops in
  let index := (ir * nn (w_w w) + ic)%N in
  if (18446744073709551615 <=? index)%N then
    match ins with
    | [0%N] => true
    | 1%N :: d => frame_from 0 (win_cells W w) (init_data H W) d
    | _ => false
    end
  else nlist_eqb expected ins.

Inductive c07_case :=
| S07 (H W : nat) (ops : list vop) (ir ic : N) (items : list N) (nk : nat) (prog : list istep)
      (shape : list N) (empty : bool) (it gets muts fil filw ins mp clr getm setv nthv wpos progr progm : list N).

Definition c07_check (c : c07_case) : bool * bool :=
  match c with
  | S07 H W ops ir ic items nk prog shape empty it gets muts fil filw ins mp clr getm setv nthv wpos progr progm =>
      let m := model_obs H W ops ir ic items nk prog in
      let sp := spec_obs H W ops ir ic items nk prog in
      ( nlist_eqb (o_shape m) shape && Bool.eqb (o_empty m) empty && nlist_eqb (o_iter m) it
        && nlist_eqb (o_gets m) gets && nlist_eqb (o_muts m) muts && nlist_eqb (o_fill m) fil
        && nlist_eqb (o_fillwith m) filw && nlist_eqb (o_insert m) ins && nlist_eqb (o_map m) mp
        && nlist_eqb (o_clear m) clr && nlist_eqb (o_getm m) getm && nlist_eqb (o_set m) setv
        && nlist_eqb (o_nth m) nthv && nlist_eqb (o_wpos m) wpos
        && nlist_eqb (o_prog m) progr && nlist_eqb (o_progm m) progm,
        (* property: dimensions, emptiness, reads (get, get_mut, iter, nth, positions), handed-out
           offsets and every mutation (fill, fill_with, clear, set, insert, map) agree with the window
           of a plain matrix; no operation panicked except where the window semantics say so *)
        nlist_eqb [nth 3 shape 0%N; nth 2 shape 0%N] [nn (fst (s_dims sp)); nn (snd (s_dims sp))]
        && Bool.eqb (s_empty sp) empty && nlist_eqb (s_iter sp) it && nlist_eqb (s_gets sp) gets
        && nlist_eqb (s_muts sp) muts && nlist_eqb (s_fill sp) fil && nlist_eqb (s_fillwith sp) filw
        && insert_ok H W ops ir ic (s_insert sp) ins && nlist_eqb (s_map sp) mp
        && nlist_eqb (s_clear sp) clr && nlist_eqb (s_gets sp) getm && nlist_eqb (s_set sp) setv
        && nlist_eqb (s_nth sp) nthv && nlist_eqb (s_wpos sp) wpos
        (* one iterator driven through a program (next / nth / take / position / index, then with_position and
           on): exactly the remaining cells of the window, each once, row-major, with their positions; the
           mutable iterator hands out the references to exactly those cells *)
        && nlist_eqb (s_prog sp) progr && nlist_eqb (s_prog sp) progm )
  end.

Definition c07_report := report c07_check.
