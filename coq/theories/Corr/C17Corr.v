(* Correspondence for C17: scripted sessions of the real `SystemTerminal` on a pseudo-terminal
   (harness/src/c17.rs).  Every environment move of a script happens at a barrier between two
   polls, so the model IO/PollLoop.v, run with the canonical schedule (everything that is
   pending is ready at the first select, nothing arrives during the poll, the tty accepts
   everything unless the peer is paused), predicts each poll's result.

     agree = the model's poll results, "line settings restored" and "closing sequence delivered"
             equal the observed ones
     holds = the property read directly on the observations: a poll may return Wake / Resize /
             a key only if such a request is outstanding, keys come in the order typed, a quit
             error needs a termination signal, and a poll returns nothing only when nothing is
             outstanding; after the drop the line settings are the original ones and the closing
             sequence has arrived *)
From Coq Require Import List NArith Arith Bool.
From SNT Require Import Base.Outcome Base.Report IO.IOQueue IO.TermIO IO.PollLoop IO.PollLoopTee.
Import ListNotations.
Local Open Scope N_scope.

(* what happens while the thread sits in the poll: nothing, a wake() from another thread after d
   ms, a SIGWINCH delivered to this thread after d ms (select fails with EINTR) *)
Inductive dur := DNone | DWake (d : N) | DWinch (d : N).

Inductive act :=
| AWake (n : N) | AIn (toks : list N) | AWinch | ATerm | AWrite (len : N) | APause (b : bool) | AHup
| AFault (n : N)     (* the next n writes to the tty fail with EAGAIN although select reports it writable *)
| ATee (results : list bool)
                     (* duplicate_output is in use; one result per poll of dispose's wait loop (false = the copy
                        fails in that poll), as far as the harness can tell: a healthy file never fails, a failing
                        one fails in the first poll when more than its 8 KiB buffer is still to be sent *)
| ASettled           (* end of a generated script, after more zero-timeout polls than events could still come:
                        nothing may be owed any more (no move of the model) *)
| APoll (tmo : option N) (send pending elapsed : N) (during : dur) (spins : N).
  (* observed after the poll: stats.send, frames_pending(), wall-clock milliseconds, and how many of
     the scripted EAGAIN failures the poll ran into *)

Inductive ekind := EDrop | EDropPaused | EHup.

(* poll results: Wake, Resize, key/token, None, quit error, other error, OH = an infinite poll that
   had not returned after two seconds although the script left an event outstanding *)
Inductive pobs := OW | OR | OK (t : N) | ON | OQ | OE | OH.

Inductive c17_case :=
| CS (acts : list act) (obs : list pobs) (e : ekind) (restored closing : bool)
| CR (acts : list act) (obs : list pobs) (via : pobs) (restored closing : bool)
    (* as CS, but the session is left through Terminal::run / run_render returning `via` *)
| CT (requested seen other : N) (last quiet : bool)
| CO (failed unchanged : bool)
| CF (drop_ms : N) (restored : bool)
| CE (winches resizes others : N) (mode_and_restored : bool)
| CRO (opens : N) (each_restored : bool).
    (* the same tty opened and released `opens` times in one process, its settings changed from outside before
       each open: every release left the settings found at that open (the model has no state outside the
       terminal object: `opened orig raw` saves what it finds) *)
    (* escape-sequence resize mode (the ioctl gives no pixel size, the terminal answers CSI 18 t / 14 t):
       every SIGWINCH is answered by at least one Resize event, nothing else shows up; not modelled *)
    (* dropped while the other side keeps typing and never answers the sync request: the wait of
       dispose has an overall deadline (3 s, plus one poll of at most 1 s) *)
    (* SystemTerminal::open made to fail after the tty is known (no descriptors for the sockets): no
       object exists, no Drop will run; the line settings must be the ones found *)

Definition pobs_eqb (a b : pobs) : bool :=
  match a, b with
  | OW, OW | OR, OR | ON, ON | OQ, OQ | OE, OE | OH, OH => true
  | OK x, OK y => x =? y
  | _, _ => false
  end.

(* ---------------------------------------------------------------- model side *)
Definition st := pstate N N.
Definition da_token : N := 100000.
Definition is_da (t : N) : bool := t =? da_token.
Definition closing_seq : list N := [27; 99].        (* stands for dispose's closing sequence *)

Definition mk_round (expired : bool) (before : list (emove N)) (accept : option N) : round_env N :=
  mkR expired before false accept false [] [] [] 1024.

(* a kernel schedule for one poll that delivers d bytes in all and leaves `count` chunks (as in
   Corr/C16Pty.v): the one thing about the kernel's short writes the loop condition depends on *)
Fixpoint resched (fuel : nat) (q : queue N) (d : N) (count : nat) : list (option N) :=
  match fuel with
  | O => []
  | S f =>
      if 0 <? d then
        match consume_with q (consumer d true) with
        | Ok (q', size) => Some d :: resched f q' (d - size) count
        | _ => []
        end
      else if Nat.ltb count (chunks_count q) then
        match consume_with q (consumer 0 true) with
        | Ok (q', _) =>
            if Nat.ltb (chunks_count q') (chunks_count q) then Some 0 :: resched f q' 0 count else []
        | _ => []
        end
      else []
  end.

Definition during_rounds (du : dur) : list (round_env N) :=
  match du with
  | DNone => []
  | DWake _ => [mk_round false [MWake] None]
  | DWinch _ => [mkR false [MWinch] true None false [] [] [] 1024]     (* EINTR, then the next select *)
  end.

Definition sched_for (tmo : option N) (s : st) (send pending : N) (du : dur) (spins : N) : list (round_env N) :=
  let q := flush (tq (io s)) in
  let d := send - N.of_nat (sent (io s)) in
  let accepts := resched (2 * chunks_count q + 4) q d (N.to_nat pending) in
  let expired0 := match tmo with Some 0 => true | _ => false end in
  during_rounds du
  (* iterations in which the tty was reported writable and the write failed with EAGAIN *)
  ++ repeat (mk_round expired0 [] (Some 0)) (N.to_nat spins)
  ++ map (fun a => mk_round expired0 [] a) accepts
  ++ match tmo with
     | Some 0 => repeat (mk_round true [] None) 3
     | Some _ => repeat (mk_round false [] None) 4 ++ repeat (mk_round true [] None) 2
     | None => repeat (mk_round false [] None) 6
     end.

Definition res_obs (r : pres N) : option pobs :=
  match r with
  | PRet (Some EvWake) => Some OW
  | PRet (Some EvResize) => Some OR
  | PRet (Some (EvInput t)) => Some (OK t)
  | PRet None => Some ON
  | PErr Quit => Some OQ
  | PErr Io => Some OE
  | PBlocked => None
  | PMore => None
  end.

Fixpoint model_run (s : st) (paused : bool) (acts : list act) (obs : list pobs) : option (st * bool) :=
  match acts with
  | [] => match obs with [] => Some (s, paused) | _ => None end
  | a :: rest =>
      match a with
      | AWake n => model_run (N.iter n (fun x => arrive x MWake) s) paused rest obs
      | AIn toks => model_run (arrive s (MInput toks)) paused rest obs
      | AWinch => model_run (arrive s MWinch) paused rest obs
      | ATerm => model_run (arrive s MTerm) paused rest obs
      | AWrite len =>
          let t := io s in
          model_run (upd_io s (mkT (write (tq t) (N.iter len (cons 0) [])) (tty t) (sent t)))
                    paused rest obs
      | AHup => model_run (arrive s MHup) paused rest obs
      | AFault _ | ASettled | ATee _ => model_run s paused rest obs
      | APause b => model_run s b rest obs
      | APoll tmo send pending _ du spins =>
          match obs with
          | [] => None
          | o :: obs' =>
              let finite := match tmo with Some _ => true | None => false end in
              let '(r, s', _) := poll finite s (sched_for tmo s send pending du spins) in
              match res_obs r with
              | Some o' =>
                  (* on a tty that has hung up a read answers 0 or EIO (both were observed on this
                     kernel): quit error and i/o error are not told apart then *)
                  let is_err x := match x with OQ | OE => true | _ => false end in
                  if pobs_eqb o o' || (hup s && is_err o && is_err o')
                  then model_run s' paused rest obs' else None
              | None => None
              end
          end
      end
  end.

Definition dispose_sched (paused : bool) : list (round_env N) :=
  if paused then repeat (mk_round false [] None) 3 ++ repeat (mk_round true [] None) 2
  else mk_round false [] (Some 1000000000)
       :: mk_round false [MInput [da_token]] (Some 1000000000)
       :: repeat (mk_round false [] (Some 1000000000)) 60.

Definition ends_with (l suffix : list N) : bool :=
  nlist_eqb (skipn (length l - length suffix) l) suffix.

Fixpoint tee_of (acts : list act) : option (list bool) :=
  match acts with
  | [] => None
  | ATee l :: _ => Some l
  | _ :: rest => tee_of rest
  end.

Definition model_case (acts : list act) (obs : list pobs) (e : ekind) (restored closing : bool) : bool :=
  match model_run (opened 7 8) false acts obs with
  | None => false
  | Some (s, _) =>
      match e with
      | EHup => true      (* the master is gone: neither settings nor delivery can be observed *)
      | _ =>
          match dispose_t is_da closing_seq 40 (tee_of acts) s (dispose_sched (match e with EDropPaused => true | _ => false end)) with
          | None => false
          | Some s' =>
              Bool.eqb restored (cur s' =? saved s')
              && Bool.eqb closing (ends_with (tty (io s')) closing_seq)
          end
      end
  end.

(* ---------------------------------------------------------------- specification side *)
(* o_wake: a wake request has not been answered by a Wake event yet (a Wake is owed);
   o_may: how many more Wake events may still come (requests coalesce, they are not invented);
   o_winch / o_wmay: the same for SIGWINCH and Resize *)
Record outstanding := mkO { o_wake : bool; o_may : N; o_winch : bool; o_wmay : N; o_term : bool; o_keys : list N }.

Definition nothing_outstanding (o : outstanding) : bool :=
  negb (o_wake o) && negb (o_winch o) && negb (o_term o)
  && match o_keys o with [] => true | _ => false end.

(* scheduling noise tolerated, in milliseconds: a quarter of the scripted wait plus 250 (the harness
   runs a late session again, twice at most, so only lateness that repeats gets here) *)
Definition slack : N := 250.
Definition within (scripted elapsed : N) : bool := elapsed <=? scripted + scripted / 4 + slack.

(* wake_owed: a wake request is outstanding when the poll is entered.  Only wake requests bound an
   infinite poll unconditionally; other events are returned once the output has been flushed *)
Definition timely (tmo : option N) (du : dur) (wake_owed : bool) (elapsed : N) : bool :=
  match tmo, du with
  | Some ms, _ => within ms elapsed                           (* a finite poll returns by its timeout *)
  | None, DWake d | None, DWinch d => within d elapsed        (* the request ends the infinite poll
                                                                 (DWinch is scripted with no output stalled) *)
  | None, DNone => if wake_owed then within 0 elapsed else true
  end.

Definition owes (o : outstanding) : bool := negb (nothing_outstanding o).

Fixpoint spec_run (o : outstanding) (hup : bool) (acts : list act) (obs : list pobs) : bool :=
  match acts with
  | [] => match obs with [] => true | _ => false end
  | a :: rest =>
      match a with
      | AWake n => spec_run (mkO true (o_may o + n) (o_winch o) (o_wmay o) (o_term o) (o_keys o)) hup rest obs
      | AIn toks => spec_run (mkO (o_wake o) (o_may o) (o_winch o) (o_wmay o) (o_term o) (o_keys o ++ toks)) hup rest obs
      | AWinch => spec_run (mkO (o_wake o) (o_may o) true (o_wmay o + 1) (o_term o) (o_keys o)) hup rest obs
      | ATerm => spec_run (mkO (o_wake o) (o_may o) (o_winch o) (o_wmay o) true (o_keys o)) hup rest obs
      | AWrite _ | APause _ => spec_run o hup rest obs
      | AHup => spec_run o true rest obs
      | AFault _ | ATee _ => spec_run o hup rest obs
      | ASettled => (nothing_outstanding o || hup) && spec_run o hup rest obs
      | APoll tmo _ _ elapsed du spins =>
          let owed_at_entry := o_wake o in
          (* a request issued while the thread sits in the poll is owed like any other *)
          let o := match du with
                   | DNone => o
                   | DWake _ => mkO true (o_may o + 1) (o_winch o) (o_wmay o) (o_term o) (o_keys o)
                   | DWinch _ => mkO (o_wake o) (o_may o) true (o_wmay o + 1) (o_term o) (o_keys o)
                   end in
          match obs with
          | [] => false
          | ob :: obs' =>
              timely tmo du owed_at_entry elapsed &&
              (* bounded in iterations too: with a wake owed the loop does not go round on a tty that
                 is reported writable and takes nothing *)
              (if owed_at_entry then spins <=? 1 else true) &&
              match ob with
              | OW => (0 <? o_may o)
                      && spec_run (mkO false (o_may o - 1) (o_winch o) (o_wmay o) (o_term o) (o_keys o)) hup rest obs'
              | OR => (0 <? o_wmay o)
                      && spec_run (mkO (o_wake o) (o_may o) false (o_wmay o - 1) (o_term o) (o_keys o)) hup rest obs'
              | OK t => match o_keys o with
                        | k :: ks => (k =? t) && spec_run (mkO (o_wake o) (o_may o) (o_winch o) (o_wmay o) (o_term o) ks) hup rest obs'
                        | [] => false
                        end
              (* a quit error needs a termination signal or a hang-up *)
              | OQ => (o_term o || hup) && spec_run (mkO (o_wake o) (o_may o) (o_winch o) (o_wmay o) false (o_keys o)) hup rest obs'
              | ON => nothing_outstanding o && negb hup && spec_run o hup rest obs'
              | OE => hup && spec_run o hup rest obs'       (* an i/o error is only excused by a tty that is gone *)
              | OH => false
              end
          end
      end
  end.

Definition c17_check (c : c17_case) : bool * bool :=
  match c with
  | CS acts obs e restored closing =>
      (model_case acts obs e restored closing,
       spec_run (mkO false 0 false 0 false []) false acts obs
       && match e with
          | EDrop => restored && closing
          | EDropPaused => restored       (* domain assumption: the closing sequence needs a peer that reads *)
          | EHup => true
          end)
  | CR acts obs via restored closing =>
      (* left through run (handler error) or run_render (quit): whatever happened inside, the drop
         afterwards restores the settings and delivers the closing sequence *)
      (model_case acts obs EDrop restored closing,
       spec_run (mkO false 0 false 0 false []) false acts obs && restored && closing
       && match via with OQ | OE => true | _ => false end)
  | CT requested seen other last quiet =>
      (* coalescing allowed, loss and invention impossible; a request after the storm is seen *)
      (true, (1 <=? seen) && (seen <=? requested) && (other =? 0) && last && quiet)
  | CO failed unchanged => (failed, unchanged)
  | CF drop_ms restored => (true, restored && (drop_ms <=? 4000 + slack))
  | CE winches resizes others ok => (true, ok && (winches <=? resizes) && (others =? 0))
  | CRO opens ok => (true, ok && (0 <? opens))
  end.

Definition c17_report := report c17_check.
