(* Correspondence for C17: scripted sessions of the real `SystemTerminal` on a pseudo-terminal
   (harness/src/c17.rs).  Every environment move of a script happens at a barrier between two
   polls, so the model IO/PollLoop.v, run with the canonical schedule (everything that is
   pending is ready at the first select, nothing arrives during the poll, the tty accepts
   everything unless the peer is paused), predicts each poll's result.

     agree = the model's poll results, "line settings restored" and "closing sequence delivered"
             equal the observed ones
     holds = the property read directly on the observations: a poll may return Wake / Resize /
             a key only if such a request is outstanding, keys come in the order typed, a quit
             error needs a termination signal, and a poll returns nothing only when nothing is
             outstanding; after the drop the line settings are the original ones and the closing
             sequence has arrived *)
From Coq Require Import List NArith Arith Bool.
From SNT Require Import Base.Outcome Base.Report IO.IOQueue IO.TermIO IO.PollLoop.
Import ListNotations.
Local Open Scope N_scope.

Inductive act :=
| AWake (n : N) | AIn (toks : list N) | AWinch | ATerm | AWrite (len : N) | APause (b : bool)
| APoll (tmo : option N).

(* poll results: Wake, Resize, key/token, None, quit error, other error *)
Inductive pobs := OW | OR | OK (t : N) | ON | OQ | OE.

Inductive c17_case :=
| CS (acts : list act) (obs : list pobs) (end_paused restored closing : bool)
| CT (requested seen other : N) (last quiet : bool)
| CB (ms : N) (wake : bool).

Definition pobs_eqb (a b : pobs) : bool :=
  match a, b with
  | OW, OW | OR, OR | ON, ON | OQ, OQ | OE, OE => true
  | OK x, OK y => x =? y
  | _, _ => false
  end.

(* ---------------------------------------------------------------- model side *)
Definition st := pstate N N.
Definition da_token : N := 100000.
Definition is_da (t : N) : bool := t =? da_token.
Definition closing_seq : list N := [27; 99].        (* stands for dispose's closing sequence *)

Definition mk_round (expired : bool) (before : list (emove N)) (accept : option N) : round_env N :=
  mkR expired before false accept false [] [] [] 1024.

Definition sched_for (tmo : option N) (paused : bool) : list (round_env N) :=
  let acc := if paused then None else Some 1000000000 in
  match tmo with
  | Some 0 => repeat (mk_round true [] acc) 4
  | Some _ => repeat (mk_round false [] acc) 6 ++ repeat (mk_round true [] acc) 2
  | None => repeat (mk_round false [] acc) 12
  end.

Definition res_obs (r : pres N) : option pobs :=
  match r with
  | PRet (Some EvWake) => Some OW
  | PRet (Some EvResize) => Some OR
  | PRet (Some (EvInput t)) => Some (OK t)
  | PRet None => Some ON
  | PErr Quit => Some OQ
  | PErr Io => Some OE
  | PBlocked => None
  | PMore => None
  end.

Fixpoint model_run (s : st) (paused : bool) (acts : list act) (obs : list pobs) : option (st * bool) :=
  match acts with
  | [] => match obs with [] => Some (s, paused) | _ => None end
  | a :: rest =>
      match a with
      | AWake n => model_run (N.iter n (fun x => arrive x MWake) s) paused rest obs
      | AIn toks => model_run (arrive s (MInput toks)) paused rest obs
      | AWinch => model_run (arrive s MWinch) paused rest obs
      | ATerm => model_run (arrive s MTerm) paused rest obs
      | AWrite len =>
          let t := io s in
          model_run (upd_io s (mkT (write (tq t) (repeat 0 (N.to_nat len))) (tty t) (sent t)))
                    paused rest obs
      | APause b => model_run s b rest obs
      | APoll tmo =>
          match obs with
          | [] => None
          | o :: obs' =>
              let finite := match tmo with Some _ => true | None => false end in
              let '(r, s', _) := poll finite s (sched_for tmo paused) in
              match res_obs r with
              | Some o' => if pobs_eqb o o' then model_run s' paused rest obs' else None
              | None => None
              end
          end
      end
  end.

Definition dispose_sched (paused : bool) : list (round_env N) :=
  if paused then repeat (mk_round false [] None) 3 ++ repeat (mk_round true [] None) 2
  else mk_round false [] (Some 1000000000)
       :: mk_round false [MInput [da_token]] (Some 1000000000)
       :: repeat (mk_round false [] (Some 1000000000)) 60.

Definition ends_with (l suffix : list N) : bool :=
  nlist_eqb (skipn (length l - length suffix) l) suffix.

Definition model_case (acts : list act) (obs : list pobs) (end_paused restored closing : bool) : bool :=
  match model_run (opened 7 8) false acts obs with
  | None => false
  | Some (s, _) =>
      match dispose is_da closing_seq 40 s (dispose_sched end_paused) with
      | None => false
      | Some s' =>
          Bool.eqb restored (cur s' =? saved s')
          && Bool.eqb closing (ends_with (tty (io s')) closing_seq)
      end
  end.

(* ---------------------------------------------------------------- specification side *)
(* o_wake: a wake request has not been answered by a Wake event yet (a Wake is owed);
   o_may: how many more Wake events may still come (requests coalesce, they are not invented) *)
Record outstanding := mkO { o_wake : bool; o_may : N; o_winch : bool; o_term : bool; o_keys : list N }.

Definition nothing_outstanding (o : outstanding) : bool :=
  negb (o_wake o) && negb (o_winch o) && negb (o_term o)
  && match o_keys o with [] => true | _ => false end.

Fixpoint spec_run (o : outstanding) (acts : list act) (obs : list pobs) : bool :=
  match acts with
  | [] => match obs with [] => true | _ => false end
  | a :: rest =>
      match a with
      | AWake n => spec_run (mkO true (o_may o + n) (o_winch o) (o_term o) (o_keys o)) rest obs
      | AIn toks => spec_run (mkO (o_wake o) (o_may o) (o_winch o) (o_term o) (o_keys o ++ toks)) rest obs
      | AWinch => spec_run (mkO (o_wake o) (o_may o) true (o_term o) (o_keys o)) rest obs
      | ATerm => spec_run (mkO (o_wake o) (o_may o) (o_winch o) true (o_keys o)) rest obs
      | AWrite _ | APause _ => spec_run o rest obs
      | APoll _ =>
          match obs with
          | [] => false
          | ob :: obs' =>
              match ob with
              | OW => (0 <? o_may o) && spec_run (mkO false (o_may o - 1) (o_winch o) (o_term o) (o_keys o)) rest obs'
              | OR => o_winch o && spec_run (mkO (o_wake o) (o_may o) false (o_term o) (o_keys o)) rest obs'
              | OK t => match o_keys o with
                        | k :: ks => (k =? t) && spec_run (mkO (o_wake o) (o_may o) (o_winch o) (o_term o) ks) rest obs'
                        | [] => false
                        end
              (* a SIGWINCH flagged together with the termination signal is not owed any more:
                 the session is over (its flag stays set, design/C17.md) *)
              | OQ => o_term o && spec_run (mkO (o_wake o) (o_may o) false false (o_keys o)) rest obs'
              | ON => nothing_outstanding o && spec_run o rest obs'
              | OE => false
              end
          end
      end
  end.

Definition c17_check (c : c17_case) : bool * bool :=
  match c with
  | CS acts obs end_paused restored closing =>
      (model_case acts obs end_paused restored closing,
       spec_run (mkO false 0 false false []) acts obs && restored && closing)
  | CT requested seen other last quiet =>
      (* coalescing allowed, loss and invention impossible; a request after the storm is seen *)
      (true, (1 <=? seen) && (seen <=? requested) && (other =? 0) && last && quiet)
  | CB ms wake =>
      (* the model predicts that this poll blocks while the peer does not read; the property
         would want it back promptly *)
      (negb (ms <? 100), (ms <? 100) && wake)
  end.

Definition c17_report := report c17_check.
