(* C05 correspondence: bytes written by the real TTYEncoder::encode vs the model,
   and the property predicate computed from the specification side (independent
   VT parser + interpreter vs the short meaning of the command). *)
From Coq Require Import List NArith ZArith Bool.
From SNT Require Export Base.Report Base.Outcome Encoder.Decimal Encoder.Utf8 Encoder.Encode Encoder.VT Encoder.Denote Encoder.EncodeStream Encoder.Term.
From SNT Require Corr.C05bCorr.
Import ListNotations.
Local Open Scope N_scope.

Definition rgba_eqb (a b : rgba) : bool :=
  (cr a =? cr b) && (cg a =? cg b) && (cb a =? cb b) && (ca a =? ca b).

(* answers of the colour-reduction oracle observed on the implementation
   (palette index under EightBit, level under Gray); 999 = not supplied *)
Fixpoint lookup (l : list (rgba * N)) (c : rgba) : N :=
  match l with
  | [] => 999
  | (k, v) :: r => if rgba_eqb k c then v else lookup r c
  end.

Inductive c05_case :=
| Case (cp : caps) (c : cmd) (oracle : list (rgba * N)) (impl : option (list N))
  (* several commands through ONE encoder object into one output *)
    (* `pre`: bytes already in the output (a complete prefix) before the stream is encoded *)
| Stream (cp : caps) (pre : list N) (cs : list cmd) (oracle : list (rgba * N)) (impl : option (list N))
  (* a renderer session: C05 composed with C01 (Corr/C05bCorr.v) *)
| Session (x : C05bCorr.session)
  (* ONE encoder object: command `x` is encoded into a writer that accepts `k` bytes and then fails
     (observed: the bytes that got through, Ok or Err), then the commands `ys` into a healthy writer *)
| FailWrite (cp : caps) (x : cmd) (k : N) (ys : list cmd) (oracle : list (rgba * N))
            (failed : list N) (ok : bool) (follow : option (list N)).

Definition oracle_ok (d : depth) (l : list (rgba * N)) : bool :=
  match d with
  | TrueColor => true
  | EightBit => forallb (fun kv => (16 <=? snd kv) && (snd kv <? 256)) l
  | Gray => forallb (fun kv => snd kv <? 4) l
  end.

Definition c05_check (k : c05_case) : bool * bool :=
  match k with
  | Case cp c oracle impl =>
      let pal := lookup oracle in
      ( match encode pal pal cp c, impl with
        | Ok bs, Some ib => nlist_eqb bs ib
        | Panic _, None => true
        | _, _ => false
        end
      , (* property predicate, from the specification side only *)
        cmd_ok c && oracle_ok (cp_depth cp) oracle &&
        match impl with
        | None => false                                            (* encoding never panics *)
        | Some ib =>
            ops_eqb (vt_ops ib) (denote pal pal cp c) (* means exactly the command *)
            && (is_raw c || vt_complete ib)                        (* complete, self-contained *)
        end )
  | Stream cp pre cs oracle impl =>
      let pal := lookup oracle in
      ( (* one encoder object, fresh scratch buffer *)
        match encode_stream_st pal pal cp enc_new cs, impl with
        | Ok (bs, _), Some ib => nlist_eqb bs ib
        | Panic _, None => true
        | _, _ => false
        end
      , forallb cmd_ok cs && forallb (fun c => negb (is_raw c)) cs && oracle_ok (cp_depth cp) oracle &&
        match impl with
        | None => false
        | Some ib =>
            (* after the complete prefix, the bytes take the terminal -- from the clean state and
               from two dirty states -- exactly where the commands' meanings take it *)
            vt_complete pre
            (* the same operations in the same order (SGR / print order, merged or dropped or
               duplicated operations are all visible here) ... *)
            && ops_eqb (vt_ops (pre ++ ib)) (vt_ops pre ++ flat_map (denote pal pal cp) cs)
            (* ... and (implied by it; kept as the reading of the property in terms of terminal
               state) the same final terminal state from the clean and from two dirty states *)
            && same_final_state (vt_ops (pre ++ ib)) (vt_ops pre ++ flat_map (denote pal pal cp) cs)
            && vt_complete (pre ++ ib)
        end )
  | Session x => C05bCorr.session_check x
  | FailWrite cp x k ys oracle failed ok follow =>
      let pal := lookup oracle in
      ( match encode_stw pal pal cp enc_new x (Some (N.to_nat k)) with
        | Ok (e, okm, s', _) =>
            nlist_eqb e failed && Bool.eqb okm ok
            && match encode_stream_st pal pal cp s' ys, follow with
               | Ok (bs, _), Some fb => nlist_eqb bs fb
               | _, _ => false
               end
        | _ => false
        end
      , (* specification side: what got through of the failed command is a prefix of (an encoding that
           means) the command, exactly k bytes of it if the writer failed; and every LATER command still
           means exactly what was commanded -- nothing of the failed one leaks into it, an empty
           modification emits nothing *)
        cmd_ok x && negb (is_raw x) && forallb cmd_ok ys && forallb (fun c => negb (is_raw c)) ys
        && oracle_ok (cp_depth cp) oracle
        && match encode pal pal cp x with
           | Ok full =>
               nlist_eqb failed (firstn (length failed) full)
               && (if ok then nlist_eqb failed full else (N.of_nat (length failed) =? k) && (k <? N.of_nat (length full)))
           | _ => false
           end
        && match follow with
           | Some fb => ops_eqb (vt_ops fb) (flat_map (denote pal pal cp) ys) && vt_complete fb
           | None => false
           end )
  end.

Definition c05_report := report c05_check.
