(* The production automata of src/decoder.rs through the C15 model: the model of
   NFA::compile (Automata/Compile.v) is run on the production NFA (Gen/ProdNFA.v,
   from verif::dump_nfa) and its result is compared with the production DFA
   (Gen/ProdDFA.v, from verif::dump_dfa): same start, same number of states in
   the same numbering (the model mirrors the discovery order of the code), same
   transition on every byte, same accepting / terminal flags, same tag sets. *)
From Coq Require Import List NArith PArith FMapPositive Bool Arith.
From SNT Require Import Corr.C15Corr.
From SNT Require Import Base.Outcome Base.Report Automata.Regex Automata.NFA Automata.Compile
  Automata.CompileFast Automata.DfaData Automata.ProdNfaData.
Import ListNotations.

Definition opt_n_eqb (a : option nat) (b : option N) : bool :=
  match a, b with
  | None, None => true
  | Some x, Some y => N.eqb (N.of_nat x) y
  | _, _ => false
  end.

Fixpoint rows_eqb (a : list (option nat)) (b : list (option N)) : bool :=
  match a, b with
  | [], [] => true
  | x :: a', y :: b' => opt_n_eqb x y && rows_eqb a' b'
  | _, _ => false
  end.

Definition prod_tags (ts : list (bool * N)) : list N :=
  fold_left (fun acc t => nins (tag_code t) acc) ts [].

Definition info_agree (i : dinfo) (p : info) : bool :=
  Bool.eqb (accepting i) (fst (fst p)) && Bool.eqb (terminal i) (snd (fst p))
  && nlist_eqb (dtags i) (prod_tags (snd p)).

(* model rows are consecutive blocks of lang_size entries *)
Fixpoint table_agree (ls : nat) (table : list (option nat)) (rows : list row) : bool :=
  match rows with
  | [] => is_nil table
  | r :: rows' =>
      rows_eqb (firstn ls table) (map (row_find r) all_bytes)
      && table_agree ls (skipn ls table) rows'
  end.

Fixpoint infos_agree (a : list dinfo) (b : list info) : bool :=
  match a, b with
  | [], [] => true
  | x :: a', y :: b' => info_agree x y && infos_agree a' b'
  | _, _ => false
  end.

(* the dumped DFA in the form of the model, for the breadth-first canonical form of C15Corr *)
Definition of_data (dd : dfa_data) : Compile.dfa :=
  mkdfa (N.to_nat (dd_start dd))
        (flat_map (fun r => map (fun c => option_map N.to_nat (row_find r c)) all_bytes) (dd_rows dd))
        (map (fun p => mkinfo (fst (fst p)) (snd (fst p)) (prod_tags (snd p))) (dd_infos dd))
        256.

(* 0 = the model reproduces the production DFA state for state in the code's own numbering;
   10 = same DFA up to the numbering of states (the discovery order of the code differs from the
   model's: not a violation, c15_check canonicalises too); other values say what differs *)
Definition prod_agree (fuel cf : nat) (nd : nfa_data) (dd : dfa_data) : N :=
  (* compile_fast = compile (CompileFastProofs.compile_fast_eq): same result, binary state ids *)
  match compile_fast fuel cf (to_nfa nd) with
  | Ok d =>
      let code :=
        if negb (N.eqb (N.of_nat (dstart d)) (dd_start dd)) then 1%N
        else if negb (Nat.eqb (length (dinfos d)) (length (dd_rows dd))) then 2%N
        else if negb (table_agree (lang_size d) (dtable d) (dd_rows dd)) then 3%N
        else if negb (infos_agree (dinfos d) (dd_infos dd)) then 4%N
        else 0%N in
      match code with
      | 0%N => 0%N
      | _ => match canon d, canon (of_data dd) with
             | Some a, Some b => if list_eqb cstate_eqb a b then 10%N else code
             | _, _ => code
             end
      end
  | Panic k => (100 + k)%N
  | OutOfFuel => 98%N
  | Err _ => 99%N
  end.

(* ---------- witness search (not trusted, no proofs): when the certificate check of
   Automata/ProdCheck.v fails, look breadth first for a shortest byte string on
   which the dumped DFA and the dumped NFA disagree: dead vs reachable, accepting
   vs stop reachable, or the tag sets.  The NFA side steps subsets with the
   executable definitions of ProdCheck (targets, fc). ---------- *)
From SNT Require Import Automata.ProdCheck.

Section Witness.
  Variable nd : nfa_data.
  Variable dd : dfa_data.
  Variable idx : PositiveMap.t nstate_data.
  Variable cfuel : nat.

  Definition set_of (m : PositiveMap.t unit) : list N :=
    map (fun p => Pos.pred_N (fst p)) (PositiveMap.elements m).

  Definition closure_of (seeds : list N) : list N :=
    set_of (fc idx cfuel (PositiveMap.empty unit) seeds).

  Definition nfa_tags (qs : list N) : list N :=
    fold_left (fun acc t => nins t acc) (tags_in idx qs) [].

  (* true = the DFA state (None = dead) and the NFA subset disagree *)
  Definition differ (k : option N) (qs : list N) : bool :=
    match k with
    | None => match qs with [] => false | _ => true end
    | Some k =>
        match qs with
        | [] => true
        | _ =>
            match nth_error (dd_infos dd) (N.to_nat k) with
            | Some i =>
                negb (Bool.eqb (fst (fst i)) (memN (nd_stop nd) qs))
                || negb (nlist_eqb (prod_tags (snd i)) (nfa_tags qs))
            | None => true
            end
        end
    end.

  Definition seen (k : N) (qs : list N) (v : PositiveMap.t (list (list N))) : bool :=
    match PositiveMap.find (N.succ_pos k) v with
    | Some l => existsb (nlist_eqb qs) l
    | None => false
    end.

  Definition mark (k : N) (qs : list N) (v : PositiveMap.t (list (list N))) :=
    PositiveMap.add (N.succ_pos k)
      (qs :: match PositiveMap.find (N.succ_pos k) v with Some l => l | None => [] end) v.

  (* one node: try every byte; Some witness, or the new nodes *)
  Fixpoint expand (r : row) (qs path : list N) (bytes : list N)
           (v : PositiveMap.t (list (list N))) (new : list (N * list N * list N))
    : (option (list N)) * PositiveMap.t (list (list N)) * list (N * list N * list N) :=
    match bytes with
    | [] => (None, v, new)
    | c :: bs =>
        let qs' := closure_of (targets idx qs c) in
        let k' := row_find r c in
        if differ k' qs' then (Some (rev (c :: path)), v, new)
        else match k' with
             | Some k2 =>
                 if seen k2 qs' v then expand r qs path bs v new
                 else expand r qs path bs (mark k2 qs' v) (new ++ [(k2, qs', c :: path)])
             | None => expand r qs path bs v new
             end
    end.

  Fixpoint wsearch (fuel : nat) (v : PositiveMap.t (list (list N)))
           (queue : list (N * list N * list N)) : option (list N) :=
    match fuel with
    | O => None
    | S f =>
        match queue with
        | [] => None
        | (k, qs, path) :: rest =>
            let r := match nth_error (dd_rows dd) (N.to_nat k) with Some r => r | None => [] end in
            match expand r qs path all_bytes v [] with
            | (Some w, _, _) => Some w
            | (None, v', new) => wsearch f v' (rest ++ new)
            end
        end
    end.

  Definition witness : option (list N) :=
    let s0 := closure_of [0%N] in
    if differ (Some (dd_start dd)) s0 then Some []
    else wsearch 4000 (mark (dd_start dd) s0 (PositiveMap.empty _)) [(dd_start dd, s0, [])].
End Witness.

Definition prod_witness (nd : nfa_data) (dd : dfa_data) : option (list N) :=
  witness nd dd (sd_index nd) (N.to_nat 100000).
