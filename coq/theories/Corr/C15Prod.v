(* The production automata of src/decoder.rs through the C15 model: the model of
   NFA::compile (Automata/Compile.v) is run on the production NFA (Gen/ProdNFA.v,
   from verif::dump_nfa) and its result is compared with the production DFA
   (Gen/ProdDFA.v, from verif::dump_dfa): same start, same number of states in
   the same numbering (the model mirrors the discovery order of the code), same
   transition on every byte, same accepting / terminal flags, same tag sets. *)
From Coq Require Import List NArith Bool Arith.
From SNT Require Import Base.Outcome Base.Report Automata.Regex Automata.NFA Automata.Compile
  Automata.DfaData Automata.ProdNfaData.
Import ListNotations.

Definition opt_n_eqb (a : option nat) (b : option N) : bool :=
  match a, b with
  | None, None => true
  | Some x, Some y => N.eqb (N.of_nat x) y
  | _, _ => false
  end.

Fixpoint rows_eqb (a : list (option nat)) (b : list (option N)) : bool :=
  match a, b with
  | [], [] => true
  | x :: a', y :: b' => opt_n_eqb x y && rows_eqb a' b'
  | _, _ => false
  end.

Definition prod_tags (ts : list (bool * N)) : list N :=
  fold_left (fun acc t => nins (tag_code t) acc) ts [].

Definition info_agree (i : dinfo) (p : info) : bool :=
  Bool.eqb (accepting i) (fst (fst p)) && Bool.eqb (terminal i) (snd (fst p))
  && nlist_eqb (dtags i) (prod_tags (snd p)).

(* model rows are consecutive blocks of lang_size entries *)
Fixpoint table_agree (ls : nat) (table : list (option nat)) (rows : list row) : bool :=
  match rows with
  | [] => is_nil table
  | r :: rows' =>
      rows_eqb (firstn ls table) (map (row_find r) all_bytes)
      && table_agree ls (skipn ls table) rows'
  end.

Fixpoint infos_agree (a : list dinfo) (b : list info) : bool :=
  match a, b with
  | [], [] => true
  | x :: a', y :: b' => info_agree x y && infos_agree a' b'
  | _, _ => false
  end.

(* 0 = agreement; other values say what differs *)
Definition prod_agree (fuel cf : nat) (nd : nfa_data) (dd : dfa_data) : N :=
  match Compile.compile fuel cf (to_nfa nd) with
  | Ok d =>
      if negb (N.eqb (N.of_nat (dstart d)) (dd_start dd)) then 1%N
      else if negb (Nat.eqb (length (dinfos d)) (length (dd_rows dd))) then 2%N
      else if negb (table_agree (lang_size d) (dtable d) (dd_rows dd)) then 3%N
      else if negb (infos_agree (dinfos d) (dd_infos dd)) then 4%N
      else 0%N
  | Panic k => (100 + k)%N
  | OutOfFuel => 98%N
  | Err _ => 99%N
  end.
