From Coq Require Import List ZArith Bool.
From SNT Require Export Base.Report Surface.Bounds.
Import ListNotations.
Local Open Scope Z_scope.

Inductive res08 := R (r : option (Z * Z)) | RPanic.

Definition res08_eqb (a b : res08) : bool :=
  match a, b with
  | R None, R None => true
  | R (Some (x, y)), R (Some (u, v)) => (x =? u) && (y =? v)
  | RPanic, RPanic => true
  | _, _ => false
  end.

(* one call  <selector written in type t>.view_bounds(n)  and what it returned *)
Inductive c08_case := B (t : ity) (s : sel) (n : Z) (impl : res08).

Definition c08_check (c : c08_case) : bool * bool :=
  match c with
  | B t s n impl =>
      (res08_eqb (R (view_bounds t s n)) impl,
       (* property predicate: Python slice semantics, computed over Z; cases whose
          bounds do not fit the type are a harness error and count as failures *)
       sel_in t s && res08_eqb (R (py_slice n s)) impl)
  end.

Definition c08_report := report c08_check.
