(* C06 correspondence: cases written by harness/src/c06.rs. *)
From Coq Require Import List NArith Bool.
From SNT Require Export Base.Report Decoder.CmdTok Decoder.SgrRef Decoder.History.
Import ListNotations.
Local Open Scope N_scope.

(* a Face as observed through the public API: colours, the raw attribute bits (through the
   derived Hash), and what FaceAttrs::underline() / contains(FLAG) answer *)
Inductive obs_face := OF (fg bg : option rgba) (bits : N) (ul : ustyle) (bold italic blink reverse strike : bool).

Definition obs_bits (o : obs_face) : face :=
  match o with OF fg bg bits _ _ _ _ _ _ => mkFace fg bg bits end.
Definition obs_rface (o : obs_face) : rface :=
  match o with OF fg bg _ ul b i k r s => mkR fg bg ul b i k r s end.
(* the model's reading of the bits agrees with the API's *)
Definition obs_consistent (o : obs_face) : bool :=
  rface_eqb (abs_face (obs_bits o)) (obs_rface o).

Fixpoint list_eqb2 {A B} (eqb : A -> B -> bool) (x : list A) (y : list B) : bool :=
  match x, y with
  | [], [] => true
  | a :: x', b :: y' => eqb a b && list_eqb2 eqb x' y'
  | _, _ => false
  end.

Definition command_eqb (x y : command) : bool :=
  match x, y with
  | CmdFace f, CmdFace g => face_eqb f g
  | CmdFaceModify m, CmdFaceModify n => face_modify_eqb m n
  | CmdChar c, CmdChar d => c =? d
  | CmdRaw a, CmdRaw b => nlist_eqb a b
  | _, _ => false
  end.

Definition ocmds_eqb (x : option (list command)) (y : list command) : bool :=
  match x with Some l => list_eqb command_eqb l y | None => false end.

(* cut a stream into chunks of the given lengths; what is left is the last chunk *)
Fixpoint chunk_at (cuts : list nat) (bytes : list N) : list (list N) :=
  match cuts with
  | [] => [bytes]
  | n :: r => firstn n bytes :: chunk_at r (skipn n bytes)
  end.

Definition fm_is_empty (m : face_modify) : bool := face_modify_eqb m fm_default.

Definition opaque (c : option rgba) : bool :=
  match c with
  | Some (RGBA r g b a) => (r <? 256) && (g <? 256) && (b <? 256) && (a =? 255)
  | None => true
  end.

Inductive c06_case :=
(* encode `cmd` (true colour), decode the bytes cut at `cuts`, apply the first decoded
   modification to each face of `gs` *)
| KEnc (cmd : command) (gs : list face) (cuts : list nat)
       (impl_bytes : list N) (impl_dec : list command) (impl_applied : list obs_face)
| KApply (m : face_modify) (g : face) (impl : obs_face)
| KWrite (f0 : face) (hist : list hitem) (cuts : list nat) (bytes : list N) (impl_cells : list (N * obs_face))
| KDec (bytes : list N) (cuts : list nat) (impl_dec impl_whole : list command)
(* a list of Face / FaceModify / Char commands written through ONE TTYEncoder, decoded under cuts *)
| KStream (cmds : list command) (cuts : list nat) (impl_bytes : list N) (impl_dec : list command).

Definition first_modify (l : list command) : option face_modify :=
  match l with CmdFaceModify m :: _ => Some m | _ => None end.

Definition cells_eqb (x : list cell) (y : list (N * obs_face)) : bool :=
  list_eqb2 (fun a b => (fst a =? fst b) && face_eqb (snd a) (obs_bits (snd b))) x y.
Definition rcells_eqb (x : list rcell) (y : list (N * obs_face)) : bool :=
  list_eqb2 (fun a b => (fst a =? fst b) && rface_eqb (snd a) (obs_rface (snd b))) x y.

(* three renditions differing from each other in every aspect *)
Definition probes : list rface :=
  [rface_default;
   mkR (Some (RGBA 1 1 1 255)) (Some (RGBA 2 2 2 255)) UDotted true true true true true;
   mkR (Some (RGBA 3 3 3 255)) (Some (RGBA 4 4 4 255)) UDashed true true true false true].

(* what a stream of commands must read back as: each non-empty modification as itself, the empty
   one as nothing, each character as itself, each Face as ONE modification that turns any rendition
   into that face (minus inverse video) *)
Fixpoint stream_ok (cmds dec : list command) : bool :=
  match cmds with
  | [] => match dec with [] => true | _ => false end
  | CmdFaceModify m :: r =>
      if fm_is_empty m then stream_ok r dec
      else match dec with d :: dec' => command_eqb d (CmdFaceModify m) && stream_ok r dec' | [] => false end
  | CmdChar c :: r =>
      match dec with d :: dec' => command_eqb d (CmdChar (char_out c)) && stream_ok r dec' | [] => false end
  | CmdFace f :: r =>
      match dec with
      | CmdFaceModify m' :: dec' =>
          forallb (fun p => rface_eqb (rapply m' p) (expressible (abs_face f))) probes && stream_ok r dec'
      | _ => false
      end
  | CmdRaw _ :: r => stream_ok r dec
  end.

(* A numeric parameter of 2^64 - 1 or more is beyond every range the standards define (codes, sub-parameters,
   palette indices, colour components): whatever its digits, it means what any other undefined huge number
   means.  The reference machine is therefore asked about the history with each such digit run replaced by
   2^32 (an undefined code, an out-of-range index / component); shorter numbers are left as written. *)
Definition flush_run (run : list N) : list N :=
  let r := rev run in
  if 18446744073709551615 <=? dec_value r then digits 4294967296 else r.
Fixpoint clamp_long (l run : list N) : list N :=
  match l with
  | [] => flush_run run
  | b :: r => if is_digit b then clamp_long r (b :: run) else flush_run run ++ b :: clamp_long r []
  end.
Definition clamp_item (h : hitem) : hitem :=
  match h with HSgr p => HSgr (clamp_long p []) | HText cs => HText cs end.

(* longest prefix of well-formed items *)
Fixpoint wf_prefix (hist : list hitem) : list hitem :=
  match hist with
  | h :: r => if item_wf h then h :: wf_prefix r else []
  | [] => []
  end.

Definition text_chars (hist : list hitem) : list N :=
  flat_map (fun h => match h with HText cs => cs | HSgr _ => [] end) hist.
Definition sgr_bytes_ok (h : hitem) : bool :=
  match h with HSgr p => forallb param_byte p | HText cs => forallb char_ok cs end.
(* when every sequence is at least a CSI .. m over parameter bytes, no character may be lost, added or reordered *)
Definition chars_ok (hist : list hitem) (cells : list (N * obs_face)) : bool :=
  negb (forallb sgr_bytes_ok hist) || nlist_eqb (text_chars hist) (map fst cells).

Fixpoint rcells_prefix_eqb (x : list rcell) (y : list (N * obs_face)) : bool :=
  match x, y with
  | [], _ => true
  | a :: x', b :: y' => (fst a =? fst b) && rface_eqb (snd a) (obs_rface (snd b)) && rcells_prefix_eqb x' y'
  | _ :: _, [] => false
  end.

Definition c06_check (c : c06_case) : bool * bool :=
  match c with
  | KEnc cmd gs cuts impl_bytes impl_dec impl_applied =>
      let model_dec := option_map fst (decode_chunks st_init (chunk_at cuts impl_bytes)) in
      let agree :=
        nlist_eqb (encode cmd) impl_bytes
        && ocmds_eqb model_dec impl_dec
        && match first_modify impl_dec with
           | Some m => list_eqb2 (fun g o => face_eqb (fm_apply m g) (obs_bits o)) gs impl_applied
           | None => match impl_applied with [] => true | _ => false end
           end
        && forallb obs_consistent impl_applied in
      let holds :=
        match cmd with
        | CmdFaceModify m =>
            list_eqb command_eqb impl_dec (if fm_is_empty m then [] else [CmdFaceModify m])
            && (fm_is_empty m
                || list_eqb2 (fun g o => rface_eqb (rapply m (abs_face g)) (obs_rface o)) gs impl_applied)
        | CmdFace f =>
            match impl_dec with
            | [CmdFaceModify _] =>
                list_eqb2 (fun (_ : face) o => rface_eqb (expressible (abs_face f)) (obs_rface o)) gs impl_applied
            | _ => false
            end
        | CmdChar ch => list_eqb command_eqb impl_dec [CmdChar (char_out ch)]
        | CmdRaw _ => true
        end in
      (agree, holds)
  | KApply m g impl =>
      (face_eqb (fm_apply m g) (obs_bits impl) && obs_consistent impl,
       rface_eqb (rapply m (abs_face g)) (obs_rface impl))
  | KWrite f0 hist cuts bytes impl_cells =>
      let agree :=
        nlist_eqb (render hist) bytes
        && match tty_write_chunks f0 (chunk_at cuts bytes) with
           | Some cells => cells_eqb cells impl_cells
           | None => false
           end
        && forallb (fun c => obs_consistent (snd c)) impl_cells in
      (* the property predicate is the REFERENCE machine only (never the recorded defect):
         - the characters of the cells are exactly the text of the history, in order (also after a
           malformed sequence; a panic or a short write shows as a marker cell);
         - on the longest prefix of the history whose SGR sequences are all well-formed, the faces
           are those of the reference SGR machine.
         A history with 7/27/39/49 fails this on the unchanged crate (known finding C06-inexpressible):
         such a case is suppressed by its class tag only if the model -- proved equal to the recorded
         machine, C06_semantics_recorded -- reproduces the implementation (`require_agree`). *)
      let holds :=
        chars_ok hist impl_cells
        && rcells_prefix_eqb (ref_cells (abs_face f0) (wf_prefix (map clamp_item hist))) impl_cells in
      (agree, holds)
  | KDec bytes cuts impl_dec impl_whole =>
      (ocmds_eqb (option_map fst (decode_chunks st_init (chunk_at cuts bytes))) impl_dec,
       list_eqb command_eqb impl_dec impl_whole)
  | KStream cmds cuts impl_bytes impl_dec =>
      (nlist_eqb (concat (map encode cmds)) impl_bytes
       && ocmds_eqb (option_map fst (decode_chunks st_init (chunk_at cuts impl_bytes))) impl_dec,
       stream_ok cmds impl_dec)
  end.

Definition c06_report := report c06_check.
