(* Correspondence for C10.  A case carries the view tree (one AST, built by the harness through
   the public constructors, FlexRef<Vec<FlexChild>> or JSON), the constraint, the canvas view and
   the implementation's observations: whole layout tree, canvas, surfaces handed to probe leaves,
   (constraint, size) of every traced node, find_path for a grid of positions.
   First component: the model (View/ViewModel.v) reproduces tree, canvas, probe surfaces, paths.
   Second component (specification side, plain rectangle arithmetic on the implementation's own
   layout tree): no panic; sentinels outside the window intact; sizes of the claimed view kinds
   within their constraint; every probe was handed exactly the rectangle the layout tree records
   for it (clipped by its ancestors) and its mark covers exactly that rectangle; hit-testing any
   position of that rectangle leads to the probe's node. *)
From Coq Require Import List NArith ZArith Arith Bool.
From SNT Require Export Base.Outcome Base.Report Surface.Bounds Surface.Shape Render.CellLayout Render.Writer
  View.ViewModel Corr.C09Corr.
Import ListNotations.
Local Open Scope N_scope.

Inductive vres :=
| VPanic
| VRes (tree : ltree) (canvas : list N) (probes : list (N * shape)) (cts : list (N * ct * N * N))
       (paths : list (list nat)).

Inductive c10_case :=
(* FindPath on a layout tree built by hand through the public tree API (siblings may overlap, positions
   and sizes may be huge): the paths found for every position of a 13 x 13 grid *)
| CF (t : ltree) (paths : list (list nat))
| CV (exact : bool) (H W : nat) (vops : list vop) (glyphs : bool) (cwt : list (N * nat)) (ph pw : N) (c : ct) (v : vtree)
     (impl : vres).
(* exact = false: the tree has flex factors whose f64 arithmetic the model does not reproduce (non-dyadic or
   extreme ratios); such a case is judged by the property predicate alone *)

(* ---------- equality of observations ---------- *)
Definition ct_eqb (a b : ct) : bool :=
  (c_minh a =? c_minh b) && (c_minw a =? c_minw b) && (c_maxh a =? c_maxh b) && (c_maxw a =? c_maxw b).

Definition ldata_eqb (a b : ldata) : bool :=
  match a, b with
  | DNone, DNone => true
  | DTag x, DTag y => x =? y
  | DCt x, DCt y => ct_eqb x y
  | DRef, DRef => true
  | _, _ => false
  end.

Fixpoint ltree_eqb (a b : ltree) {struct a} : bool :=
  match a, b with
  | LNode r c h w d ks, LNode r' c' h' w' d' ks' =>
      (r =? r') && (c =? c') && (h =? h') && (w =? w') && ldata_eqb d d' &&
      (fix go (x y : list ltree) {struct x} : bool :=
         match x, y with
         | [], [] => true
         | p :: x', q :: y' => ltree_eqb p q && go x' y'
         | _, _ => false
         end) ks ks'
  end.

Definition shape_eqb (a b : shape) : bool :=
  (sh_start a =? sh_start b)%nat && (sh_end a =? sh_end b)%nat && (sh_width a =? sh_width b)%nat &&
  (sh_height a =? sh_height b)%nat && (sh_rstride a =? sh_rstride b)%nat && (sh_cstride a =? sh_cstride b)%nat.

(* an empty surface is an empty surface, however it came about *)
Definition shape_same (a b : shape) : bool :=
  shape_eqb a b || (((sh_height a =? 0)%nat || (sh_width a =? 0)%nat) && ((sh_height b =? 0)%nat || (sh_width b =? 0)%nat)
                    && (sh_height a =? sh_height b)%nat && (sh_width a =? sh_width b)%nat).

Definition probes_eqb := list_eqb (fun (x y : N * shape) => (fst x =? fst y) && shape_eqb (snd x) (snd y)).
Definition paths_eqb := list_eqb (list_eqb Nat.eqb).

Definition grid (t : ltree) : list (N * N) :=
  let qh := N.min (l_hh t + 2) 14 in
  let qw := N.min (l_ww t + 2) 14 in
  flat_map (fun r => map (fun c => (N.of_nat r, N.of_nat c)) (seq 0 (N.to_nat qw))) (seq 0 (N.to_nat qh)).

(* hit-testing through the checked model: a subtraction that would underflow shows as a path no
   implementation returns *)
Definition fp (t : ltree) (q : N * N) : list nat :=
  match find_path_chk (depth t) t (fst q) (snd q) with Ok p => p | _ => [4242%nat] end.

Definition model_v (H W : nat) (vops : list vop) (vc : vctx) (c : ct) (v : vtree) : vres :=
  match layout vc v c with
  | Ok t =>
      match render vc v t (apply_chain (of_size H W) vops) (mkR (init_canvas (H * W)) []) with
      | Ok s =>
          VRes t (enc_canvas (r_data s)) (filter (fun e => fst e <? LEAF_TAG) (r_log s)) []
               (map (fp t) (grid t))
      | _ => VPanic
      end
  | _ => VPanic
  end.

Definition vres_eqb (m impl : vres) : bool :=
  match m, impl with
  | VPanic, VPanic => true
  | VRes t cv pr _ pa, VRes t' cv' pr' _ pa' =>
      ltree_eqb t t' && nlist_eqb cv cv' && probes_eqb pr pr' && paths_eqb pa pa'
  | _, _ => false
  end.

(* ---------- specification side ---------- *)
Definition within (c : ct) (h w : N) : bool :=
  (c_minh c <=? h) && (h <=? c_maxh c) && (c_minw c <=? w) && (w <=? c_maxw c).

(* kinds whose size the property claims to lie within the constraint:
   text 1, str 2, flex 3, container 4, fill 10, unit 11, image 12, glyph 13, probe 14, surface 15, image_ascii 16 *)
Definition claimed (k : N) : bool :=
  (k =? 1) || (k =? 2) || (k =? 3) || (k =? 4) || (k =? 10) || (k =? 11) || (k =? 12) || (k =? 13) || (k =? 14)
  || (k =? 15) || (k =? 16).

Fixpoint vkind (c : ct) (v : vtree) : N :=
  match v with
  | VText _ _ => 1 | VStr _ => 2 | VFlex _ _ _ => 3 | VContainer _ _ _ _ _ _ _ => 4
  | VFrame _ _ => 5 | VScrollBar _ _ _ _ _ => 6 | VTag _ _ => 7 | VNone => 8
  | VDynamic b => vkind c (b c)
  | VFill _ => 10 | VUnit => 11 | VImage _ _ _ => 12 | VGlyph _ _ _ _ => 13 | VProbe _ _ _ => 14
  | VSurface _ _ _ => 15 | VImageAscii _ _ _ => 16 | VRef _ => 17
  end.

(* rectangles in the coordinates of the surface handed to the root *)
Record rect := mkRect { rr : N; rc : N; rh : N; rw : N }.

(* Layout::apply_to in rectangle arithmetic: the part of (pos, size) inside the current surface *)
Definition rect_apply (cur : rect) (t : ltree) : rect :=
  let r0 := N.min (l_row t) (rh cur) in
  let r1 := N.min (l_row t + l_hh t) (rh cur) in
  let c0 := N.min (l_col t) (rw cur) in
  let c1 := N.min (l_col t + l_ww t) (rw cur) in
  if (r0 <? r1) && (c0 <? c1) then mkRect (rr cur + r0) (rc cur + c0) (r1 - r0) (c1 - c0)
  else mkRect 0 0 0 0.

(* the probes a rendering pass reaches, in rendering order, each with the rectangle the layout
   tree records for it (clipped by its ancestors) and the path of its layout node *)
Fixpoint expect (glyphs : bool) (v : vtree) (t : ltree) (cur : rect) (path : list nat) {struct v}
  : list (N * rect * list nat) :=
  match v with
  | VProbe id _ _ => [(id, rect_apply cur t, path)]
  | VFlex _ _ cs =>
      let sub := rect_apply cur t in
      (fix go (cs : list fchild) (ks : list ltree) (i : nat) {struct cs} : list (N * rect * list nat) :=
         match cs, ks with
         | (v', _, _, _) :: cs', k :: ks' =>
             (if (l_hh k =? 0) || (l_ww k =? 0) then [] else expect glyphs v' k sub (path ++ [i])) ++ go cs' ks' (S i)
         | _, _ => []
         end) cs (l_kids t) 0%nat
  | VContainer child _ _ _ _ _ _ =>
      match l_kids t with k :: _ => expect glyphs child k (rect_apply cur t) (path ++ [0%nat]) | [] => [] end
  | VFrame child _ =>
      if glyphs then
        match l_kids t with k :: _ => expect glyphs child k (rect_apply cur t) (path ++ [0%nat]) | [] => [] end
      else expect glyphs child t cur path
  | VTag _ child =>
      match l_kids t with k :: _ => expect glyphs child k (rect_apply cur t) (path ++ [0%nat]) | [] => [] end
  | VDynamic build =>
      match l_data t, l_kids t with
      | DCt c, k :: _ => expect glyphs (build c) k (rect_apply cur t) (path ++ [0%nat])
      | _, _ => []
      end
  | VRef (Some v') =>
      match l_data t, l_kids t with
      | DRef, k :: _ => expect glyphs v' k (rect_apply cur t) (path ++ [0%nat])
      | _, _ => []
      end
  | _ => []
  end.

Definition rect_cells (W : nat) (w0 : window) (r : rect) : list nat :=
  flat_map (fun i => map (fun j => root_index W (win_coord w0 (N.to_nat (rr r) + i) (N.to_nat (rc r) + j)))
                         (seq 0 (N.to_nat (rw r)))) (seq 0 (N.to_nat (rh r))).

Definition natlist_eqb := list_eqb Nat.eqb.

Fixpoint list_all2 {A B} (f : A -> B -> bool) (x : list A) (y : list B) : bool :=
  match x, y with
  | [], [] => true
  | a :: x', b :: y' => f a b && list_all2 f x' y'
  | _, _ => false
  end.

Definition probe_mark (id : N) : list N := [0; 61440 + id].

Definition in_rect (r : rect) (qr qc : N) : bool :=
  (rr r <=? qr) && (qr <? rr r + rh r) && (rc r <=? qc) && (qc <? rc r + rw r).

(* the path found for an absolute position, looked up in the grid of observed paths
   (positions are relative to the root node's own position) *)
Definition grid_lookup (t : ltree) (paths : list (list nat)) (qr qc : N) : option (list nat) :=
  let qh := N.min (l_hh t + 2) 14 in
  let qw := N.min (l_ww t + 2) 14 in
  if (qr <? qh) && (qc <? qw) then nth_error paths (N.to_nat (qr * qw + qc)) else None.

(* Flex lays out every child WITHOUT a usable factor (none, or a factor that is not a finite positive
   number) under the loosened constraint of the whole box: a probe leaf there reports its natural size
   cut to the box.  Checked at the root, where the constraint is known. *)
Definition nonflex_probes_sized (c : ct) (v : vtree) (t : ltree) : bool :=
  match v with
  | VFlex _ _ cs =>
      (fix go (cs : list fchild) (ks : list ltree) {struct cs} : bool :=
         match cs, ks with
         | (VProbe _ ph pw, None, _, _) :: cs', k :: ks' =>
             (l_hh k =? N.min ph (c_maxh c)) && (l_ww k =? N.min pw (c_maxw c)) && go cs' ks'
         | _ :: cs', _ :: ks' => go cs' ks'
         | _, _ => true
         end) cs (l_kids t)
  | _ => true
  end.

Definition holds_v (H W : nat) (vops : list vop) (glyphs : bool) (c : ct) (v : vtree) (impl : vres) : bool :=
  match impl with
  | VPanic => false
  | VRes t canvas probes cts paths =>
      let w0 := win_chain (win_root H W) vops in
      let full := mkRect 0 0 (N.of_nat (w_h w0)) (N.of_nat (w_w w0)) in
      let ex := expect glyphs v t full [] in
      (* sentinels *)
      outside_intact (H * W) (win_cells W w0) canvas
      && (if ct_valid c then nonflex_probes_sized c v t else true)
      (* sizes within constraints: the root, and every traced node *)
      && (if claimed (vkind c v) && ct_valid c then within c (l_hh t) (l_ww t) else true)
      && forallb (fun e : N * ct * N * N =>
                    let '(k, cc, h, w) := e in
                    if claimed k && ct_valid cc then within cc h w else true) cts
      (* probes were handed exactly their recorded rectangles, in rendering order *)
      && list_all2 (fun (e : N * rect * list nat) (p : N * shape) =>
                     (fst (fst e) =? fst p) && natlist_eqb (rect_cells W w0 (snd (fst e))) (shape_cells (snd p)))
                  ex probes
      (* every cell of a probe's rectangle carries its mark and hit-tests to its node *)
      && forallb (fun e : N * rect * list nat =>
                    let '(id, r, path) := e in
                    forallb (fun i =>
                      forallb (fun j =>
                        let qr := rr r + N.of_nat i in
                        let qc := rc r + N.of_nat j in
                        nlist_eqb (skipn 3 (cell_at canvas (root_index W (win_coord w0 (N.to_nat qr) (N.to_nat qc)))))
                                  (probe_mark id)
                        && (if (l_row t <=? qr) && (l_col t <=? qc) then
                              match grid_lookup t paths (qr - l_row t) (qc - l_col t) with
                              | Some p => natlist_eqb p path
                              | None => true
                              end
                            else true))
                        (seq 0 (N.to_nat (rw r)))) (seq 0 (N.to_nat (rh r)))) ex
      (* a probe mark never appears outside its rectangle *)
      && forallb (fun k =>
                    match skipn 3 (cell_at canvas k) with
                    | [tag; v] =>
                        if (tag =? 0) && (61440 <? v) && (v <? 61440 + 4096) then
                          existsb (fun e : N * rect * list nat =>
                                     (fst (fst e) =? v - 61440) && mem_nat k (rect_cells W w0 (snd (fst e)))) ex
                        else true
                    | _ => true
                    end) (seq 0 (H * W))
  end.

(* specification of hit-testing: at every level the path takes the FIRST child whose rectangle contains
   the (relative) position, and it ends where no child contains it *)
Definition contains_b (k : ltree) (r c : N) : bool :=
  (l_col k <=? c) && (c <? N.min (l_col k + l_ww k) (UMAX + 1)) && (l_row k <=? r) && (r <? N.min (l_row k + l_hh k) (UMAX + 1)).

Fixpoint follows_b (fuel : nat) (t : ltree) (r c : N) (path : list nat) : bool :=
  match fuel with
  | O => false
  | S f =>
      match path with
      | [] => forallb (fun k => negb (contains_b k r c)) (l_kids t)
      | i :: rest =>
          forallb (fun k => negb (contains_b k r c)) (firstn i (l_kids t))
          && match nth_error (l_kids t) i with
             | Some k => contains_b k r c && follows_b f k (r - l_row k) (c - l_col k) rest
             | None => false
             end
      end
  end.

Definition fgrid : list (N * N) :=
  flat_map (fun r => map (fun c => (N.of_nat r, N.of_nat c)) (seq 0 13)) (seq 0 13).

Definition c10_check (cs : c10_case) : bool * bool :=
  match cs with
  | CF t paths =>
      ( paths_eqb (map (fp t) fgrid) paths,
        (length paths =? length fgrid)%nat
        && forallb (fun qp : (N * N) * list nat => follows_b (S (depth t)) t (fst (fst qp)) (snd (fst qp)) (snd qp))
                   (combine fgrid paths) )
  | CV exact H W vops glyphs cwt ph pw c v impl =>
      let vc := mkV (mkCtx glyphs cwt dfa0 []) ph pw exact_share (fun i => 1000 + N.of_nat i) in
      ((if exact then vres_eqb (model_v H W vops vc c v) impl else true), holds_v H W vops glyphs c v impl)
  end.

Definition c10_report := report c10_check.
