(* Correspondence for C12.  A case is one SixelImageHandler, a list of source images
   and a history of operations on it: draws (image number, bytes the implementation wrote,
   cache state after), cache-size overrides (DSize), erase / handle (DNop: no bytes, cache
   untouched) and draws into a writer that fails after `limit` bytes (DFail: a prefix of the
   cached bytes on a hit; on a miss at most `limit` bytes and nothing cached).
   First component: the bytes of a first draw equal the model's bytes under the
   colour-strip order observed in those very bytes (a std HashMap iteration order,
   which the model takes as a parameter and checks to be an enumeration of the colours
   present in each band); a repeated draw equals the cached bytes.
   Second component (specification side): the REFERENCE INTERPRETER decodes the
   implementation's bytes to one well-formed picture of the declared size w x (h - h mod 6),
   every pixel painted, none outside, <= 256 registers; if the source has <= 256
   distinct colours at 0..100 resolution the picture equals the source at that
   resolution; a repeated draw is byte-identical to the first. *)
From Coq Require Import List NArith Bool FMapPositive.
From SNT Require Export Base.Report Base.Outcome Image.KDTree Image.Octree Image.Quantize Image.Sixel
     Image.SixelDraw Image.SixelCache Image.SixelFast Image.SixelFastProofs Image.SrgbSpec Gen.TabSixel.
Import ListNotations.
Local Open Scope N_scope.

(* the colour selections of every band, read off the bytes: `#Pc` with a single parameter *)
Record scan := mkScan { sc_in : bool; sc_nparams : nat; sc_cur : N; sc_band : list N; sc_bands : list (list N) }.

Definition scan_flush (s : scan) : scan :=
  if sc_in s then
    mkScan false 0 0 (if Nat.eqb (sc_nparams s) 0 then sc_cur s :: sc_band s else sc_band s) (sc_bands s)
  else s.

Definition scan_step (s : scan) (b : N) : scan :=
  if sc_in s && is_digit b then mkScan true (sc_nparams s) (sc_cur s * 10 + (b - 48)) (sc_band s) (sc_bands s)
  else if sc_in s && (b =? c_semi) then mkScan true (S (sc_nparams s)) 0 (sc_band s) (sc_bands s)
  else
    let s' := scan_flush s in
    if b =? c_hash then mkScan true 0 0 (sc_band s') (sc_bands s')
    else if b =? c_minus then mkScan false 0 0 [] (rev (sc_band s') :: sc_bands s')
    else s'.

Definition observed_orders (bytes : list N) : list (list N) :=
  rev (sc_bands (fold_left scan_step bytes (mkScan false 0 0 [] []))).

Definition img_rect (rows : list (list spx)) : bool :=
  match rows with
  | [] => true
  | r :: _ => forallb (fun x => Nat.eqb (length x) (length r)) rows
  end.

Definition model_bytes (rows : list (list spx)) (impl : list N) : outcome (list N) :=
  sixel_draw rows (observed_orders impl).

Definition first_draw_agrees (rows : list (list spx)) (impl : list N) : bool :=
  img_rect rows &&
  match quantize (sixel_eff rows) sixel_palette_size sixel_dither with
  | Ok (pal, q) =>
      (* = sixel_draw rows (observed_orders impl), without quantising a second time *)
      orders_ok q (observed_orders impl) &&
      match sixel_encode pal q (N.to_nat (img_width (sixel_eff rows))) (observed_orders impl) with
      | Ok m => nlist_eqb m impl
      | _ => false
      end
  | Err _ => match impl with [] => true | _ => false end
  | _ => false
  end.

Definition first_draw_holds (rows : list (list spx)) (impl : list N) : bool :=
  let r6 := rows6 rows in
  let h := N.of_nat (length r6) in
  let w := match r6 with r :: _ => N.of_nat (length r) | [] => 0 end in
  if (h =? 0) || (w =? 0) then true            (* height < 6 or no columns: outside the quantifier *)
  else if negb (img_rect rows) then false       (* a harness error *)
  else
    match sixel_decode impl with
    | None => false
    | Some p =>
        picture_ok_fast w h p &&
        (if (if sample_of (sixel_eff rows) 256 <? 2 then distinct100_fast rows <=? 256 else false)
         then picture_eq_fast w (sixel_src100 rows) p else true)
    end.

(* ---------- cropped views ---------- *)

Definition spx_eqb (a b : spx) : bool :=
  match a, b with
  | Opaque c, Opaque d => rgb_eqb c d
  | Transp c x bl, Transp d y bm => rgb_eqb c d && (x =? y) && rgb_eqb bl bm
  | _, _ => false
  end.

Definition rows_eqb : list (list spx) -> list (list spx) -> bool := list_eqb (list_eqb spx_eqb).

(* specification side: what was written for a picture of the same content before *)
Fixpoint drawn_before (rows : list (list spx)) (seen : list (list (list spx) * list N)) : option (list N) :=
  match seen with
  | [] => None
  | (r, b) :: rest => if rows_eqb r rows then Some b else drawn_before rows rest
  end.

(* one handler.  Model side: the handler's cache as modelled in Image/SixelCache.v (LRU list,
   eviction above the regenerated IMAGE_CACHE_SIZE), keyed by the content hash the harness
   observed for each image (Surface::hash): a hit must return the cached bytes, a miss must
   be the encoding of the view under the observed strip order.  Specification side: EVERY
   draw must decode to the view it was given, and a draw of a view whose content was drawn
   before must repeat those bytes. *)
(* what was done to the handler: a draw (image number, bytes written, then the accounted cache
   size and number of entries, read through the verif-hooks accessor), or the hook that
   overrides the accounted size so that the eviction loop is reached *)
Inductive dop :=
| DDraw (k : nat) (bytes : list N) (size : N) (entries : nat)
| DSize (n : N)
| DNop (bytes : list N) (size : N) (entries : nat)
    (* erase / handle: a sixel handler writes nothing and keeps its state *)
| DFail (k : nat) (limit : nat) (written : list N) (size : N) (entries : nat).
    (* draw into a writer that accepted `limit` bytes and then failed; draw returned Err *)

Fixpoint run_draws (imgs : list (list (list spx) * N)) (st : hstate)
         (seen : list (list (list spx) * list N))
         (draws : list dop) : bool * bool :=
  match draws with
  | [] => (true, true)
  | DSize n :: r => run_draws imgs (fst st, n) seen r
  | DNop bytes size entries :: r =>
      let ok := match bytes with [] => true | _ => false end in
      let a := ok && (snd st =? size) && Nat.eqb (length (fst st)) entries in
      let '(a', h') := run_draws imgs st seen r in
      (a && a', ok && h')
  | DFail k limit written size entries :: r =>
      (* the sequence is assembled in memory and written with one write_all BEFORE it is cached:
         a failed write of a fresh image leaves the cache untouched (the next draw encodes and
         writes the whole image again); a failed write of a cached image has only promoted it *)
      let '(rows, key) := nth k imgs ([], 0) in
      let st' := match c_find key (fst st) with
                 | Some b => snd (hdraw sixel_cache_limit st key (Some b))
                 | None => st
                 end in
      let a :=
        match c_find key (fst st) with
        | Some b => nlist_eqb (firstn limit b) written
        | None => Nat.leb (length written) limit
        end && (snd st' =? size) && Nat.eqb (length (fst st')) entries in
      let '(a', h') := run_draws imgs st' seen r in
      (a && a', h')
  | DDraw k impl size entries :: r =>
      let '(rows, key) := nth k imgs ([], 0) in
      let st' := snd (hdraw sixel_cache_limit st key (match impl with [] => None | _ => Some impl end)) in
      let a :=
        match c_find key (fst st) with
        | Some bytes => nlist_eqb bytes impl
        | None => first_draw_agrees rows impl
        end && (snd st' =? size) && Nat.eqb (length (fst st')) entries in
      let h :=
        (* "again emits identical bytes" is required while the entry is cached (the LRU semantics of
           Image/SixelCache.v: C12_repeat_while_cached); an evicted image may be re-encoded under
           another strip order and must then only decode to its view *)
        match drawn_before rows seen, c_find key (fst st) with
        | Some bytes, Some _ => nlist_eqb bytes impl
        | _, _ => first_draw_holds rows impl
        end in
      let '(a', h') := run_draws imgs st' ((rows, impl) :: seen) r in
      (a && a', h && h')
  end.

(* the compositing oracle values (rasterize blend_over, supplied by the harness) are bounded
   against the exact linear-light mix of Image/SrgbSpec.v *)
Definition px_blend_ok (bg : N * N * N * N) (p : spx) : bool :=
  match p with
  | Opaque _ => true
  | Transp c a bl => blend_ok bg c a bl
  end.

Definition parents_blend_ok (bg : N * N * N * N) (parents : list (list (list spx))) : bool :=
  forallb (forallb (forallb (px_blend_ok bg))) parents.

(* run-length notation for the rows of large parents in case files (parsing cost only) *)
Fixpoint unrle (l : list (nat * spx)) : list spx :=
  match l with
  | [] => []
  | (n, p) :: r => repeat p n ++ unrle r
  end.

Inductive c12_case :=
  SIX (bg : N * N * N * N)            (* the handler's background (black, opaque when not configured) *)
      (parents : list (list (list spx)))
      (imgs : list (nat * option (nat * nat * nat * nat) * N))  (* parent number, crop, observed content hash *)
      (draws : list dop).

Definition c12_check (c : c12_case) : bool * bool :=
  match c with
  | SIX bg parents imgs draws =>
      let '(a, h) := run_draws (map (fun i => (view_rows (nth (fst (fst i)) parents []) (snd (fst i)), snd i)) imgs) ([], 0) [] draws in
      (a, h && parents_blend_ok bg parents)
  end.

Definition c12_report := report c12_check.
