(* C04 correspondence: cases written by harness/src/c04.rs. *)
From Coq Require Import List NArith Bool.
From SNT Require Export Base.Report Render.FaceModel Decoder.SgrRef Decoder.EvModel Decoder.Printer Decoder.EvProd.
Import ListNotations.
Local Open Scope N_scope.

Definition kname_eqb (a b : kname) : bool :=
  match a, b with
  | KF x, KF y | KChar x, KChar y => x =? y
  | KEsc, KEsc | KEnter, KEnter | KTab, KTab | KBackspace, KBackspace | KDelete, KDelete
  | KInsert, KInsert | KDown, KDown | KEnd, KEnd | KHome, KHome | KLeft, KLeft
  | KPageDown, KPageDown | KPageUp, KPageUp | KRight, KRight | KUp, KUp => true
  | _, _ => false
  end.
Definition mname_eqb (a b : mname) : bool :=
  match a, b with
  | MLeft, MLeft | MMiddle, MMiddle | MRight, MRight | MMove, MMove
  | MWheelDown, MWheelDown | MWheelUp, MWheelUp => true
  | _, _ => false
  end.
Definition tcolor_eqb (a b : tcolor) : bool :=
  match a, b with
  | TFg, TFg | TBg, TBg => true
  | TPalette i, TPalette j => i =? j
  | _, _ => false
  end.
Definition obytes_eqb (a b : option (list N)) : bool := opt_eqb nlist_eqb a b.

Definition tev_eqb (a b : tev) : bool :=
  match a, b with
  | EKey k m, EKey k' m' => kname_eqb k k' && (m =? m')
  | EMouse n m r c, EMouse n' m' r' c' => mname_eqb n n' && (m =? m') && (r =? r') && (c =? c')
  | ECursor r c, ECursor r' c' => (r =? r') && (c =? c')
  | ESize a1 a2 a3 a4, ESize b1 b2 b3 b4 => (a1 =? b1) && (a2 =? b2) && (a3 =? b3) && (a4 =? b4)
  | EDecMode m s, EDecMode m' s' => (m =? m') && (s =? s')
  | EDevAttrs l, EDevAttrs l' => nlist_eqb l l'
  | EKittyImage i p e, EKittyImage i' p' e' => (i =? i') && opt_eqb N.eqb p p' && obytes_eqb e e'
  | EKeyLevel n, EKeyLevel n' => n =? n'
  | EColor n c, EColor n' c' => tcolor_eqb n n' && rgba_eqb c c'
  | ETermcap l, ETermcap l' =>
      list_eqb (fun x y => nlist_eqb (fst x) (fst y) && obytes_eqb (snd x) (snd y)) l l'
  | EFaceGet f, EFaceGet f' => face_eqb f f'
  | EFaceModify m, EFaceModify m' => face_modify_eqb m m'
  | EPaste t, EPaste t' => nlist_eqb t t'
  | ERaw t, ERaw t' => nlist_eqb t t'
  | _, _ => false
  end.

Fixpoint list_eqb2 {A B} (eqb : A -> B -> bool) (x : list A) (y : list B) : bool :=
  match x, y with
  | [], [] => true
  | a :: x', b :: y' => eqb a b && list_eqb2 eqb x' y'
  | _, _ => false
  end.

Inductive c04_case :=
(* the reports printed one after the other (bytes as printed by the harness' mirror of the
   printer), fed to TTYEventDecoder in chunks; the events it returned *)
| KSeq (rs : list report) (bytes : list N) (impl : list tev)
(* arbitrary bytes: model agreement; property predicate `parse_ok` on simple streams *)
| KBytes (bytes : list N) (impl : list tev).

(* Arbitrary bytes, specification side: when the stream contains none of the bytes `;` `u` `~` (so no parsed key
   matcher -- kitty CSI .. u, modified keys CSI n ; m X -- can have produced a key) and the decoder returns only key
   and raw events, the events must be a PARSE of the stream: each event is denoted by some byte string -- an entry of
   the key table with that name, the UTF-8 form of a plain character, the bytes of a raw event -- and these strings,
   in the order of the events, are a prefix of the stream (the rest is still pending).  Nothing is dropped, invented
   or reordered when a sequence breaks off ("never corrupted by its neighbours"). *)
Fixpoint prefix_eqb (w s : list N) : bool :=
  match w, s with
  | [], _ => true
  | a :: w', b :: s' => (a =? b) && prefix_eqb w' s'
  | _ :: _, [] => false
  end.
Definition key_candidates (k : kname) (m : N) : list (list N) :=
  map fst (filter (fun e : list N * (kname * N) => kname_eqb (fst (snd e)) k && (snd (snd e) =? m)) prod_key_table)
  ++ match k with KChar c => if m =? 0 then [FaceEnc.utf8_encode c] else [] | _ => [] end.
Fixpoint parse_ok (evs : list tev) (input : list N) : bool :=
  match evs with
  | [] => true
  | ERaw w :: r => prefix_eqb w input && parse_ok r (skipn (length w) input)
  | EKey k m :: r =>
      existsb (fun w => match w with
                        | [] => false
                        | _ => prefix_eqb w input && parse_ok r (skipn (length w) input)
                        end) (key_candidates k m)
  | _ :: _ => true
  end.
Definition simple_stream (bytes : list N) (evs : list tev) : bool :=
  forallb (fun b => negb ((b =? 59) || (b =? 117) || (b =? 126))) bytes
  && forallb (fun e => match e with EKey _ _ | ERaw _ => true | _ => false end) evs.

Definition c04_check (c : c04_case) : bool * bool :=
  match c with
  | KSeq rs bytes impl =>
      let model := prod_decode_fast bytes in
      (nlist_eqb (concat (map print rs)) bytes && list_eqb tev_eqb model impl,
       (* property predicate: every well-formed self-delimiting report decodes to what it denotes *)
       negb (forallb prod_wf rs)
       || list_eqb2 (fun r ev => match r, ev with
                                  (* faces: the reference SGR machine only; a report with 7/27/39/49 fails this on
                                     the unchanged crate (known finding) and is suppressed by its class tag only when
                                     the model -- proved equal to the recorded machine -- reproduces the implementation *)
                                  | RSgr p, EFaceModify m => sgr_event_ok p m
                                  | RSgr _, _ => false
                                  | _, _ => tev_eqb (prod_denote r) ev
                                  end) rs impl)
  | KBytes bytes impl =>
      (list_eqb tev_eqb (prod_decode_fast bytes) impl, negb (simple_stream bytes impl) || parse_ok impl bytes)
  end.

Definition c04_report := SNT.Base.Report.report c04_check.
