(* Correspondence for C19: cases written by harness/src/c19.rs carry what
   serde_json::{to_value, from_value, from_str} and Display / FromStr did on
   the real types. *)
From Coq Require Import String.
From Coq Require Import List NArith ZArith Bool.
From SNT Require Export Base.Outcome Base.Report Keys.KeyParse Encoder.Base64
  Serde.Json Serde.ImageDe Serde.FaceStr Serde.ViewDe Serde.ViewTree.
Import ListNotations.
Local Open Scope N_scope.

Definition rgba_eqb (a b : rgba) : bool :=
  let '(r, g, bl, al) := a in let '(r', g', bl', al') := b in
  (r =? r') && (g =? g') && (bl =? bl') && (al =? al').

Definition opt_eqb {A} (e : A -> A -> bool) (a b : option A) : bool :=
  match a, b with
  | None, None => true
  | Some x, Some y => e x y
  | _, _ => false
  end.

Definition jnum_eqb (a b : jnum) : bool :=
  match a, b with
  | NU x, NU y => x =? y
  | NI x, NI y => Z.eqb x y
  | NF x, NF y => x =? y
  | _, _ => false
  end.

Fixpoint json_eqb (a b : json) : bool :=
  match a, b with
  | JNull, JNull => true
  | JBool x, JBool y => Bool.eqb x y
  | JNum x, JNum y => jnum_eqb x y
  | JStr x, JStr y => str_eqb x y
  | JArr x, JArr y =>
      (fix go (x y : list json) : bool :=
         match x, y with
         | [], [] => true
         | p :: x', q :: y' => json_eqb p q && go x' y'
         | _, _ => false
         end) x y
  | JObj x, JObj y =>
      (fix go (x y : list (str * json)) : bool :=
         match x, y with
         | [], [] => true
         | (k, p) :: x', (k', q) :: y' => str_eqb k k' && json_eqb p q && go x' y'
         | _, _ => false
         end) x y
  | _, _ => false
  end.

(* ------------------------------------------------------------- images *)

Inductive ires := IOk (h w : N) (pix : list rgba) | IErr | IPanic.

Definition ires_eqb (a b : ires) : bool :=
  match a, b with
  | IOk h w p, IOk h' w' p' => (h =? h') && (w =? w') && list_eqb rgba_eqb p p'
  | IErr, IErr => true
  | IPanic, IPanic => true
  | _, _ => false
  end.

Definition ires_of (o : outcome image) : ires :=
  match o with
  | Ok i => IOk (i_h i) (i_w i) (i_pix i)
  | Err _ => IErr
  | Panic _ => IPanic
  | OutOfFuel => IPanic
  end.

(* ------------------------------------------------------------- faces *)

Inductive fres := FOk (f : face) | FErr | FPanic.

Definition face_eqb (a b : face) : bool :=
  opt_eqb rgba_eqb (f_fg a) (f_fg b) && opt_eqb rgba_eqb (f_bg a) (f_bg b) && (f_attrs a =? f_attrs b).

Definition fres_eqb (a b : fres) : bool :=
  match a, b with
  | FOk x, FOk y => face_eqb x y
  | FErr, FErr => true
  | FPanic, FPanic => true
  | _, _ => false
  end.

Definition fres_of (o : outcome face) : fres :=
  match o with Ok f => FOk f | Err _ => FErr | _ => FPanic end.

Fixpoint table_rgba (tbl : list (str * option rgba)) (s : str) : option rgba :=
  match tbl with
  | [] => None
  | (a, r) :: rest => if str_eqb s a then r else table_rgba rest s
  end.

(* the one fact assumed of the external RGBA parser beyond the modelled hex form: none *)

(* ------------------------------------------------------------- sizes, chords *)

Inductive sres := SOk (h w : N) | SErr | SPanic.
Definition sres_eqb (a b : sres) : bool :=
  match a, b with
  | SOk h w, SOk h' w' => (h =? h') && (w =? w')
  | SErr, SErr => true
  | SPanic, SPanic => true
  | _, _ => false
  end.
Definition sres_of (o : option (N * N)) : sres :=
  match o with Some (h, w) => SOk h w | None => SErr end.

Definition key_eqb (a b : key) : bool :=
  match key_cmp a b with Eq => true | _ => false end.

Inductive cres := COk (ks : list key) | CErr | CPanic.
Definition cres_eqb (a b : cres) : bool :=
  match a, b with
  | COk x, COk y => list_eqb key_eqb x y
  | CErr, CErr => true
  | CPanic, CPanic => true
  | _, _ => false
  end.
Definition cres_of (o : outcome (list key)) : cres :=
  match o with Ok k => COk k | Err _ => CErr | _ => CPanic end.

Definition chord_de (lower : str -> str) (j : json) : cres := cres_of (chord_de_json lower j).
Definition face_de (oracle : str -> option rgba) (j : json) : fres := fres_of (face_de_json oracle j).

(* ------------------------------------------------------------- views *)

Inductive vres :=
| VOk (layout_render_ok : bool)    (* deserialised; laid out and rendered without panic (in a child process) *)
| VErr
| VPanic.

Definition vres_agree (m : outcome unit) (i : vres) : bool :=
  match m, i with
  | Ok _, VOk _ => true
  | Err _, VErr => true
  | Panic _, VPanic => true
  | _, _ => false
  end.

(* the values of every entry with key k of an object, in document order (repeats kept) *)
Definition entries (j : json) (k : str) : list json :=
  match j with
  | JObj m => map snd (filter (fun p => str_eqb (fst p) k) m)
  | _ => []
  end.
Definition entry_strs (j : json) (k : str) : list str :=
  flat_map (fun v => match v with JStr s => [s] | _ => [] end) (entries j k).
Definition last_entry (j : json) (k : str) : option json := List.last (map Some (entries j k)) None.

(* ------------------------------------------------------------- cases *)

Inductive c19_case :=
| CImage (doc : json) (impl : ires)
    (* Image::deserialize on the document (pairs in the order the deserializer delivered them) *)
| CImageRT (h w : N) (pix : list rgba) (ser : json) (back : ires)
    (* an image (possibly a cropped view) with these pixels: to_value, then from_value *)
| CImageCh (c h w : N) (parts : list (list N)) (doc : json) (impl : ires)
    (* a streamed document in the c-channel layout: its `data` entries, in document order, are the base64
       of `parts` (a repeated `data` key appends); `size` / `channels` may be repeated too (the last one
       counts) *)
| CFace (f : face) (printed : str) (reparsed : fres) (ser : json) (back : fres)
    (* Display, FromStr of it, to_value, from_value *)
| CFaceParse (s : str) (tbl : list (str * option rgba)) (impl : fres) (printed : str) (reparsed : fres)
    (* Face::from_str of an arbitrary string; when it is accepted: Display of the result and FromStr of that *)
| CSize (h w : N) (ser : json) (back : sres)
| CSizeDe (doc : json) (impl : sres)
| CChord (ks : list key) (tbl : list (str * str)) (printed : str) (ser : json) (back : cres)
    (* a chord accepted by the parser: Display, to_value, from_value *)
| CChordDe (doc : json) (tbl : list (str * str)) (impl : cres)
| CView (kind : vkind) (cfg : bool) (doc : json) (orc : list (N * json * bool)) (ftbl : list (str * option rgba))
        (impl : vres) (sk : option skel).
    (* view / text / glyph deserialisation; orc = answers of the external deserialisers
       (path, scene, bbox, fill rule, f64, frame numbers) on the sub-values they were asked about;
       cfg = the deserialiser was given a cache (uid 7 = a container around a text) and a handler "custom";
       sk = the shape of the layout tree of the deserialised view (one node per layout node) *)

Definition handlers_of (cfg : bool) : str -> bool :=
  if cfg then (fun t => str_eqb t (s2l "custom")) else no_handlers.

Definition c19_check (c : c19_case) : bool * bool :=
  match c with
  | CImage doc impl =>
      (ires_eqb (ires_of (image_de doc)) impl, negb (ires_eqb impl IPanic))
  | CImageRT h w pix ser back =>
      let img := {| i_h := h; i_w := w; i_pix := pix |} in
      (json_eqb (image_ser img) ser && ires_eqb (ires_of (image_de ser)) back,
       ires_eqb back (IOk h w pix))
  | CImageCh ch h w parts doc impl =>
      let data := concat parts in
      (ires_eqb (ires_of (image_de doc)) impl,
       negb (ires_eqb impl IPanic)
       && (if (N.of_nat (length data) =? ch * h * w) && channels_ok ch && (ch * h * w <? usize_lim)
              (* the document says what the case says: data entries = base64 of the parts, in order;
                 every size entry is a size and the last one is (h, w); every channels entry is 1, 3 or 4
                 and the last one is ch (none at all: 3) *)
              && list_eqb str_eqb (entry_strs doc (s2l "data")) (map rfc4648 parts)
              && forallb (fun v => match v with JStr _ => true | _ => false end) (entries doc (s2l "data"))
              && forallb (fun v => match de_size v with Some _ => true | None => false end) (entries doc (s2l "size"))
              && opt_eqb (fun a b => (fst a =? fst b) && (snd a =? snd b))
                         (match last_entry doc (s2l "size") with Some v => de_size v | None => None end) (Some (h, w))
              && forallb (fun v => match de_usize v with Some x => channels_ok x | None => false end) (entries doc (s2l "channels"))
              && opt_eqb N.eqb (match last_entry doc (s2l "channels") with Some v => de_usize v | None => Some 3 end) (Some ch)
           then ires_eqb impl (IOk h w (pixels_of ch data))
           else true))
  | CFace f printed reparsed ser back =>
      (str_eqb (face_print f) printed
       && fres_eqb (fres_of (face_parse (fun _ => None) printed)) reparsed
       && json_eqb ser (face_ser f)
       && fres_eqb (face_de (fun _ => None) ser) back,
       fres_eqb reparsed (FOk f) && fres_eqb back (FOk f))
  | CFaceParse s tbl impl printed reparsed =>
      (fres_eqb (fres_of (face_parse (table_rgba tbl) s)) impl
       && match impl with
          | FOk f => str_eqb (face_print f) printed
                     && fres_eqb (fres_of (face_parse (table_rgba tbl) printed)) reparsed
          | _ => true
          end,
       (* never a panic, and a face the parser produced prints to text that parses back to the same face *)
       negb (fres_eqb impl FPanic)
       && match impl with
          | FOk f => fres_eqb reparsed (FOk f)
          | _ => true
          end)
  | CSize h w ser back =>
      (json_eqb (ser_size (h, w)) ser && sres_eqb (sres_of (de_size ser)) back,
       sres_eqb back (SOk h w))
  | CSizeDe doc impl =>
      (sres_eqb (sres_of (de_size doc)) impl, negb (sres_eqb impl SPanic))
  | CChord ks tbl printed ser back =>
      (str_eqb (print_chord ks) printed && json_eqb ser (chord_ser ks)
       && cres_eqb (chord_de (table_lower tbl) ser) back,
       cres_eqb back (COk ks))
  | CChordDe doc tbl impl =>
      (cres_eqb (chord_de (table_lower tbl) doc) impl, negb (cres_eqb impl CPanic))
  | CView kind cfg doc orc ftbl impl sk =>
      (vres_agree (view_de_kind (table_orc json_eqb orc) (table_rgba ftbl) (handlers_of cfg) kind doc) impl
       (* the view tree of the model has the shape of the real view's layout tree *)
       && match impl, sk with
          | VOk _, Some k =>
              match view_tree (table_orc json_eqb orc) (table_rgba ftbl) (content0 cfg) (handlers_of cfg) kind doc with
              | Ok v => skel_fits v k
              | _ => false
              end
          (* a view that deserialised has a layout tree: the model's layout returns one for every valid
             constraint (C10_layout_total through C19_total), so a missing skeleton -- View::layout under the
             loose 5 x 20 constraint failed or panicked -- is a disagreement with the model as well *)
          | VOk _, None => false
          | _, _ => true
          end,
       match impl with VOk ok => ok | VErr => true | VPanic => false end)
  end.

Definition c19_report := report c19_check.
