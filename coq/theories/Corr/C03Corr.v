(* Correspondence for C03.  Two kinds of cases, both produced by harness/src/c03.rs:

   Gen   the private MatcherDecoder instantiated over a caller-supplied pattern
         set (hook verif::Tokenizer).  The DFA the crate compiled for the
         patterns is part of the case (Tokenizer::dump), so the check does not
         depend on a model of the subset construction.
   Prod  the public TTYEventDecoder (0) / TTYCommandDecoder (1) over the
         regenerated production DFAs (Gen/ProdDFA.v).  What a payload decoder
         makes of a matched span is not C03's business: the case carries a
         table  span -> interned rendering  filled by the harness from the
         crate's own payload decoders (verif::decode_with) for every accepted
         substring of the stream; events are compared by interned code.
   Utf8  the standalone Utf8Decoder (chars as code points, IT c []; errors as RW []): the model is
         the machine of Decoder/Events.v (u8_feed, proved chunking independent and total under
         C02); the specification is declarative: from the current position take the shortest
         prefix on which UTF8DFA stops (dead or accepting, searched with Tokenizer.first_stop);
         accepting = a character if the assembled code is a scalar value, otherwise an error that
         consumes the prefix INCLUDING the byte that killed it (decoder.rs:121-127).

   Every case lists several runs of the same stream under different partitions
   into reads (chunk lengths) with the tokens the implementation produced.
   First component: the model of the incremental decoder, fed the same chunks,
   produces the same tokens.  Second component (the property predicate,
   computed from the specification `munch` only): the implementation's tokens
   under every partition are the leftmost-longest tokenisation of the stream. *)
From Coq Require Import List NArith Arith Bool.
From SNT Require Export Base.Outcome Base.Report Automata.DfaData Automata.Tokenizer Gen.ProdDFA
  Decoder.Payload Decoder.Events Automata.Regex.
Import ListNotations.
Local Open Scope N_scope.

Inductive itok := IT (idx : N) (bytes : list N) | RW (bytes : list N).

Definition itok_eqb (a b : itok) : bool :=
  match a, b with
  | IT i x, IT j y => (i =? j) && nlist_eqb x y
  | RW x, RW y => nlist_eqb x y
  | _, _ => false
  end.

(* None = the implementation panicked *)
Definition out := option (list itok).
Definition out_eqb (a b : out) : bool :=
  match a, b with
  | Some x, Some y => list_eqb itok_eqb x y
  | None, None => true
  | _, _ => false
  end.

Definition run_rec := (list nat * out)%type.

Inductive c03_case :=
| Gen (pats : list (regex * bool * bool)) (d : dfa_data) (input : list N) (runs : list run_rec)
      (* the patterns: regular expression (Automata/Regex.v), registered as literal item, decoder rejects odd-length matches *)
| Prod (which : N) (input : list N) (table : list (list N * option N)) (runs : list run_rec)
       (steps : option (list nat))   (* reader position after each decode() that returned an event, whole stream in one reader *)
| Utf8 (input : list N) (runs : list run_rec).

Fixpoint split_by (cuts : list nat) (s : list N) : list (list N) :=
  match cuts with
  | [] => []
  | n :: r => firstn n s :: split_by r (skipn n s)
  end.

Definition cuts_ok (cuts : list nat) (s : list N) : bool :=
  Nat.eqb (fold_right Nat.add 0%nat cuts) (length s).

Section Inst.
  Variable d : dfa.
  Context {Item : Type}.
  Variable decode_item : N -> list N -> option Item.
  Variable render : tok Item -> itok.

  Definition model_run (input : list N) (cuts : list nat) : out :=
    match feed N Item (d_start d) (d_delta d) (d_accepting d) (d_terminal d) decode_item
               (length input + 3) (init (d_start d)) (split_by cuts input) with
    | Ok (ts, _) => Some (map render ts)
    | _ => None
    end.

  Definition spec_run (input : list N) : out :=
    Some (map render (fst (munch N Item (d_start d) (d_delta d) (d_accepting d) (d_terminal d) decode_item input))).

  Definition check_runs (input : list N) (runs : list run_rec) : bool * bool :=
    ( forallb (fun r : run_rec => out_eqb (model_run input (fst r)) (snd r)) runs,
      let spec := spec_run input in
      forallb (fun r : run_rec => cuts_ok (fst r) input && out_eqb spec (snd r)) runs ).
End Inst.

(* Reader positions.  `decode` is called on one reader holding the whole stream until it returns
   None; after each returned event the reader position is recorded.  This makes the bytes consumed by
   ITEMS observable (their spans are not part of the events): model = the `rest` returned by the
   model's decode; specification = from `munch`: token k starting at offset o_k is decided when the
   automaton stops, first_stop bytes after o_k, and bytes already read are never read again. *)
Definition olist_eqb (a b : option (list nat)) : bool :=
  match a, b with
  | Some x, Some y => list_eqb Nat.eqb x y
  | None, None => true
  | _, _ => false
  end.

Section Steps.
  Variable d : dfa.
  Context {Item : Type}.
  Variable decode_item : N -> list N -> option Item.

  Fixpoint model_steps_aux (fuel : nat) (s : st N Item) (input : list N) (total : nat) : option (list nat) :=
    match fuel with
    | O => None
    | S f =>
        match decode N Item (d_start d) (d_delta d) (d_accepting d) (d_terminal d) decode_item s input with
        | Ok (s', Some _, rest) =>
            match model_steps_aux f s' rest total with
            | Some l => Some ((total - length rest)%nat :: l)
            | None => None
            end
        | Ok (_, None, _) => Some []
        | _ => None
        end
    end.
  Definition model_steps (input : list N) : option (list nat) :=
    model_steps_aux (length input + 3) (init (d_start d)) input (length input).

  Fixpoint spec_steps_aux (toks : list (tok Item)) (s : list N) (off prev : nat) : list nat :=
    match toks with
    | [] => []
    | t :: r =>
        let n := match first_stop N (d_start d) (d_delta d) (d_accepting d) (d_terminal d) s with
                 | Some n => n | None => O end in
        let p := Nat.max prev (off + n) in
        p :: spec_steps_aux r (skipn (length (span t)) s) (off + length (span t)) p
    end.
  Definition spec_steps (input : list N) : list nat :=
    spec_steps_aux (fst (munch N Item (d_start d) (d_delta d) (d_accepting d) (d_terminal d) decode_item input))
                   input 0 0.
End Steps.

(* what the PROPERTY says about reader positions (second component): the events are delivered in stream
   order without reading backwards, an event is not returned before the bytes of its span have been read,
   and nothing beyond the reader is touched.  How far the decoder reads AHEAD before it returns an event
   (it returns as soon as the automaton stops) is behaviour of the code: compared with the model in the
   first component only (`spec_steps` is kept as documentation of that behaviour). *)
Definition steps_sane (d : dfa) {Item} (decode_item : N -> list N -> option Item) (input : list N)
    (steps : option (list nat)) : bool :=
  match steps with
  | None => false
  | Some l =>
      let spans := map span (fst (munch N Item (d_start d) (d_delta d) (d_accepting d) (d_terminal d) decode_item input)) in
      Nat.eqb (length l) (length spans)
      && (fix go (l : list nat) (spans : list (list N)) (off prev : nat) : bool :=
            match l, spans with
            | p :: l', sp :: spans' =>
                let e := (off + length sp)%nat in
                Nat.leb prev p && Nat.leb e p && Nat.leb p (length input) && go l' spans' e p
            | _, _ => true
            end) l spans 0%nat 0%nat
  end.

(* Gen: items are (pattern index, matched bytes); patterns registered as literal items carry no bytes;
   a pattern may be registered with a decoder that rejects matches of odd length *)
Definition rejects_of (pats : list (regex * bool * bool)) (i : N) : bool :=
  match nth_error pats (N.to_nat i) with Some (_, _, r) => r | None => false end.
Definition gen_item (pats : list (regex * bool * bool)) (d : dfa) (q : N) (buf : list N) : option (N * list N) :=
  match d_tag d q with
  | Some (true, k) => Some (k, [])
  | Some (false, i) => if rejects_of pats i && Nat.odd (length buf) then None else Some (i, buf)
  | None => None        (* the code panics here; excluded by `tagged_ok` in the check *)
  end.
Definition gen_render (t : tok (N * list N)) : itok :=
  match t with
  | TItem (i, bs) _ => IT i bs
  | TRaw sp => RW sp
  end.

(* Prod: rendering of a span looked up in the table supplied with the case *)
Fixpoint lookup (table : list (list N * option N)) (buf : list N) : option (option N) :=
  match table with
  | [] => None
  | (k, v) :: r => if nlist_eqb k buf then Some v else lookup r buf
  end.
Definition missing_code : N := 4294967295.
Definition prod_item (table : list (list N * option N)) (q : N) (buf : list N) : option N :=
  match lookup table buf with
  | Some (Some code) => Some code
  | Some None => None
  | None => Some missing_code
  end.
Definition prod_render (t : tok N) : itok :=
  match t with
  | TItem c _ => IT c []
  | TRaw sp => RW sp
  end.

(* ---- Gen at the level of the LANGUAGES of the patterns (Automata/Regex.v, verified matcher of C15) ----
   For each emitted token, with the bytes it stands for (offsets from the spans of `munch`):
   an item of pattern i: pattern i matches the span; no pattern of higher priority (literal items
   by index, then matchers by index: the order of BTreeSet<MatcherTag>) matches it; NO pattern matches
   any longer prefix of the remaining stream; a matcher pattern returns exactly the span;
   a raw token: either no pattern matches ANY non-empty prefix of the remaining stream (shorter than,
   equal to or longer than the span), or the span is
   the longest match and the highest-priority pattern matching it rejects it (odd length). *)
Definition spans_of (d : dfa) {Item} (decode_item : N -> list N -> option Item) (input : list N) : list (list N) :=
  map span (fst (munch N Item (d_start d) (d_delta d) (d_accepting d) (d_terminal d) decode_item input)).

Definition pat_matches (pats : list (regex * bool * bool)) (s : list N) : list N :=
  (* indices of the patterns matching s, in priority order *)
  let idx := map N.of_nat (seq 0 (length pats)) in
  let m (want_item : bool) :=
    filter (fun i => match nth_error pats (N.to_nat i) with
                     | Some (e, it, _) => Bool.eqb it want_item && matcher e s
                     | None => false
                     end) idx in
  m true ++ m false.

Definition no_longer_match (pats : list (regex * bool * bool)) (rest : list N) (k : nat) : bool :=
  forallb (fun j => match pat_matches pats (firstn j rest) with [] => true | _ => false end)
          (seq (S k) (length rest - k)).

Fixpoint lang_tokens (pats : list (regex * bool * bool)) (spans : list (list N)) (rest : list N) (toks : list itok) : bool :=
  match spans, toks with
  | [], [] => true
  | sp :: spans', t :: toks' =>
      let k := length sp in
      nlist_eqb (firstn k rest) sp
      && no_longer_match pats rest k
      && match pat_matches pats sp, t with
         | [], RW b => nlist_eqb b sp && no_longer_match pats rest 0
         | i :: _, RW b => nlist_eqb b sp && rejects_of pats i && Nat.odd k
                           && match nth_error pats (N.to_nat i) with Some (_, false, _) => true | _ => false end
         | i :: _, IT j b =>
             (i =? j)
             && match nth_error pats (N.to_nat i) with
                | Some (_, true, _) => match b with [] => true | _ => false end
                | Some (_, false, r) => nlist_eqb b sp && negb (r && Nat.odd k)
                | None => false
                end
         | [], IT _ _ => false
         end
      && lang_tokens pats spans' (skipn k rest) toks'
  | _, _ => false
  end.

Definition lang_ok (pats : list (regex * bool * bool)) (spans : list (list N)) (input : list N) (o : out) : bool :=
  match o with Some toks => lang_tokens pats spans input toks | None => false end.

(* Utf8Decoder: model and specification *)
Definition u8_render (x : uout) : itok := match x with UChar c => IT c [] | UErr => RW [] end.
Definition u8_model_run (input : list N) (cuts : list nat) : out :=
  match u8_feed utf8_dfa (u8_init utf8_dfa) (split_by cuts input) with
  | Ok (xs, _) => Some (map u8_render xs)
  | _ => None
  end.
Fixpoint u8_spec (fuel : nat) (s : list N) : list itok :=
  match fuel with
  | O => []
  | S f =>
      (* every accepting state of UTF8DFA ends a character: `terminal` := accepting *)
      match first_stop N (d_start utf8_dfa) (d_delta utf8_dfa) (d_accepting utf8_dfa) (d_accepting utf8_dfa) s with
      | None => []
      | Some n =>
          (if dead_at N (d_start utf8_dfa) (d_delta utf8_dfa) s n then RW []
           else match utf8_decode (firstn n s) with
                | Ok (Some c) => IT c []
                | _ => RW []
                end)
          :: u8_spec f (skipn n s)
      end
  end.

Definition all_equal (runs : list run_rec) : bool :=
  match runs with
  | [] => true
  | r0 :: rs => forallb (fun r : run_rec => out_eqb (snd r0) (snd r)) rs
  end.

Definition c03_check (c : c03_case) : bool * bool :=
  match c with
  | Gen pats dd input runs =>
      let d := compile dd in
      let '(a, h) := check_runs d (gen_item pats d) gen_render input runs in
      (* an accepting state without a tag makes the code panic (`expect`): never with these dumps *)
      (data_ok dd && tagged_ok d && a,
       h && forallb (fun r : run_rec => lang_ok pats (spans_of d (gen_item pats d) input) input (snd r)) runs)
  | Prod which input table runs steps =>
      let d := if which =? 0 then event_dfa else command_dfa in
      let '(a, h) := check_runs d (prod_item table) prod_render input runs in
      (a && olist_eqb (model_steps d (prod_item table) input) steps,
       h && steps_sane d (prod_item table) input steps)
  | Utf8 input runs =>
      ( forallb (fun r : run_rec => out_eqb (u8_model_run input (fst r)) (snd r)) runs,
        let spec := Some (u8_spec (length input) input) in
        forallb (fun r : run_rec => cuts_ok (fst r) input && out_eqb spec (snd r)) runs )
  end.

Definition c03_report := report c03_check.
