(* Correspondence for C13.  Kinds of cases:
   KD   a palette and a list of query colours; the implementation's
        ColorPalette::new(pal).find(q) for every q
   KDN  the same palette through find_naive / colors / size / get
   OCT  a sequence of OcTree operations (insert / prune / prune_until /
        build_palette / to_digraph / find / a new tree; clone and extend are
        the identity and the inserts) and what the implementation returned
   QNT  an (effective) image, a requested palette size and the dithering flag;
        the implementation's Image::quantize result
   PAL  ColorPalette::from_image on a window / transposed window of a surface
   RND  the common::Rnd stream        ACC  n copies of one colour through OcTree::insert
   First component: the model computes exactly the same values.
   Second component: the property of properties.jsonl/C13 evaluated on the
   implementation's output with brute-force definitions (is_nearestb, bounds). *)
From Coq Require Import List NArith ZArith Bool.
From SNT Require Export Base.Report Base.Outcome Image.KDTree Image.Octree Image.Quantize.
Import ListNotations.
Local Open Scope N_scope.

(* what the implementation did *)
Inductive ires (A : Type) := IOk (a : A) | INone | IPanic | IHang.
Arguments IOk {A} a.
Arguments INone {A}.
Arguments IPanic {A}.
Arguments IHang {A}.

Definition ires_eqb {A} (eqb : A -> A -> bool) (m : outcome A) (i : ires A) : bool :=
  match m, i with
  | Ok a, IOk b => eqb a b
  | Err _, INone => true
  | Panic _, IPanic => true
  | _, _ => false
  end.

Fixpoint list_eqb2 {A B} (eqb : A -> B -> bool) (x : list A) (y : list B) : bool :=
  match x, y with
  | [], [] => true
  | a :: x', b :: y' => eqb a b && list_eqb2 eqb x' y'
  | _, _ => false
  end.

Definition rgbs_eqb := list_eqb rgb_eqb.
Definition hit_eqb (a b : N * rgb) : bool := (fst a =? fst b) && rgb_eqb (snd a) (snd b).

(* ---------- KD ---------- *)

Definition kd_model (pal qs : list rgb) : list (outcome (N * rgb)) :=
  let t := build pal in map (kd_find t) qs.

Definition kd_agree (pal qs : list rgb) (impl : list (ires (N * rgb))) : bool :=
  list_eqb2 (ires_eqb hit_eqb) (kd_model pal qs) impl
  && (length qs =? length impl)%nat.

Definition kd_holds (pal qs : list rgb) (impl : list (ires (N * rgb))) : bool :=
  (length qs =? length impl)%nat &&
  forallb (fun p => match snd p with
                    | IOk (i, c) => is_nearestb pal (fst p) i c
                    | _ => false
                    end) (combine qs impl).

(* ---------- OCT ---------- *)

Inductive oc_op := OIns (c : rgb) | OPrune | OPruneUntil (k : N) | OPalette | ODigraph
                  | ONew | OFind (c : rgb) | OFindIdx (c : rgb).
Inductive oc_obs := BPal (p : list rgb) | BDig (d : dnode)
                  | BFind (o : option rgb) | BFindIdx (o : option (N * rgb)).

(* OcTree::find: walk the path of the colour; an empty slot ends the search, the first leaf met (at any depth:
   pruning leaves leaves above depth 8) answers with its average colour.  The index is the one build_palette
   stored: the position of the leaf in depth-first order (OFindIdx is only emitted directly after OPalette) *)
Fixpoint find_rec (path : list nat) (ch : list node) : option (N * leaf) :=
  match path with
  | [] => None
  | k :: rest =>
      let before := N.of_nat (length (flat_map leaves_of (firstn k ch))) in
      match nth k ch Empty with
      | Empty => None
      | Leaf l => Some (before, l)
      | Tree _ _ ch' =>
          match find_rec rest ch' with Some (i, l) => Some (before + i, l) | None => None end
      end
  end.

Definition oc_find (t : octree) (c : rgb) : outcome (option (N * rgb)) :=
  match find_rec (path_packed c) (o_children t) with
  | None => Ok None
  | Some (i, l) => let* col := leaf_rgb l in Ok (Some (i, col))
  end.

Fixpoint run_ops (t : octree) (ops : list oc_op) : outcome (list oc_obs) :=
  match ops with
  | [] => Ok []
  | OIns c :: r => let* t' := oc_insert t c in run_ops t' r
  | OPrune :: r => let* t' := oc_prune t in run_ops t' r
  | OPruneUntil k :: r => let* t' := prune_until k t in run_ops t' r
  | OPalette :: r =>
      let* p := build_palette t in let* o := run_ops t r in Ok (BPal p :: o)
  | ODigraph :: r =>
      if has_zero_leaf t then Panic 13002
      else let* o := run_ops t r in Ok (BDig (digraph t) :: o)
  | ONew :: r => run_ops oc_new r
  | OFind c :: r =>
      let* f := oc_find t c in let* o := run_ops t r in
      Ok (BFind (match f with Some (_, col) => Some col | None => None end) :: o)
  | OFindIdx c :: r =>
      let* f := oc_find t c in let* o := run_ops t r in Ok (BFindIdx f :: o)
  end.

Fixpoint dnode_eqb (a b : dnode) {struct a} : bool :=
  match a, b with
  | DLeaf c n, DLeaf c' n' => rgb_eqb c c' && (n =? n')
  | DTree l m ch, DTree l' m' ch' =>
      (l =? l') && (m =? m') &&
      (fix go (x : list dnode) (y : list dnode) {struct x} : bool :=
         match x, y with
         | [], [] => true
         | p :: x', q :: y' => dnode_eqb p q && go x' y'
         | _, _ => false
         end) ch ch'
  | _, _ => false
  end.

Definition obs_eqb (a b : oc_obs) : bool :=
  match a, b with
  | BPal p, BPal q => rgbs_eqb p q
  | BDig d, BDig e => dnode_eqb d e
  | BFind None, BFind None => true
  | BFind (Some c), BFind (Some d) => rgb_eqb c d
  | BFindIdx None, BFindIdx None => true
  | BFindIdx (Some (i, c)), BFindIdx (Some (j, d)) => (i =? j) && rgb_eqb c d
  | _, _ => false
  end.

(* what find must answer while nothing was pruned: every leaf is at depth 8, so exactly the inserted colours are
   found, as themselves *)
Definition find_ok (inserted : list rgb) (pruned : bool) (c : rgb) (o : option rgb) : bool :=
  pruned ||
  match o with
  | Some d => existsb (rgb_eqb c) inserted && rgb_eqb c d
  | None => negb (existsb (rgb_eqb c) inserted)
  end.

(* the property on the observed palettes: a build_palette that directly follows a
   prune_until(k) has at most max(k,8) colours; it has at least one when a colour
   was inserted and prune() was never called by hand (prune() by hand can empty the
   tree: it is not part of quantisation); and when nothing was pruned so far and the
   colours inserted number at most max(k,8) distinct values, the palette is exactly
   those values *)
Fixpoint oct_holds_from (inserted : list rgb) (manual pruned : bool) (ops : list oc_op)
         (obs : list oc_obs) : bool :=
  match ops with
  | [] => match obs with [] => true | _ => false end
  | OIns c :: r => oct_holds_from (c :: inserted) manual pruned r obs
  | OPrune :: r => oct_holds_from inserted true true r obs
  | OPruneUntil k :: OPalette :: r =>
      match obs with
      | BPal p :: obs' =>
          let np := N.of_nat (length p) in
          let d := nodup_rgb inserted in
          let fits := N.of_nat (length d) <=? N.max k 8 in
          (match inserted with [] => true | _ => manual || (1 <=? np) end) &&
          (np <=? N.max k 8) &&
          (pruned || negb fits ||
           ((np =? N.of_nat (length d)) && forallb (fun c => existsb (rgb_eqb c) p) d)) &&
          oct_holds_from inserted manual (pruned || negb fits) r obs'
      | _ => false
      end
  | OPruneUntil k :: r =>
      oct_holds_from inserted manual
        (pruned || negb (N.of_nat (length (nodup_rgb inserted)) <=? N.max k 8)) r obs
  | OPalette :: r =>
      match obs with BPal _ :: obs' => oct_holds_from inserted manual pruned r obs' | _ => false end
  | ODigraph :: r =>
      match obs with BDig _ :: obs' => oct_holds_from inserted manual pruned r obs' | _ => false end
  | ONew :: r => oct_holds_from [] false false r obs
  | OFind c :: r =>
      match obs with
      | BFind o :: obs' => find_ok inserted pruned c o && oct_holds_from inserted manual pruned r obs'
      | _ => false
      end
  | OFindIdx c :: r =>
      match obs with
      | BFindIdx o :: obs' =>
          find_ok inserted pruned c (match o with Some (_, d) => Some d | None => None end) &&
          oct_holds_from inserted manual pruned r obs'
      | _ => false
      end
  end.

(* the index returned by find directly after build_palette (the doc comment of OcTree::find: 'to get correct
   palette index call build_palette first') is a valid index of that palette and names the colour returned *)
Fixpoint find_idx_ok (lastp : list rgb) (ops : list oc_op) (obs : list oc_obs) : bool :=
  match ops with
  | [] => true
  | OIns _ :: r | OPrune :: r | OPruneUntil _ :: r | ONew :: r => find_idx_ok lastp r obs
  | OPalette :: r => match obs with BPal p :: o' => find_idx_ok p r o' | _ => false end
  | ODigraph :: r | OFind _ :: r => match obs with _ :: o' => find_idx_ok lastp r o' | [] => false end
  | OFindIdx _ :: r =>
      match obs with
      | BFindIdx o :: o' =>
          match o with
          | Some (i, d) => match nth_error lastp (N.to_nat i) with Some e => rgb_eqb d e | None => false end
          | None => true
          end && find_idx_ok lastp r o'
      | _ => false
      end
  end.

(* ---------- QNT ---------- *)

Definition qres_eqb (a b : list rgb * list (list N)) : bool :=
  rgbs_eqb (fst a) (fst b) && list_eqb nlist_eqb (snd a) (snd b).

Inductive c13_case :=
| KD (pal qs : list rgb) (impl : list (ires (N * rgb)))
| OCT (ops : list oc_op) (impl : ires (list oc_obs))
| QNT (im : img) (k : N) (dither : bool) (impl : ires (list rgb * list (list N)))
| KDN (pal qs : list rgb) (impl : list (ires (N * rgb))) (cols : list rgb) (size : N)
    (* ColorPalette::new(pal): find_naive(q) for every q, colors(), size() *)
| PAL (im : img) (k : N) (impl : ires (list rgb))
    (* ColorPalette::from_image(surface, k, bg).colors() for a surface that is not an Image (a sub-view or a
       transposed view); im = the effective pixels in the surface's own iteration order *)
| RND (seed : N) (impl : list N)           (* common::Rnd::with_seed(seed), successive next_u32() *)
| ACC (pixels : N) (c : rgb) (impl : ires rgb).
  (* OcTree::insert of `pixels` copies of one colour, then build_palette: the single palette colour *)

Fixpoint rnd_stream (n : nat) (st : N) : list N :=
  match n with
  | O => []
  | S n' => let '(v, st') := next_u32 st in v :: rnd_stream n' st'
  end.

(* n copies of one colour end in one leaf holding (n*r, n*g, n*b, n); the checked accumulators of
   Image/Octree.v (leaf_add_chk) accept every intermediate sum iff they accept the last one, and the
   palette colour is then (n*r)/n = r ...: the closed form of `oc_extend oc_new (repeat c n)` followed by
   build_palette (for sizes that cannot be evaluated step by step in Coq) *)
Definition acc_model (n : N) (c : rgb) : outcome rgb :=
  let '(r, g, b) := c in
  if n =? 0 then Err 0
  else if leaf_fits (mkLeaf (n * r) (n * g) (n * b) n) then Ok c else Panic 13008.

Definition c13_check (c : c13_case) : bool * bool :=
  match c with
  | KD pal qs impl => (kd_agree pal qs impl, kd_holds pal qs impl)
  | OCT ops impl =>
      (ires_eqb (list_eqb obs_eqb) (run_ops oc_new ops) impl,
       match impl with IOk obs => oct_holds_from [] false false ops obs && find_idx_ok [] ops obs | _ => false end)
  | QNT im k dither impl =>
      (rect im && ires_eqb qres_eqb (quantize im k dither) impl,
       match impl with
       | IOk (pal, q) => rect im && (1 <=? k) && quantize_holds im k dither pal q
       | INone => (img_height im =? 0) || (img_width im =? 0)   (* only an empty image has no palette *)
       | _ => false
       end)
  | KDN pal qs impl cols size =>
      (list_eqb2 (fun (m : option (N * rgb)) i => match m, i with
                                                   | Some a, IOk b => hit_eqb a b
                                                   | None, IPanic => true
                                                   | _, _ => false
                                                   end) (map (find_naive pal) qs) impl
       && rgbs_eqb cols pal && (size =? N.of_nat (length pal)),
       rgbs_eqb cols pal && (size =? N.of_nat (length pal)) && (length qs =? length impl)%nat &&
       forallb (fun p => match snd p with IOk (i, c) => is_nearestb pal (fst p) i c | _ => false end) (combine qs impl))
  | PAL im k impl =>
      (rect im && ires_eqb rgbs_eqb (palette_of_image im k) impl,
       match impl with
       | IOk pal =>
           let np := N.of_nat (length pal) in
           rect im && (1 <=? k) && (1 <=? np) && (np <=? N.max k 8) &&
           (if (if sample_of im k <? 2 then distinct_colors im <=? k else false)
            then forallb (fun c => existsb (rgb_eqb c) pal) (img_pixels im) else true)
       | INone => (img_height im =? 0) || (img_width im =? 0)
       | _ => false
       end)
  | ACC n c impl =>
      (ires_eqb rgb_eqb (acc_model n c) impl,
       match impl with IOk c' => rgb_eqb c' c | _ => false end)     (* the image is one colour: so is the palette *)
  | RND seed impl =>
      (* the generator only matters through the sampling it drives: a different stream is a
         broken correspondence, not by itself a violation *)
      (nlist_eqb (rnd_stream (length impl) seed) impl, true)
  end.

Definition c13_report := report c13_check.
