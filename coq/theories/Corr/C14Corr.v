(* Correspondence for C14: cases produced by the Rust harness carry the
   implementation's observed output. *)
From Coq Require Import List NArith Bool.
From SNT Require Import Base.Outcome Base.Report Encoder.Base64.
From SNT Require Export Encoder.Base64Prog.
Import ListNotations.
Local Open Scope N_scope.

(* RErr carries what the successful calls had delivered before the failing one (nothing for the encoder) *)
Inductive res := ROk (l : list N) | RErr (partial : list N) | RPanic.

Definition res_eqb (a b : res) : bool :=
  match a, b with
  | ROk x, ROk y => nlist_eqb x y
  | RErr x, RErr y => nlist_eqb x y
  | RPanic, RPanic => true
  | _, _ => false
  end.

Definition is_err (r : res) : bool := match r with RErr _ => true | _ => false end.

Definition res_of (o : outcome (list N)) : res :=
  match o with Ok l => ROk l | Err _ => RErr [] | Panic _ => RPanic | OutOfFuel => RPanic end.

Definition res_of_partial (o : list N * outcome unit) : res :=
  match o with
  | (a, Ok _) => ROk a
  | (a, Err _) => RErr a
  | (_, Panic _) => RPanic
  | (_, OutOfFuel) => RPanic
  end.

Fixpoint is_prefix (p l : list N) : bool :=
  match p, l with
  | [], _ => true
  | x :: p', y :: l' => (x =? y) && is_prefix p' l'
  | _ :: _, [] => false
  end.

(* the bytes of the complete 4-character groups of a text (the incomplete tail dropped) *)
Definition whole_groups (text : list N) : list N :=
  match spec_dec (S (length text)) (firstn (Nat.mul 4 (Nat.div (length text) 4)) text) with
  | Some l => l
  | None => []
  end.

Inductive c14_case :=
| Enc (chunks : list (list N)) (impl : res)
    (* Base64Encoder: one write_all per chunk, then finish() *)
| Dec (orig : option (list N)) (text : list N) (sched : list N) (dests : list N) (impl : res)
    (* Base64Decoder over a reader that returns sched[k] bytes on its k-th call,
       drained with destination buffers of sizes dests (cyclic); orig = Some x
       when text was produced as the reference RFC 4648 encoding of x *)
| DecProg (orig : option (list N)) (text : list N) (sched : list N) (ops : list dop)
          (impl : option (list dres))
    (* ONE decoder consumed by a program of std::io::Read operations (read, read_exact,
       read_to_end / read_to_string, read_vectored, bytes(), take(n), BufReader wrappers, by_ref);
       impl = what each operation returned, stopping at the first error (None = panic) *)
| EncProg (ops : list eop) (finish : bool) (rets : list eres) (out : option (list N)).
    (* ONE encoder fed by a program of std::io::Write operations (write, write_all,
       write_vectored, write_fmt, flush), then finish() or dropped without finish;
       rets = bytes accepted per write / text in the inner writer at each flush; out = final text
       (None = panic or io error) *)

Definition nats (l : list N) : list nat := map N.to_nat l.

Definition dres_eqb (a b : dres) : bool :=
  match a, b with
  | Got x, Got y => nlist_eqb x y
  | Failed, Failed | EofErr, EofErr | Bad, Bad => true
  | _, _ => false
  end.

Definition eres_eqb (a b : eres) : bool :=
  match a, b with
  | Wrote x, Wrote y => Nat.eqb x y
  | Flushed x, Flushed y => nlist_eqb x y
  | _, _ => false
  end.

Definition is_failed (r : dres) : bool := match r with Failed => true | _ => false end.
Definition has_drain (ops : list dop) : bool :=
  existsb (fun o => match o with OToEnd => true | _ => false end) ops.
Definition sum (l : list nat) : nat := fold_left Nat.add l O.

(* the results of a program on VALID text, judged from the decoded bytes x alone:
   every operation hands out the next bytes of x, as many as its contract says *)
Fixpoint walk (ops : list dop) (rs : list dres) (rest : list N) : bool :=
  match ops, rs with
  | [], [] => match rest with [] => true | _ => false end      (* programs end with a drain *)
  | op :: ops', r :: rs' =>
      match op, r with
      | ORead n, Got b =>
          is_prefix b rest && Nat.leb (length b) n
          && (negb (Nat.eqb (length b) 0) || Nat.eqb n 0 || Nat.eqb (length rest) 0)
          && walk ops' rs' (skipn (length b) rest)
      | OVectored ns, Got b =>
          is_prefix b rest && Nat.leb (length b) (sum ns)
          && (negb (Nat.eqb (length b) 0) || Nat.eqb (sum ns) 0 || Nat.eqb (length rest) 0)
          && walk ops' rs' (skipn (length b) rest)
      | OExact n, Got b => nlist_eqb b (firstn n rest) && Nat.eqb (length b) n && walk ops' rs' (skipn n rest)
      | OExact n, EofErr => Nat.ltb (length rest) n && match rs' with [] => true | _ => false end
      | OToEnd, Got b => nlist_eqb b rest && walk ops' rs' []
      | OBytes k, Got b => nlist_eqb b (firstn k rest) && walk ops' rs' (skipn k rest)
      | OTake n, Got b => nlist_eqb b (firstn n rest) && walk ops' rs' (skipn n rest)
      | _, _ => false
      end
  | _, _ => false
  end.

(* complete 3-byte groups only: what the encoder has emitted before finish() *)
Definition rfc_whole (l : list N) : list N := rfc4648 (firstn (Nat.mul 3 (Nat.div (length l) 3)) l).

(* accepted bytes per operation from the OBSERVED return values *)
Fixpoint enc_walk (ops : list eop) (rets : list eres) (acc : list N) : option (list N) :=
  match ops, rets with
  | [], [] => Some acc
  | EWrite _ bufs :: ops', Wrote n :: rets' =>
      if Nat.leb n (length (concat bufs)) then enc_walk ops' rets' (acc ++ firstn n (concat bufs)) else None
  | EFlush :: ops', Flushed snk :: rets' =>
      if nlist_eqb snk (rfc_whole acc) then enc_walk ops' rets' acc else None
  | _, _ => None
  end.

Definition c14_check (c : c14_case) : bool * bool :=
  match c with
  | Enc chunks impl =>
      (res_eqb (ROk (encode_chunks chunks)) impl,
       res_eqb (ROk (rfc4648 (concat chunks))) impl)
  | Dec orig text sched dests impl =>
      (res_eqb (res_of_partial (decode_all_partial text (nats sched) (nats dests))) impl,
       negb (res_eqb impl RPanic)
       && (if Nat.eqb (Nat.modulo (length text) 4) 0 then true else is_err impl)
       (* whatever was handed out before an error is a prefix of the decoding of the complete groups *)
       && match impl with RErr p => is_prefix p (whole_groups text) | _ => true end
       && match orig with
          | Some x => nlist_eqb text (rfc4648 x) && res_eqb impl (ROk x)
          | None => true
          end)
  | DecProg orig text sched ops impl =>
      match impl with
      | None => (false, false)
      | Some rs =>
          (list_eqb dres_eqb (decode_prog text (nats sched) ops) rs,
           (* what was handed out is a prefix of the decoding of the complete groups *)
           is_prefix (gotten rs) (whole_groups text)
           && negb (existsb (fun r => match r with Bad => true | _ => false end) rs)
           (* text that is not a multiple of four long: a draining program meets the error *)
           && (if Nat.eqb (Nat.modulo (length text) 4) 0 then true
               else negb (has_drain ops) || existsb is_failed rs)
           && match orig with
              | Some x => nlist_eqb text (rfc4648 x) && has_drain ops && walk ops rs x
              | None => true
              end)
      end
  | EncProg ops finish rets out =>
      let m := encode_prog ops finish in
      (list_eqb eres_eqb (fst m) rets && match out with Some o => nlist_eqb (snd m) o | None => false end,
       match out, enc_walk ops rets [] with
       | Some o, Some acc => nlist_eqb o (if finish then rfc4648 acc else rfc_whole acc)
       | _, _ => false
       end)
  end.

Definition c14_report := report c14_check.
