(* Correspondence for C14: cases produced by the Rust harness carry the
   implementation's observed output. *)
From Coq Require Import List NArith Bool.
From SNT Require Import Base.Outcome Base.Report Encoder.Base64.
Import ListNotations.
Local Open Scope N_scope.

(* RErr carries what the successful calls had delivered before the failing one (nothing for the encoder) *)
Inductive res := ROk (l : list N) | RErr (partial : list N) | RPanic.

Definition res_eqb (a b : res) : bool :=
  match a, b with
  | ROk x, ROk y => nlist_eqb x y
  | RErr x, RErr y => nlist_eqb x y
  | RPanic, RPanic => true
  | _, _ => false
  end.

Definition is_err (r : res) : bool := match r with RErr _ => true | _ => false end.

Definition res_of (o : outcome (list N)) : res :=
  match o with Ok l => ROk l | Err _ => RErr [] | Panic _ => RPanic | OutOfFuel => RPanic end.

Definition res_of_partial (o : list N * outcome unit) : res :=
  match o with
  | (a, Ok _) => ROk a
  | (a, Err _) => RErr a
  | (_, Panic _) => RPanic
  | (_, OutOfFuel) => RPanic
  end.

Fixpoint is_prefix (p l : list N) : bool :=
  match p, l with
  | [], _ => true
  | x :: p', y :: l' => (x =? y) && is_prefix p' l'
  | _ :: _, [] => false
  end.

(* the bytes of the complete 4-character groups of a text (the incomplete tail dropped) *)
Definition whole_groups (text : list N) : list N :=
  match spec_dec (S (length text)) (firstn (Nat.mul 4 (Nat.div (length text) 4)) text) with
  | Some l => l
  | None => []
  end.

Inductive c14_case :=
| Enc (chunks : list (list N)) (impl : res)
    (* Base64Encoder: one write_all per chunk, then finish() *)
| Dec (orig : option (list N)) (text : list N) (sched : list N) (dests : list N) (impl : res)
    (* Base64Decoder over a reader that returns sched[k] bytes on its k-th call,
       drained with destination buffers of sizes dests (cyclic); orig = Some x
       when text was produced as the reference RFC 4648 encoding of x *)
(* DecTail: the same decoder consumed in two steps: the first reads through `read` with the destination
   sizes `dests`, the rest through one of the std conveniences that sit on top of `read` (read_to_end,
   bytes(), take(n).read_to_end ...), whose buffer sizes are std's business.  What is decoded does not
   depend on the destination sizes, only how much had been handed out before an error does: a result Ok
   must be the model's, an error must be an error with a prefix of the complete groups *)
| DecTail (orig : option (list N)) (text : list N) (sched : list N) (dests : list N) (impl : res).

Definition nats (l : list N) : list nat := map N.to_nat l.

Definition tail_agrees (model impl : res) : bool :=
  match model, impl with
  | ROk a, ROk b => nlist_eqb a b
  | RErr _, RErr _ => true
  | RPanic, RPanic => true
  | _, _ => false
  end.

Definition c14_check (c : c14_case) : bool * bool :=
  match c with
  | Enc chunks impl =>
      (res_eqb (ROk (encode_chunks chunks)) impl,
       res_eqb (ROk (rfc4648 (concat chunks))) impl)
  | Dec orig text sched dests impl =>
      (res_eqb (res_of_partial (decode_all_partial text (nats sched) (nats dests))) impl,
       negb (res_eqb impl RPanic)
       && (if Nat.eqb (Nat.modulo (length text) 4) 0 then true else is_err impl)
       (* whatever was handed out before an error is a prefix of the decoding of the complete groups *)
       && match impl with RErr p => is_prefix p (whole_groups text) | _ => true end
       && match orig with
          | Some x => nlist_eqb text (rfc4648 x) && res_eqb impl (ROk x)
          | None => true
          end)
  | DecTail orig text sched dests impl =>
      (tail_agrees (res_of_partial (decode_all_partial text (nats sched) (nats dests))) impl,
       negb (res_eqb impl RPanic)
       && (if Nat.eqb (Nat.modulo (length text) 4) 0 then true else is_err impl)
       && match impl with RErr p => is_prefix p (whole_groups text) | _ => true end
       && match orig with
          | Some x => nlist_eqb text (rfc4648 x) && res_eqb impl (ROk x)
          | None => true
          end)
  end.

Definition c14_report := report c14_check.
