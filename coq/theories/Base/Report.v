(* Correspondence reports: each case carries the implementation's observed
   output; `check` returns (model agrees with implementation, property
   predicate holds of the implementation's output).  `report` lists the
   indices of the cases where either is false, so the driver only has to
   parse a short list. *)
From Coq Require Import List NArith Bool.
Import ListNotations.
Local Open Scope N_scope.

Section Report.
  Context {C : Type} (check : C -> bool * bool).
  Fixpoint report (i : N) (cs : list C) : list (N * bool * bool) :=
    match cs with
    | [] => []
    | c :: r =>
        let '(a, h) := check c in
        if a && h then report (i + 1) r else (i, a, h) :: report (i + 1) r
    end.
End Report.

Fixpoint list_eqb {A} (eqb : A -> A -> bool) (x y : list A) : bool :=
  match x, y with
  | [], [] => true
  | a :: x', b :: y' => eqb a b && list_eqb eqb x' y'
  | _, _ => false
  end.

Definition nlist_eqb := list_eqb N.eqb.
