(* Decimal numbers as the crate prints and parses them.

   digits n          what `write!(out, "{}", n)` produces for an unsigned integer:
                     most significant digit first, no leading zero, "0" for zero.
   number_decode ds  model of decoder.rs `number_decode` on inputs whose value fits
                     `usize`: the empty string is 0, leading zeros are allowed, any
                     byte that is not an ASCII digit makes the result None.
                     (The real function accumulates in `usize`; strings of 20 or
                     more digits are outside this model -- they belong to
                     property C02 -- and every theorem that uses number_decode on
                     arbitrary text carries the hypothesis `short_numbers`.) *)
From Coq Require Import List NArith Bool.
Import ListNotations.
Local Open Scope N_scope.

Definition is_digit (b : N) : bool := (48 <=? b) && (b <=? 57).

Definition dec_step (acc d : N) : N := acc * 10 + (d - 48).
Definition dec_value (ds : list N) : N := fold_left dec_step ds 0.

Definition number_decode (ds : list N) : option N :=
  if forallb is_digit ds then Some (dec_value ds) else None.

Fixpoint digits_fuel (fuel : nat) (n : N) (acc : list N) : list N :=
  match fuel with
  | O => acc
  | S f =>
      let acc' := (48 + n mod 10) :: acc in
      if n / 10 =? 0 then acc' else digits_fuel f (n / 10) acc'
  end.

Definition digits (n : N) : list N := digits_fuel (S (N.to_nat (N.log2 n))) n [].
