(* Case analysis on Z comparisons occurring as conditions, innermost first
   (a comparison whose operands still contain an `if` is left for later). *)
From Coq Require Import ZArith Bool.
Local Open Scope Z_scope.

Ltac no_if t :=
  lazymatch t with
  | context [if _ then _ else _] => fail
  | _ => idtac
  end.

Ltac zcase1 :=
  match goal with
  | |- context [?a >? ?b] => rewrite (Z.gtb_ltb a b)
  | |- context [?a >=? ?b] => rewrite (Z.geb_leb a b)
  | |- context [?a <? ?b] => no_if a; no_if b; destruct (Z.ltb_spec a b)
  | |- context [?a <=? ?b] => no_if a; no_if b; destruct (Z.leb_spec a b)
  | |- context [?a =? ?b] => no_if a; no_if b; destruct (Z.eqb_spec a b)
  end.

Ltac zcases := repeat zcase1.
