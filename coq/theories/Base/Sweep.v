(* Finite sweeps over initial segments of N, lifted to universally
   quantified statements.  Used to eliminate bit operations (lor/land/shift)
   on bytes and sextets: the sweep is a complete enumeration of a finite
   domain whose bound appears in the lemma statement. *)
From Coq Require Import List NArith Lia Bool.
Import ListNotations.
Local Open Scope N_scope.

Definition nrange (n : nat) : list N := map N.of_nat (seq 0 n).

Lemma nrange_In (n : nat) (a : N) : a < N.of_nat n -> In a (nrange n).
Proof.
  intros H. unfold nrange. apply in_map_iff. exists (N.to_nat a). split.
  - apply N2Nat.id.
  - apply in_seq. lia.
Qed.

Definition sweep1 (n : nat) (P : N -> bool) : bool := forallb P (nrange n).

Lemma sweep1_sound n P :
  sweep1 n P = true -> forall a, a < N.of_nat n -> P a = true.
Proof.
  unfold sweep1. intros H a Ha. rewrite forallb_forall in H. apply H, nrange_In, Ha.
Qed.

Definition sweep2 (n m : nat) (P : N -> N -> bool) : bool :=
  forallb (fun a => forallb (P a) (nrange m)) (nrange n).

Lemma sweep2_sound n m P :
  sweep2 n m P = true ->
  forall a b, a < N.of_nat n -> b < N.of_nat m -> P a b = true.
Proof.
  unfold sweep2. intros H a b Ha Hb. rewrite forallb_forall in H.
  specialize (H a (nrange_In _ _ Ha)). rewrite forallb_forall in H.
  apply H, nrange_In, Hb.
Qed.
