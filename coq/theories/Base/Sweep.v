(* Finite sweeps over initial segments of N, lifted to universally
   quantified statements.  Used to eliminate bit operations (lor/land/shift)
   on bytes and sextets: the sweep is a complete enumeration of a finite
   domain whose bound appears in the lemma statement. *)
From Coq Require Import List NArith Lia Bool.
Import ListNotations.
Local Open Scope N_scope.

Definition nrange (n : nat) : list N := map N.of_nat (seq 0 n).

Lemma nrange_In (n : nat) (a : N) : a < N.of_nat n -> In a (nrange n).
Proof.
  intros H. unfold nrange. apply in_map_iff. exists (N.to_nat a). split.
  - apply N2Nat.id.
  - apply in_seq. lia.
Qed.

Definition sweep1 (n : nat) (P : N -> bool) : bool := forallb P (nrange n).

Lemma sweep1_sound n P :
  sweep1 n P = true -> forall a, a < N.of_nat n -> P a = true.
Proof.
  unfold sweep1. intros H a Ha. rewrite forallb_forall in H. apply H, nrange_In, Ha.
Qed.

Definition sweep2 (n m : nat) (P : N -> N -> bool) : bool :=
  forallb (fun a => forallb (P a) (nrange m)) (nrange n).

Lemma sweep2_sound n m P :
  sweep2 n m P = true ->
  forall a b, a < N.of_nat n -> b < N.of_nat m -> P a b = true.
Proof.
  unfold sweep2. intros H a b Ha Hb. rewrite forallb_forall in H.
  specialize (H a (nrange_In _ _ Ha)). rewrite forallb_forall in H.
  apply H, nrange_In, Hb.
Qed.

(* Sweep over [base, base + 2^bits) by binary splitting: no unary numbers, usable for
   domains of a million elements. *)
Fixpoint sweep_pow (bits : nat) (base : N) (P : N -> bool) : bool :=
  match bits with
  | O => P base
  | S k => sweep_pow k base P && sweep_pow k (base + 2 ^ N.of_nat k) P
  end.

Lemma sweep_pow_sound bits : forall base P,
  sweep_pow bits base P = true ->
  forall a, base <= a -> a < base + 2 ^ N.of_nat bits -> P a = true.
Proof.
  induction bits as [|k IH]; intros base P H a Hlo Hhi.
  - cbn in H. change (2 ^ N.of_nat 0) with 1 in Hhi. replace a with base by lia. exact H.
  - cbn [sweep_pow] in H. apply andb_true_iff in H. destruct H as [H1 H2].
    replace (N.of_nat (S k)) with (N.succ (N.of_nat k)) in Hhi by lia.
    rewrite N.pow_succ_r' in Hhi.
    destruct (N.ltb_spec a (base + 2 ^ N.of_nat k)) as [Hlt|Hge].
    + apply (IH base P H1 a Hlo Hlt).
    + apply (IH _ P H2 a Hge). lia.
Qed.
