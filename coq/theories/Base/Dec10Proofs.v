From Coq Require Import List NArith Bool Lia ZifyBool ZifyNat ZifyN.
From SNT Require Import Base.Dec10.
Import ListNotations.
Local Open Scope N_scope.
Arguments N.add : simpl never.
Arguments N.sub : simpl never.
Arguments N.mul : simpl never.
Arguments N.eqb : simpl never.
Arguments N.ltb : simpl never.
Arguments N.leb : simpl never.
Arguments N.div : simpl never.
Arguments N.modulo : simpl never.
Arguments N.pow : simpl never.

Lemma is_digit_digit d : d < 10 -> is_digit (48 + d) = true.
Proof. unfold is_digit. lia. Qed.

Lemma digits_fuel_S f n acc :
  digits_fuel (S f) n acc =
  if n / 10 =? 0 then (48 + n mod 10) :: acc else digits_fuel f (n / 10) ((48 + n mod 10) :: acc).
Proof. reflexivity. Qed.

Lemma digits_fuel_value f : forall n acc a,
  n < 2 ^ N.of_nat (S f) ->
  exists k, fold_left dec_step (digits_fuel (S f) n acc) a
            = fold_left dec_step acc (a * 10 ^ k + n).
Proof.
  induction f as [|f IH]; intros n acc a Hn.
  - rewrite digits_fuel_S. assert (n < 2) by (change (2 ^ N.of_nat 1) with 2 in Hn; lia).
    assert (E : n / 10 = 0) by (apply N.div_small; lia).
    rewrite E. cbn [N.eqb]. change (0 =? 0) with true. cbn iota.
    exists 1. cbn [fold_left]. unfold dec_step at 2.
    rewrite N.mod_small by lia. f_equal. change (10 ^ 1) with 10. lia.
  - rewrite digits_fuel_S. destruct (n / 10 =? 0) eqn:E.
    + exists 1. cbn [fold_left]. unfold dec_step at 2.
      assert (n < 10). { apply N.eqb_eq in E. pose proof (N.div_mod n 10). pose proof (N.mod_upper_bound n 10). lia. }
      rewrite N.mod_small by lia. f_equal. change (10 ^ 1) with 10. lia.
    + assert (Hd : n / 10 < 2 ^ N.of_nat (S f)).
      { replace (N.of_nat (S (S f))) with (N.succ (N.of_nat (S f))) in Hn by lia.
        rewrite N.pow_succ_r' in Hn.
        pose proof (N.div_mod n 10). pose proof (N.mod_upper_bound n 10). lia. }
      destruct (IH (n / 10) ((48 + n mod 10) :: acc) a Hd) as [k Hk].
      exists (N.succ k). rewrite Hk. cbn [fold_left]. unfold dec_step at 2. f_equal.
      rewrite N.pow_succ_r'. pose proof (N.div_mod n 10). pose proof (N.mod_upper_bound n 10). lia.
Qed.

Lemma digits_fuel_all_digits f : forall n acc,
  forallb is_digit acc = true -> forallb is_digit (digits_fuel f n acc) = true.
Proof.
  induction f as [|f IH]; intros n acc Ha; cbn [digits_fuel]; [exact Ha|].
  assert (forallb is_digit ((48 + n mod 10) :: acc) = true).
  { cbn [forallb]. rewrite Ha, is_digit_digit; [reflexivity|]. apply N.mod_upper_bound. lia. }
  destruct (n / 10 =? 0); [assumption| apply IH; assumption].
Qed.

Lemma log2_fuel n : n < 2 ^ N.of_nat (S (N.to_nat (N.log2 n))).
Proof.
  replace (N.of_nat (S (N.to_nat (N.log2 n)))) with (N.succ (N.log2 n)) by lia.
  destruct (N.eq_dec n 0) as [->|Hn]; [reflexivity|].
  apply N.log2_spec. lia.
Qed.

Theorem dec_value_digits n : dec_value (digits n) = n.
Proof.
  unfold dec_value, digits.
  destruct (digits_fuel_value (N.to_nat (N.log2 n)) n [] 0 (log2_fuel n)) as [k Hk].
  rewrite Hk. cbn [fold_left]. lia.
Qed.

Theorem digits_all_digits n : forallb is_digit (digits n) = true.
Proof. apply digits_fuel_all_digits. reflexivity. Qed.

Theorem number_decode_digits n : number_decode (digits n) = Some n.
Proof. unfold number_decode. rewrite digits_all_digits, dec_value_digits. reflexivity. Qed.

(* no digit string contains a separator *)
Lemma digits_no_byte n b : is_digit b = false -> ~ In b (digits n).
Proof.
  intros Hb Hin. pose proof (digits_all_digits n) as H. rewrite forallb_forall in H.
  rewrite (H _ Hin) in Hb. discriminate.
Qed.

Lemma digits_fuel_nonempty f : forall n acc, acc <> [] -> digits_fuel f n acc <> [].
Proof.
  induction f as [|f IH]; intros n acc Ha; cbn [digits_fuel]; [exact Ha|].
  destruct (n / 10 =? 0); [discriminate| apply IH; discriminate].
Qed.

Lemma digits_nonempty n : digits n <> [].
Proof.
  unfold digits. rewrite digits_fuel_S. destruct (n / 10 =? 0); [discriminate|].
  apply digits_fuel_nonempty. discriminate.
Qed.
