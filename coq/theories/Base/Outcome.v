(* Outcomes of modelled Rust functions.
   Ok        normal return
   Err       the function returned an error value (Result::Err / None where
             the model says so); the payload is a small error class
   Panic     the real code would panic here (checked arithmetic, slice or
             index out of range, unwrap/expect); payload = a site number
   OutOfFuel the model's explicit fuel ran out; theorems exclude it by
             proving a fuel bound, they never treat it as a normal value *)
From Coq Require Import NArith.

Inductive outcome (A : Type) : Type :=
| Ok (a : A)
| Err (e : N)
| Panic (site : N)
| OutOfFuel.
Arguments Ok {A} a.
Arguments Err {A} e.
Arguments Panic {A} site.
Arguments OutOfFuel {A}.

Definition bind {A B} (x : outcome A) (f : A -> outcome B) : outcome B :=
  match x with
  | Ok a => f a
  | Err e => Err e
  | Panic s => Panic s
  | OutOfFuel => OutOfFuel
  end.

Definition omap {A B} (f : A -> B) (x : outcome A) : outcome B :=
  bind x (fun a => Ok (f a)).

Notation "'let*' x ':=' c1 'in' c2" := (bind c1 (fun x => c2))
  (at level 61, x as pattern, c1 at next level, right associativity).

Definition is_ok {A} (x : outcome A) : bool :=
  match x with Ok _ => true | _ => false end.
Definition is_panic {A} (x : outcome A) : bool :=
  match x with Panic _ => true | _ => false end.
