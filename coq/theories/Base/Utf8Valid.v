(* Well-formed UTF-8 (RFC 3629 section 4: no overlong forms, no surrogates, at most U+10FFFF), as a
   boolean on byte strings.  Specification-level notion shared by the protocol printer (what
   text a terminal may put into a paste or a message) and by the models of
   `String::from_utf8` / `std::str::from_utf8`. *)
From Coq Require Import List NArith Bool.
Import ListNotations.
Local Open Scope N_scope.

Definition cont (b : N) : bool := (128 <=? b) && (b <=? 191).
Fixpoint utf8_valid_aux (fuel : nat) (l : list N) : bool :=
  match fuel with
  | O => match l with [] => true | _ => false end
  | S f =>
      match l with
      | [] => true
      | b0 :: r0 =>
          if b0 <? 128 then utf8_valid_aux f r0
          else if (194 <=? b0) && (b0 <=? 223) then
            match r0 with b1 :: r1 => cont b1 && utf8_valid_aux f r1 | _ => false end
          else if (224 <=? b0) && (b0 <=? 239) then
            match r0 with
            | b1 :: b2 :: r2 =>
                (if b0 =? 224 then (160 <=? b1) && (b1 <=? 191)
                 else if b0 =? 237 then (128 <=? b1) && (b1 <=? 159)
                 else cont b1)
                && cont b2 && utf8_valid_aux f r2
            | _ => false
            end
          else if (240 <=? b0) && (b0 <=? 244) then
            match r0 with
            | b1 :: b2 :: b3 :: r3 =>
                (if b0 =? 240 then (144 <=? b1) && (b1 <=? 191)
                 else if b0 =? 244 then (128 <=? b1) && (b1 <=? 143)
                 else cont b1)
                && cont b2 && cont b3 && utf8_valid_aux f r3
            | _ => false
            end
          else false
      end
  end.
Definition utf8_valid (l : list N) : bool := utf8_valid_aux (length l) l.

