(* The layout tree View::layout produces has, for every view of the tree, the nodes View::render
   looks for (Fits); rendering a view with a fitting layout tree completes (never InvalidLayout).
   Together with RenderProofs.render_safe: layout followed by render returns Ok. *)
From Coq Require Import List Arith Bool NArith ZArith Lia.
From SNT Require Import Base.Outcome Surface.Bounds Surface.BoundsProofs Surface.Shape Surface.ShapeProofs
  Render.CellLayout Render.Writer Render.WriterFrame Render.TextView View.ViewModel View.LayoutProofs View.RenderProofs.
Import ListNotations.

Definition empty_node (k : ltree) : Prop := l_hh k = 0%N \/ l_ww k = 0%N.

Fixpoint Fits (g : bool) (v : vtree) (t : ltree) {struct v} : Prop :=
  match v with
  | VFlex _ _ cs =>
      (fix go (cs : list fchild) (ks : list ltree) {struct cs} : Prop :=
         match cs, ks with
         | (v', _, _, _) :: cs', k :: ks' => (empty_node k \/ Fits g v' k) /\ go cs' ks'
         | _, _ => True
         end) cs (l_kids t)
  | VContainer child _ _ _ _ _ _ => exists k ks, l_kids t = k :: ks /\ Fits g child k
  | VFrame child _ => if g then exists k ks, l_kids t = k :: ks /\ Fits g child k else Fits g child t
  | VTag _ child => exists k ks, l_kids t = k :: ks /\ Fits g child k
  | VDynamic build => exists c k ks, l_data t = DCt c /\ l_kids t = k :: ks /\ Fits g (build c) k
  | VRef (Some v') => exists k ks, l_data t = DRef /\ l_kids t = k :: ks /\ Fits g v' k
  | _ => True
  end.

(* Fits only looks at children, data and (for flex children) sizes: moving a node keeps it *)
Lemma fits_set_pos g v : forall t r c, Fits g v t -> Fits g v (set_pos t r c).
Proof.
  induction v using vtree_rect; intros t r c Hf; cbn [Fits] in *; auto.
  destruct g; auto.
Qed.

Lemma empty_set_pos k r c : empty_node k -> empty_node (set_pos k r c).
Proof. unfold empty_node. cbn. auto. Qed.

(* ---------- layout produces fitting trees ---------- *)
(* children paired with trees: each tree is empty or fits its child *)
Fixpoint FitsAll (g : bool) (vs : list vtree) (ks : list ltree) : Prop :=
  match vs, ks with
  | v :: vs', k :: ks' => (empty_node k \/ Fits g v k) /\ FitsAll g vs' ks'
  | [], [] => True
  | _, _ => False
  end.

Lemma fitsall_app g vs1 ks1 v k : FitsAll g vs1 ks1 -> (empty_node k \/ Fits g v k) -> FitsAll g (vs1 ++ [v]) (ks1 ++ [k]).
Proof.
  revert ks1; induction vs1 as [|v1 vs1 IH]; intros [|k1 ks1] H1 H2; cbn in *; try contradiction; auto.
  destruct H1 as [Ha Hb]. split; auto.
Qed.

Lemma fitsall_length g vs ks : FitsAll g vs ks -> length vs = length ks.
Proof.
  revert ks; induction vs as [|v vs IH]; intros [|k ks] H; cbn in *; try contradiction; auto.
  f_equal. apply IH. tauto.
Qed.

Section Layout.
  Variable vc : vctx.
  Local Notation g := (has_glyphs (v_r vc)).

  Definition LayFits (v : vtree) : Prop := forall c t, layout vc v c = Ok t -> Fits g v t.

  (* a flex child as seen by flex_layout, together with the view it comes from *)
  Definition lch (ch : fchild) : lchild := match ch with (v', fl, _, al) => (layout vc v', fl, al) end.
  Definition vof (ch : fchild) : vtree := fst (fst (fst ch)).

  Lemma pass1_fits d cl : forall (cs : list fchild) (done : list vtree) a p,
    Forall (fun ch => LayFits (vof ch)) cs ->
    FitsAll g done (f1_trees a) ->
    fold_left (flex_pass1 d cl) (map lch cs) (Ok a) = Ok p ->
    FitsAll g (done ++ map vof cs) (f1_trees p).
  Proof.
    assert (Hnotok : forall l (x : outcome fl1), (forall s, x <> Ok s) -> fold_left (flex_pass1 d cl) l x = x).
    { induction l as [|a l IHl]; intros x Hx; cbn; auto.
      rewrite IHl; destruct x; cbn; auto; try congruence; exfalso; eapply Hx; eauto. }
    induction cs as [|[[[v' fl] fc] al] cs IH]; intros done a p Hall Hd E.
    - cbn in E. injection E as <-. rewrite app_nil_r. exact Hd.
    - apply Forall_cons_iff in Hall as [Hv Hcs]. unfold vof in Hv. cbn [fst] in Hv.
      cbn [map lch fold_left] in E. unfold flex_pass1 at 2 in E. cbn [bind] in E.
      cbn [map vof fst]. replace (done ++ v' :: map vof cs) with ((done ++ [v']) ++ map vof cs) by (rewrite <- app_assoc; reflexivity).
      destruct fl as [f|].
      + eapply IH; [exact Hcs| |exact E]. cbn [f1_trees]. apply fitsall_app; [exact Hd|]. left. left. reflexivity.
      + destruct (layout vc v' cl) as [t0| | |] eqn:El; cbn [bind] in E; try (rewrite Hnotok in E by congruence; discriminate).
        eapply IH; [exact Hcs| |exact E]. cbn [f1_trees]. apply fitsall_app; [exact Hd|]. right. eapply Hv; eauto.
  Qed.

  Lemma pass2_fits share d cl : forall (cs : list fchild) (ts : list ltree) (done : list vtree) a p,
    Forall (fun ch => LayFits (vof ch)) cs ->
    FitsAll g (map vof cs) ts ->
    FitsAll g done (f2_trees a) ->
    fold_left (flex_pass2 share d cl) (combine (map lch cs) ts) (Ok a) = Ok p ->
    FitsAll g (done ++ map vof cs) (f2_trees p).
  Proof.
    assert (Hnotok : forall l (x : outcome fl2), (forall s, x <> Ok s) -> fold_left (flex_pass2 share d cl) l x = x).
    { induction l as [|a l IHl]; intros x Hx; cbn; auto.
      rewrite IHl; destruct x; cbn; auto; try congruence; exfalso; eapply Hx; eauto. }
    induction cs as [|[[[v' fl] fc] al] cs IH]; intros ts done a p Hall Hts Hd E.
    - cbn in E. injection E as <-. rewrite app_nil_r. exact Hd.
    - destruct ts as [|t0 ts]; [cbn in Hts; contradiction|].
      apply Forall_cons_iff in Hall as [Hv Hcs]. unfold vof in Hv. cbn [fst] in Hv.
      cbn [map vof fst FitsAll] in Hts. destruct Hts as [Ht0 Hts].
      cbn [map lch combine fold_left] in E. unfold flex_pass2 at 2 in E. cbn [bind] in E.
      cbn [map vof fst]. replace (done ++ v' :: map vof cs) with ((done ++ [v']) ++ map vof cs) by (rewrite <- app_assoc; reflexivity).
      destruct fl as [f|].
      + destruct (N.min (share (f2_idx a) (f2_remain a)) (f2_remain a) =? 0)%N.
        * eapply IH; [exact Hcs|exact Hts| |exact E]. cbn [f2_trees]. apply fitsall_app; assumption.
        * destruct (layout vc v' _) as [t1| | |] eqn:El; cbn [bind] in E; try (rewrite Hnotok in E by congruence; discriminate).
          eapply IH; [exact Hcs|exact Hts| |exact E]. cbn [f2_trees]. apply fitsall_app; [exact Hd|]. right. eapply Hv; eauto.
      + eapply IH; [exact Hcs|exact Hts| |exact E]. cbn [f2_trees]. apply fitsall_app; assumption.
  Qed.

  Lemma place_fits d mn between : forall (cs : list fchild) (ts : list ltree) (done : list vtree) placed off placed' off',
    FitsAll g (map vof cs) ts -> FitsAll g done placed ->
    fold_left (flex_place d mn between) (combine (map lch cs) ts) (placed, off) = (placed', off') ->
    FitsAll g (done ++ map vof cs) placed'.
  Proof.
    induction cs as [|[[[v' fl] fc] al] cs IH]; intros ts done placed off placed' off' Hts Hd E.
    - cbn in E. injection E as <- _. rewrite app_nil_r. exact Hd.
    - destruct ts as [|t0 ts]; [cbn in Hts; contradiction|].
      cbn [map vof fst FitsAll] in Hts. destruct Hts as [Ht0 Hts].
      cbn [map lch combine fold_left] in E. unfold flex_place at 2 in E.
      destruct (from_axes d off _) as [r c].
      cbn [map vof fst]. replace (done ++ v' :: map vof cs) with ((done ++ [v']) ++ map vof cs) by (rewrite <- app_assoc; reflexivity).
      eapply IH; [exact Hts| |exact E]. apply fitsall_app; [exact Hd|].
      destruct Ht0 as [He|Hf]; [left; now apply empty_set_pos|right; now apply fits_set_pos].
  Qed.

  Lemma fitsall_flex cs : forall ks, FitsAll g (map vof cs) ks ->
    (fix go (cs : list fchild) (ks : list ltree) {struct cs} : Prop :=
       match cs, ks with
       | (v', _, _, _) :: cs', k :: ks' => (empty_node k \/ Fits g v' k) /\ go cs' ks'
       | _, _ => True
       end) cs ks.
  Proof.
    induction cs as [|[[[v' fl] fc] al] cs IH]; intros [|k ks] H; try exact I.
    cbn [map FitsAll] in H. destruct H as [Ha Hb]. split; [exact Ha|apply IH; exact Hb].
  Qed.

  Theorem layout_fits v : LayFits v.
  Proof.
    induction v using vtree_rect; intros c t E; cbn [layout Fits] in *; auto.
    - (* flex *)
      unfold flex_layout in E.
      assert (Emap : map (fun ch : fchild => match ch with (v', fl, _, al) => (layout vc v', fl, al) end) cs = map lch cs)
        by reflexivity.
      rewrite Emap in E.
      assert (Hall : Forall (fun ch => LayFits (vof ch)) cs) by exact H.
      destruct (fold_left (flex_pass1 d (ct_loosen c)) (map lch cs) _) as [p1| | |] eqn:E1; try discriminate. cbn [bind] in E.
      pose proof (pass1_fits d (ct_loosen c) cs [] (mkFl1 [] 0 (minor d (c_minh c) (c_minw c)) 0) p1 Hall I E1) as F1. cbn [app] in F1.
      match type of E with (let* p2 := ?x in _) = _ => destruct x as [p2| | |] eqn:E2 end; try discriminate. cbn [bind] in E.
      assert (F2 : FitsAll g (map vof cs) (f2_trees p2)).
      { destruct ((0 <? _)%N && (0 <? f1_total p1)%N).
        - apply (pass2_fits _ d (ct_loosen c) cs (f1_trees p1) []
                   (mkFl2 [] (major d (c_maxh c) (c_maxw c) - f1_nonflex p1) 0 (f1_minor p1) 0%nat) p2 Hall F1 I E2).
        - injection E2 as <-. exact F1. }
      destruct (flex_spaces _ _ _) as [sp| | |]; try discriminate. cbn [bind] in E.
      rewrite flex_place_chk_ok in E. cbn [bind] in E.
      destruct (fold_left (flex_place _ _ _) _ _) as [placed off] eqn:E3.
      destruct (from_axes d off (f2_minor p2)) as [h w].
      destruct (ct_clamp c h w) as [hw| | |]; try discriminate. cbn [bind] in E. injection E as <-. cbn [l_kids].
      apply fitsall_flex. exact (place_fits d _ _ cs (f2_trees p2) [] [] _ placed off F2 I E3).
    - (* container *)
      unfold container_layout in E.
      destruct (if sz_h =? 0 then _ else _)%N as [ch| | |]; try discriminate. cbn [bind] in E.
      destruct (if sz_w =? 0 then _ else _)%N as [cw| | |]; try discriminate. cbn [bind] in E.
      destruct (layout vc v _) as [t0| | |] eqn:El; try discriminate. cbn [bind] in E.
      rewrite !align_chk_ok in E. cbn [bind] in E.
      destruct (if align_eqb av AShrink then _ else _) as [x| | |]; try discriminate. cbn [bind] in E.
      destruct (if align_eqb ah AShrink then _ else _) as [y| | |]; try discriminate. cbn [bind] in E.
      injection E as <-. cbn [l_kids]. eexists _, _. split; [reflexivity|]. apply fits_set_pos. eapply IHv; eauto.
    - (* frame *)
      unfold LayFits in IHv. destruct (has_glyphs (v_r vc)) eqn:Hg.
      + destruct (layout vc v _) as [t0| | |] eqn:El; try discriminate. cbn [bind] in E. injection E as <-. cbn [l_kids].
        eexists _, _. split; [reflexivity|]. apply fits_set_pos. exact (IHv _ _ El).
      + exact (IHv _ _ E).
    - (* tag *)
      destruct (layout vc v c) as [t0| | |] eqn:El; try discriminate. cbn [bind] in E. injection E as <-. cbn [l_kids].
      eexists _, _. split; [reflexivity|]. eapply IHv; eauto.
    - (* dynamic *)
      destruct (layout vc (build c) c) as [t0| | |] eqn:El; try discriminate. cbn [bind] in E. injection E as <-.
      cbn [l_kids l_data]. eexists _, _, _. split; [reflexivity|]. split; [reflexivity|]. eapply H; eauto.
    - (* cached view *)
      destruct (layout vc v c) as [t0| | |] eqn:El; try discriminate. cbn [bind] in E. injection E as <-.
      cbn [l_kids l_data]. eexists _, _. split; [reflexivity|]. split; [reflexivity|]. eapply IHv; eauto.
  Qed.
End Layout.

(* ---------- rendering a fitting tree completes ---------- *)
Section Render.
  Variables (H W : nat).
  Hypothesis Hmax : (Z.of_nat (Nat.max H W) <= i64_max)%Z.
  Variable vc : vctx.

  Definition RenderOk (v : vtree) : Prop :=
    forall t sh w s, Fits (has_glyphs (v_r vc)) v t -> Rep H W sh w -> H * W <= length (r_data s) ->
      exists s', render vc v t sh s = Ok s'.

  (* completing = safe and not an error value *)
  Lemma ok_of_safe sh d (o : outcome rst) : Safe sh d o -> (forall e, o <> Err e) -> exists s', o = Ok s'.
  Proof. destruct o as [s'|e| |]; cbn; intros Hs Hne; try contradiction; [eauto|exfalso; eapply Hne; eauto]. Qed.

  Lemma lift_ok (o : outcome (list ccell)) log sub d : SafeD sub d o -> (forall e, o <> Err e) ->
    exists s', (let* d' := o in Ok (mkR d' log)) = Ok s'.
  Proof. destruct o as [d'|e| |]; cbn; intros Hs Hne; try contradiction; [eauto|exfalso; eapply Hne; eauto]. Qed.

  Lemma write_cells_not_err vc' sh d wraps cells e : write_cells vc' sh d wraps cells <> Err e \/ True.
  Proof. auto. Qed.

  Lemma flex_fold_ok d sub wsub (Hsub : Rep H W sub wsub) : forall (cs : list fchild) (ks : list ltree) s,
    Forall (fun ch : fchild => RenderOk (fst (fst (fst ch)))) cs ->
    (fix go (cs : list fchild) (ks : list ltree) {struct cs} : Prop :=
       match cs, ks with
       | (v', _, _, _) :: cs', k :: ks' => (empty_node k \/ Fits (has_glyphs (v_r vc)) v' k) /\ go cs' ks'
       | _, _ => True
       end) cs ks ->
    H * W <= length (r_data s) ->
    exists s', fold_left (flex_render_step d sub)
      (combine (map (fun ch : fchild => match ch with (v', _, fc, _) => (render vc v', fc) end) cs) ks) (Ok s) = Ok s'.
  Proof.
    induction cs as [|[[[v' fl] fc] al] cs IH]; intros ks s Hall Hfit Hlen.
    - cbn. eauto.
    - destruct ks as [|k ks]; [cbn; eauto|].
      apply Forall_cons_iff in Hall as [Hv' Hcs]. cbn [fst] in Hv'. destruct Hfit as [Hk Hfit].
      cbn [map combine fold_left]. unfold flex_render_step at 2. cbn [bind].
      destruct ((l_hh k =? 0)%N || (l_ww k =? 0)%N) eqn:Hskip; [apply IH; auto|].
      destruct Hk as [He|Hk].
      { exfalso. apply orb_false_iff in Hskip as [A B]. apply N.eqb_neq in A, B. destruct He; contradiction. }
      assert (Her : exists s1, (match fc with
                                | None => Ok s
                                | Some f =>
                                    let* d' := erase (match d with
                                      | Hor => view sub (resolve (sh_height sub) Full)
                                                 (resolve (sh_width sub) (Rng (Z.of_N (l_col k)) (Z.of_N (sat_addN (l_col k) (l_ww k)))))
                                      | Ver => view sub (resolve (sh_height sub) (Rng (Z.of_N (l_row k)) (Z.of_N (sat_addN (l_row k) (l_hh k)))))
                                                 (resolve (sh_width sub) Full)
                                      end) (r_data s) f in Ok (mkR d' (r_log s))
                                end) = Ok s1 /\ H * W <= length (r_data s1)).
      { destruct fc as [f|]; [|eauto].
        assert (Harea : exists area warea, area = (match d with
                    | Hor => view sub (resolve (sh_height sub) Full)
                               (resolve (sh_width sub) (Rng (Z.of_N (l_col k)) (Z.of_N (sat_addN (l_col k) (l_ww k)))))
                    | Ver => view sub (resolve (sh_height sub) (Rng (Z.of_N (l_row k)) (Z.of_N (sat_addN (l_row k) (l_hh k)))))
                               (resolve (sh_width sub) Full)
                    end) /\ Rep H W area warea).
        { destruct d.
          - destruct (rep_subview H W sub wsub Full (Rng (Z.of_N (l_col k)) (Z.of_N (sat_addN (l_col k) (l_ww k)))) Hmax Hsub I (usel_rng _ _))
              as (w' & R & _). eauto.
          - destruct (rep_subview H W sub wsub (Rng (Z.of_N (l_row k)) (Z.of_N (sat_addN (l_row k) (l_hh k)))) Full Hmax Hsub (usel_rng _ _) I)
              as (w' & R & _). eauto. }
        destruct Harea as (area & warea & <- & Rarea).
        destruct (erase_ok H W area warea (r_data s) f Rarea Hlen) as (d' & -> & [Le _]). cbn [bind].
        eexists. split; [reflexivity|]. cbn. lia. }
      destruct Her as (s1 & -> & Hlen1). cbn [bind].
      destruct (Hv' k sub wsub s1 Hk Hsub Hlen1) as (s2 & E2). rewrite E2.
      apply IH; auto.
      pose proof (render_safe H W Hmax vc v' k sub wsub s1 Hsub Hlen1) as Hs. rewrite E2 in Hs. destruct Hs as [-> _]. exact Hlen1.
  Qed.

  Theorem render_ok v : RenderOk v.
  Proof.
    induction v using vtree_rect; intros t sh w s Hfit Hrep Hlen; cbn [render Fits] in *;
      destruct (rep_apply_to H W sh w t Hmax Hrep) as (wsub & Rsub & Ssub).
    - pose proof (write_cells_safe H W vc (apply_to sh t) wsub (r_data s) wraps cells Rsub Hlen) as Hs.
      destruct (write_cells _ _ _ _ _) as [d'|e| |] eqn:Ew; cbn in *; try contradiction; [eauto|].
      exfalso. unfold write_cells in Ew.
      destruct (put_cells_safe (v_r vc) cells (set_wraps (writer_new (apply_to sh t) (r_data s)) wraps)) as (st' & Ep & _);
        [cbn; eapply rep_inbounds; eauto|]. rewrite Ep in Ew. discriminate.
    - pose proof (write_cells_safe H W vc (apply_to sh t) wsub (r_data s) true (str_cells chars) Rsub Hlen) as Hs.
      destruct (write_cells _ _ _ _ _) as [d'|e| |] eqn:Ew; cbn in *; try contradiction; [eauto|].
      exfalso. unfold write_cells in Ew.
      destruct (put_cells_safe (v_r vc) (str_cells chars) (set_wraps (writer_new (apply_to sh t) (r_data s)) true)) as (st' & Ep & _);
        [cbn; eapply rep_inbounds; eauto|]. rewrite Ep in Ew. discriminate.
    - apply (flex_fold_ok d (apply_to sh t) wsub Rsub cs (l_kids t) s); auto.
    - destruct Hfit as (k & ks & Ek & Fk). rewrite Ek.
      assert (He : exists d1, (if face_is_default fc then Ok (r_data s) else erase (apply_to sh t) (r_data s) fc) = Ok d1 /\
                               H * W <= length d1).
      { destruct (face_is_default fc); [eauto|].
        destruct (erase_ok H W _ _ (r_data s) fc Rsub Hlen) as (d1 & -> & [Le _]). eexists. split; [reflexivity|lia]. }
      destruct He as (d1 & -> & Hlen1). cbn [bind]. apply (IHv k (apply_to sh t) wsub (mkR d1 (r_log s)) Fk Rsub Hlen1).
    - destruct (has_glyphs (v_r vc)) eqn:Hg.
      + destruct Hfit as (k & ks & Ek & Fk). rewrite Ek. rewrite <- Hg in Fk.
        destruct (fill_with_safe H W (apply_to sh t) wsub (r_data s)
                    (fun r c old => frame_cell (v_frag vc) color (sh_width (apply_to sh t)) (sh_height (apply_to sh t)) c r old) Rsub Hlen)
          as (d1 & -> & [L1 _]).
        cbn [of_opt bind]. apply (IHv k (apply_to sh t) wsub (mkR d1 (r_log s)) Fk Rsub). cbn. lia.
      + rewrite <- Hg in Hfit. apply (IHv t sh w s Hfit Hrep Hlen).
    - destruct (major d (l_hh t) (l_ww t) =? 0)%N; [eauto|].
      destruct (scroll_thumb _ _ _ _) as [size offset].
      match goal with |- context [write_cells vc ?a ?b ?c ?cells] =>
        destruct (put_cells_safe (v_r vc) cells (set_wraps (writer_new a b) c)) as (st' & Ep & _);
          [cbn; eapply rep_inbounds; eauto|]; unfold write_cells; rewrite Ep end.
      cbn. eauto.
    - destruct Hfit as (k & ks & Ek & Fk). rewrite Ek. apply (IHv k (apply_to sh t) wsub s Fk Rsub Hlen).
    - eauto.
    - destruct Hfit as (c & k & ks & Ed & Ek & Fk). rewrite Ed, Ek. apply (H0 c k (apply_to sh t) wsub s Fk Rsub Hlen).
    - destruct (fill_with_safe H W (apply_to sh t) wsub (r_data s) (fun _ _ _ => mkCell (mkFace None (Some color) 0) (KChar 32)) Rsub Hlen)
        as (d1 & E1 & _).
      unfold fill_cells, fill. rewrite E1. cbn. eauto.
    - eauto.
    - destruct (get _ _ 0 0); [|eauto]. destruct (image_cells vc _ _) as [h' w']. eauto.
    - destruct (has_glyphs (v_r vc)).
      + destruct (get _ _ 0 0); eauto.
      + match goal with |- context [write_cells vc ?a ?b ?c ?cells] =>
          destruct (put_cells_safe (v_r vc) cells (set_wraps (writer_new a b) c)) as (st' & Ep & _);
            [cbn; eapply rep_inbounds; eauto|]; unfold write_cells; rewrite Ep end.
        cbn. eauto.
    - destruct (fill_with_safe H W (apply_to sh t) wsub (r_data s) (fun _ _ _ => mkCell face0 (KChar (61440 + id))) Rsub Hlen)
        as (d1 & E1 & _).
      unfold fill_cells, fill. rewrite E1. cbn. eauto.
    - match goal with |- context [Shape.view (apply_to sh t) (resolve _ (To ?a)) (resolve _ (To ?b))] =>
        destruct (rep_subview H W (apply_to sh t) wsub (To a) (To b) Hmax Rsub ltac:(cbn; lia) ltac:(cbn; lia))
          as (warea & Rarea & _) end.
      match goal with |- context [fill_with ?area (r_data s) ?f] =>
        destruct (fill_with_safe H W area warea (r_data s) f Rarea Hlen) as (d1 & -> & _) end.
      cbn. eauto.
    - match goal with |- context [fill_with (apply_to sh t) (r_data s) ?f] =>
        destruct (fill_with_safe H W (apply_to sh t) wsub (r_data s) f Rsub Hlen) as (d1 & -> & _) end.
      cbn. eauto.
    - eauto.
    - destruct Hfit as (k & ks & Ed & Ek & Fk). rewrite Ed, Ek. apply (IHv k (apply_to sh t) wsub s Fk Rsub Hlen).
  Qed.

  (* layout followed by render completes *)
  Theorem layout_render_total v c sh w s : Valid c -> Rep H W sh w -> H * W <= length (r_data s) ->
    exists t s', layout vc v c = Ok t /\ render vc v t sh s = Ok s' /\ Frame sh (r_data s) (r_data s').
  Proof.
    intros Hv Hrep Hlen. destruct (layout_total vc v c Hv) as (t & El).
    destruct (render_ok v t sh w s (layout_fits vc v c t El) Hrep Hlen) as (s' & Er).
    exists t, s'. split; [exact El|]. split; [exact Er|].
    pose proof (render_safe H W Hmax vc v t sh w s Hrep Hlen) as Hs. rewrite Er in Hs. exact Hs.
  Qed.
End Render.
