(* The last clause of the property: hit-testing a cell a leaf paints leads to that leaf's layout node.
   `paint_paths` is `paints` with, for every leaf, the chain of child indices of its layout node;
   for a layout tree whose siblings are disjoint (every tree View::layout produces), every cell of the
   window a leaf is handed is a position for which find_path descends along exactly that chain. *)
From Coq Require Import List Arith Bool NArith ZArith Lia.
From SNT Require Import Base.Outcome Surface.Bounds Surface.BoundsProofs Surface.Shape Surface.ShapeProofs
  Render.CellLayout Render.Writer View.ViewModel View.LayoutProofs View.RenderProofs View.PaintProofs View.DisjointProofs.
Import ListNotations.

Definition pentry : Type := (N * window * list nat)%type.
Definition pre (i : nat) (e : pentry) : pentry := (fst e, i :: snd e).

Fixpoint paint_paths (glyphs : bool) (v : vtree) (t : ltree) (w : window) {struct v} : list pentry :=
  match v with
  | VProbe id _ _ => [(id, win_apply w t, [])]
  | VText _ _ => [((LEAF_TAG + 1)%N, win_apply w t, [])]
  | VStr _ => [((LEAF_TAG + 2)%N, win_apply w t, [])]
  | VScrollBar d _ _ _ _ =>
      if (major d (l_hh t) (l_ww t) =? 0)%N then [] else [((LEAF_TAG + 6)%N, win_apply w t, [])]
  | VFill _ => [((LEAF_TAG + 10)%N, win_apply w t, [])]
  | VImage _ _ _ => [((LEAF_TAG + 12)%N, win_apply w t, [])]
  | VGlyph _ _ _ _ => [((LEAF_TAG + 13)%N, win_apply w t, [])]
  | VSurface _ _ _ => [((LEAF_TAG + 15)%N, win_apply w t, [])]
  | VImageAscii _ _ _ => [((LEAF_TAG + 16)%N, win_apply w t, [])]
  | VFlex _ _ cs =>
      let sub := win_apply w t in
      (fix go (cs : list fchild) (ks : list ltree) (i : nat) {struct cs} : list pentry :=
         match cs, ks with
         | (v', _, _, _) :: cs', k :: ks' =>
             (if (l_hh k =? 0)%N || (l_ww k =? 0)%N then [] else map (pre i) (paint_paths glyphs v' k sub)) ++ go cs' ks' (S i)
         | _, _ => []
         end) cs (l_kids t) 0
  | VContainer child _ _ _ _ _ _ =>
      match l_kids t with k :: _ => map (pre 0) (paint_paths glyphs child k (win_apply w t)) | [] => [] end
  | VFrame child _ =>
      if glyphs then match l_kids t with k :: _ => map (pre 0) (paint_paths glyphs child k (win_apply w t)) | [] => [] end
      else paint_paths glyphs child t w
  | VTag _ child =>
      match l_kids t with k :: _ => map (pre 0) (paint_paths glyphs child k (win_apply w t)) | [] => [] end
  | VDynamic build =>
      match l_data t, l_kids t with
      | DCt c, k :: _ => map (pre 0) (paint_paths glyphs (build c) k (win_apply w t))
      | _, _ => []
      end
  | VRef (Some v') =>
      match l_data t, l_kids t with
      | DRef, k :: _ => map (pre 0) (paint_paths glyphs v' k (win_apply w t))
      | _, _ => []
      end
  | _ => []
  end.

Lemma map_fst_pre i l : map fst (map (pre i) l) = map fst l.
Proof. rewrite map_map. reflexivity. Qed.

(* forgetting the chains gives back `paints` *)
Theorem paint_paths_fst g v : forall t w, map fst (paint_paths g v t w) = paints g v t w.
Proof.
  induction v using vtree_rect; intros t w; cbn [paint_paths paints]; try reflexivity.
  - (* flex *)
    generalize (l_kids t). generalize 0. induction cs as [|[[[v' fl] fc] al] cs IHc]; intros i ks; [reflexivity|].
    destruct ks as [|k ks]; [reflexivity|]. apply Forall_cons_iff in H as [Hv Hcs].
    rewrite map_app. rewrite (IHc Hcs). f_equal.
    destruct ((l_hh k =? 0)%N || (l_ww k =? 0)%N); [reflexivity|]. rewrite map_fst_pre. apply Hv.
  - destruct (l_kids t); [reflexivity|]. rewrite map_fst_pre. apply IHv.
  - destruct g; [|apply IHv]. destruct (l_kids t); [reflexivity|]. rewrite map_fst_pre. apply IHv.
  - destruct (major d (l_hh t) (l_ww t) =? 0)%N; reflexivity.
  - destruct (l_kids t); [reflexivity|]. rewrite map_fst_pre. apply IHv.
  - destruct (l_data t); try reflexivity. destruct (l_kids t); [reflexivity|]. rewrite map_fst_pre. apply H.
  - destruct (l_data t); try reflexivity. destruct (l_kids t); [reflexivity|]. rewrite map_fst_pre. apply IHv.
Qed.

(* ---------- one step: a cell of a child's window, seen from the parent's window ---------- *)
Lemma py_resolve_rng_spec dim a b rs re :
  py_resolve dim (Rng (Z.of_N a) (Z.of_N b)) = Some (rs, re) ->
  rs = N.to_nat a /\ rs < re /\ re <= dim /\ (N.of_nat re <= b)%N.
Proof.
  unfold py_resolve, py_slice, py_bound.
  destruct (Z.of_N a <? 0)%Z eqn:Ea; [apply Z.ltb_lt in Ea; lia|].
  destruct (Z.of_N b <? 0)%Z eqn:Eb; [apply Z.ltb_lt in Eb; lia|].
  destruct (Z.min (Z.of_N a) (Z.of_nat dim) <? Z.min (Z.of_N b) (Z.of_nat dim))%Z eqn:E; [|discriminate].
  apply Z.ltb_lt in E. intros [= <- <-]. lia.
Qed.

Lemma win_apply_point w k i j : i < w_h (win_apply w k) -> j < w_w (win_apply w k) ->
  let R := N.to_nat (l_row k) + i in
  let C := N.to_nat (l_col k) + j in
  win_coord (win_apply w k) i j = win_coord w R C /\ R < w_h w /\ C < w_w w /\
  contains k (N.of_nat R) (N.of_nat C) /\
  (N.of_nat R - l_row k = N.of_nat i)%N /\ (N.of_nat C - l_col k = N.of_nat j)%N.
Proof.
  unfold win_apply, rows_of, cols_of.
  destruct (py_resolve (w_h w) _) as [[rs re]|] eqn:Er;
    [|destruct (py_resolve (w_w w) _) as [[? ?]|]; cbn; lia].
  destruct (py_resolve (w_w w) _) as [[cs ce]|] eqn:Ec; [|cbn; lia].
  apply py_resolve_rng_spec in Er as (-> & Hr1 & Hr2 & Hr3).
  apply py_resolve_rng_spec in Ec as (-> & Hc1 & Hc2 & Hc3).
  unfold win_view, win_coord, contains. destruct (w_t w); cbn [w_h w_w w_r0 w_c0 w_t]; intros Hi Hj;
    (split; [f_equal; lia|]); repeat split; lia.
Qed.

(* ---------- the statement ---------- *)
(* e = (leaf, window handed to the leaf, chain of child indices): every cell (i, j) of that window is the
   cell (R, C) of the surface the root node draws into (win_apply w t; positions relative to the root node,
   as Layout::find_path takes them), and find_path from there starts with the chain *)
Definition HitOk (t : ltree) (w : window) (e : pentry) : Prop :=
  forall i j, i < w_h (snd (fst e)) -> j < w_w (snd (fst e)) ->
  exists R C, win_coord (snd (fst e)) i j = win_coord (win_apply w t) R C /\
    R < w_h (win_apply w t) /\ C < w_w (win_apply w t) /\
    forall fuel, depth t <= fuel ->
      firstn (length (snd e)) (find_path fuel t (N.of_nat R) (N.of_nat C)) = snd e.

Lemma hit_leaf t w id : HitOk t w (id, win_apply w t, []).
Proof. intros i j Hi Hj. exists i, j. cbn. auto. Qed.

Lemma hit_descend t w n k e : DisjTree t -> nth_error (l_kids t) n = Some k ->
  HitOk k (win_apply w t) e -> HitOk t w (pre n e).
Proof.
  intros Hd Hn Hk i j Hi Hj. destruct (Hk i j Hi Hj) as (R' & C' & Ec & HR' & HC' & Hp).
  destruct (win_apply_point (win_apply w t) k R' C' HR' HC') as (Ec2 & HR & HC & Hcont & ER & EC).
  exists (N.to_nat (l_row k) + R'), (N.to_nat (l_col k) + C'). cbn [pre fst snd].
  split; [rewrite Ec; exact Ec2|]. split; [exact HR|]. split; [exact HC|].
  intros fuel Hf. destruct fuel as [|f]; [destruct t; cbn in Hf; lia|].
  cbn [find_path]. inversion Hd as [r c h ww d kids Hpair Hall Et]. subst t. cbn [l_kids] in *.
  rewrite (disjoint_hit_unique kids n k _ _ Hpair Hn Hcont).
  rewrite ER, EC. cbn [length firstn]. f_equal. apply Hp.
  pose proof (depth_kid (LNode r c h ww d kids) k (nth_error_In _ _ Hn)). lia.
Qed.

Lemma disj_kid t n k : DisjTree t -> nth_error (l_kids t) n = Some k -> DisjTree k.
Proof.
  intros Hd Hn. inversion Hd as [r c h ww d kids Hpair Hall Et]. subst t. cbn [l_kids] in Hn.
  rewrite Forall_forall in Hall. apply Hall. eapply nth_error_In; eauto.
Qed.

Lemma forall_pre t w n k l : DisjTree t -> nth_error (l_kids t) n = Some k ->
  Forall (HitOk k (win_apply w t)) l -> Forall (HitOk t w) (map (pre n) l).
Proof.
  intros Hd Hn Hl. apply Forall_map. eapply Forall_impl; [|exact Hl]. intros e He. eapply hit_descend; eauto.
Qed.

Theorem paint_hit g v : forall t w, DisjTree t -> Forall (HitOk t w) (paint_paths g v t w).
Proof.
  induction v using vtree_rect; intros t w Hd; cbn [paint_paths]; try (constructor; [apply hit_leaf|constructor]);
    try constructor.
  - (* flex *)
    assert (Hgo : forall (cs0 : list fchild) ks i,
              Forall (fun ch : fchild => forall t w, DisjTree t -> Forall (HitOk t w) (paint_paths g (fst (fst (fst ch))) t w)) cs0 ->
              (forall m k, nth_error ks m = Some k -> nth_error (l_kids t) (i + m) = Some k) ->
              Forall (HitOk t w)
                ((fix go (cs : list fchild) (ks : list ltree) (i : nat) {struct cs} : list pentry :=
                    match cs, ks with
                    | (v', _, _, _) :: cs', k :: ks' =>
                        (if (l_hh k =? 0)%N || (l_ww k =? 0)%N then [] else map (pre i) (paint_paths g v' k (win_apply w t))) ++ go cs' ks' (S i)
                    | _, _ => []
                    end) cs0 ks i)).
    { induction cs0 as [|[[[v' fl] fc] al] cs0 IHc]; intros ks i Hall Hks; [constructor|].
      destruct ks as [|k ks]; [constructor|]. apply Forall_cons_iff in Hall as [Hv Hcs]. cbn [fst] in Hv.
      apply Forall_app. split.
      - destruct ((l_hh k =? 0)%N || (l_ww k =? 0)%N); [constructor|].
        assert (Hn : nth_error (l_kids t) i = Some k) by (rewrite <- (Nat.add_0_r i); apply Hks; reflexivity).
        eapply forall_pre; eauto. apply Hv. eapply disj_kid; eauto.
      - apply IHc; [exact Hcs|]. intros m k' Hm. replace (S i + m) with (i + S m) by lia. apply Hks. exact Hm. }
    apply Hgo; [exact H|]. intros m k Hm. exact Hm.
  - (* container *)
    destruct (l_kids t) as [|k ks] eqn:Ek; [constructor|].
    assert (Hn : nth_error (l_kids t) 0 = Some k) by (rewrite Ek; reflexivity).
    eapply forall_pre; eauto. apply IHv. eapply disj_kid; eauto.
  - (* frame *)
    destruct g; [|now apply IHv].
    destruct (l_kids t) as [|k ks] eqn:Ek; [constructor|].
    assert (Hn : nth_error (l_kids t) 0 = Some k) by (rewrite Ek; reflexivity).
    eapply forall_pre; eauto. apply IHv. eapply disj_kid; eauto.
  - (* scroll bar *)
    destruct (major d (l_hh t) (l_ww t) =? 0)%N; constructor; [apply hit_leaf|constructor].
  - (* tag *)
    destruct (l_kids t) as [|k ks] eqn:Ek; [constructor|].
    assert (Hn : nth_error (l_kids t) 0 = Some k) by (rewrite Ek; reflexivity).
    eapply forall_pre; eauto. apply IHv. eapply disj_kid; eauto.
  - (* dynamic *)
    destruct (l_data t); try constructor. destruct (l_kids t) as [|k ks] eqn:Ek; [constructor|].
    assert (Hn : nth_error (l_kids t) 0 = Some k) by (rewrite Ek; reflexivity).
    eapply forall_pre; eauto. apply H. eapply disj_kid; eauto.
  - (* cached view *)
    destruct (l_data t); try constructor. destruct (l_kids t) as [|k ks] eqn:Ek; [constructor|].
    assert (Hn : nth_error (l_kids t) 0 = Some k) by (rewrite Ek; reflexivity).
    eapply forall_pre; eauto. apply IHv. eapply disj_kid; eauto.
Qed.

Theorem paint_hit_paths g v t w : DisjTree t ->
  map fst (paint_paths g v t w) = paints g v t w /\ Forall (HitOk t w) (paint_paths g v t w).
Proof. intros Hd. split; [apply paint_paths_fst|now apply paint_hit]. Qed.

(* for the tree View::layout itself produces, no hypothesis on the tree is left *)
Corollary layout_paint_hit vc v c t w : layout vc v c = Ok t ->
  map fst (paint_paths (has_glyphs (v_r vc)) v t w) = paints (has_glyphs (v_r vc)) v t w /\
  Forall (HitOk t w) (paint_paths (has_glyphs (v_r vc)) v t w).
Proof. intros E. apply paint_hit_paths. eapply layout_disjoint; eauto. Qed.
