(* Siblings never share a point: in every layout tree View::layout produces, the rectangles of the
   children of one node are pairwise disjoint, so Layout::find_path does not depend on the order in
   which children are tried.  Only Flex has more than one child; its placing pass puts every child
   at the running offset and advances the offset by the child's extent (saturating), so along the
   main axis child i ends (saturating) no later than child i+1 starts.  Layout trees built by hand
   (Layout::push with arbitrary positions) can overlap; for those find_path_follows (first match)
   is the statement. *)
From Coq Require Import List Arith Bool NArith ZArith Lia.
From SNT Require Import Base.Outcome Surface.Bounds Surface.Shape
  Render.CellLayout Render.Writer View.ViewModel View.LayoutProofs View.RenderProofs View.PaintProofs.
Import ListNotations.
Local Open Scope N_scope.

Definition no_common_point (a b : ltree) : Prop := forall r c, contains a r c -> ~ contains b r c.

(* every node's children are pairwise disjoint *)
Inductive DisjTree : ltree -> Prop :=
| DT r c h w d kids : ForallOrdPairs no_common_point kids -> Forall DisjTree kids -> DisjTree (LNode r c h w d kids).

Lemma disj_leaf r c h w d : DisjTree (LNode r c h w d []).
Proof. constructor; constructor. Qed.

Lemma disj_one r c h w d k : DisjTree k -> DisjTree (LNode r c h w d [k]).
Proof. intros Hk. constructor; [repeat constructor|repeat constructor; exact Hk]. Qed.

Lemma disj_set_pos t r c : DisjTree t -> DisjTree (set_pos t r c).
Proof. intros Ht. destruct Ht. unfold set_pos. cbn. now constructor. Qed.

(* ---------- the placing pass of Flex ---------- *)
Definition mpos (d : axis) (k : ltree) : N := major d (l_row k) (l_col k).
Definition msize (d : axis) (k : ltree) : N := major d (l_hh k) (l_ww k).
Definition before (d : axis) (a b : ltree) : Prop := sat_addN (mpos d a) (msize d a) <= mpos d b.

Lemma before_disjoint d a b : before d a b -> no_common_point a b.
Proof.
  unfold before, no_common_point, contains, mpos, msize. intros Hb r c (A1 & A2 & A3 & A4) (B1 & B2 & B3 & B4).
  destruct d; cbn [major] in Hb; lia.
Qed.

Lemma fop_snoc {A} (R : A -> A -> Prop) l x :
  ForallOrdPairs R l -> Forall (fun y => R y x) l -> ForallOrdPairs R (l ++ [x]).
Proof.
  induction 1 as [|a l Ha Hl IH]; intros Hx; cbn.
  - repeat constructor.
  - apply Forall_cons_iff in Hx as [Hax Hlx]. constructor; [|apply IH; exact Hlx].
    apply Forall_app. split; [exact Ha|]. repeat constructor. exact Hax.
Qed.

Lemma fop_impl {A} (R S : A -> A -> Prop) l : (forall a b, R a b -> S a b) -> ForallOrdPairs R l -> ForallOrdPairs S l.
Proof.
  intros HRS. induction 1 as [|a l Ha Hl IH]; constructor; [|exact IH].
  eapply Forall_impl; [|exact Ha]. intros b. apply HRS.
Qed.

Lemma place_before d mn between : forall (l : list (lchild * ltree)) placed off placed' off',
  ForallOrdPairs (before d) placed ->
  Forall (fun k => sat_addN (mpos d k) (msize d k) <= off) placed ->
  fold_left (flex_place d mn between) l (placed, off) = (placed', off') ->
  ForallOrdPairs (before d) placed'.
Proof.
  induction l as [|[[[lay fl] al] t] l IH]; intros placed off placed' off' Hp Hb E.
  - cbn in E. injection E as <- _. exact Hp.
  - cbn [fold_left] in E. unfold flex_place at 2 in E.
    destruct (from_axes d off (align_pos al (minor d (l_hh t) (l_ww t)) mn)) as [r c] eqn:Ef.
    assert (Hm : mpos d (set_pos t r c) = off /\ msize d (set_pos t r c) = major d (l_hh t) (l_ww t)).
    { unfold mpos, msize, set_pos. cbn. destruct d; cbn in *; injection Ef as <- <-; auto. }
    destruct Hm as [Hm1 Hm2].
    eapply IH; [| |exact E].
    + apply fop_snoc; [exact Hp|]. eapply Forall_impl; [|exact Hb]. intros k Hk. unfold before. rewrite Hm1. exact Hk.
    + apply Forall_app. split.
      * eapply Forall_impl; [|exact Hb]. intros k Hk. cbn beta in *. unfold sat_addN in *. lia.
      * repeat constructor. rewrite Hm1, Hm2. unfold sat_addN. lia.
Qed.

Lemma place_disj d mn between : forall (l : list (lchild * ltree)) placed off placed' off',
  Forall (fun x => DisjTree (snd x)) l -> Forall DisjTree placed ->
  fold_left (flex_place d mn between) l (placed, off) = (placed', off') -> Forall DisjTree placed'.
Proof.
  induction l as [|[[[lay fl] al] t] l IH]; intros placed off placed' off' Hl Hp E.
  - cbn in E. injection E as <- _. exact Hp.
  - apply Forall_cons_iff in Hl as [Ht Hl]. cbn [fold_left] in E. unfold flex_place at 2 in E.
    destruct (from_axes d off _) as [r c]. eapply IH; [exact Hl| |exact E].
    apply Forall_app. split; [exact Hp|]. constructor; [|constructor]. apply disj_set_pos. exact Ht.
Qed.

(* ---------- the two measuring passes keep the property of the children's trees ---------- *)
Definition lay_disj (ch : lchild) : Prop := forall c t, fst (fst ch) c = Ok t -> DisjTree t.

Lemma pass1_disj d cl : forall (cs : list lchild) a p, Forall lay_disj cs -> Forall DisjTree (f1_trees a) ->
  fold_left (flex_pass1 d cl) cs (Ok a) = Ok p -> Forall DisjTree (f1_trees p).
Proof.
  assert (Hnotok : forall l (x : outcome fl1), (forall s, x <> Ok s) -> fold_left (flex_pass1 d cl) l x = x).
  { induction l as [|a l IHl]; intros x Hx; cbn; auto.
    rewrite IHl; destruct x; cbn; auto; try congruence; exfalso; eapply Hx; eauto. }
  induction cs as [|[[lay fl] al] cs IH]; intros a p Hall Ha E.
  - cbn in E. injection E as <-. exact Ha.
  - apply Forall_cons_iff in Hall as [Hc Hcs]. cbn [fold_left] in E. unfold flex_pass1 at 2 in E. cbn [bind] in E.
    destruct fl as [f|].
    + eapply IH; [exact Hcs| |exact E]. cbn [f1_trees]. apply Forall_app. split; [exact Ha|]. repeat constructor.
    + destruct (lay cl) as [t0| | |] eqn:El; cbn [bind] in E; try (rewrite Hnotok in E by congruence; discriminate).
      eapply IH; [exact Hcs| |exact E]. cbn [f1_trees]. apply Forall_app. split; [exact Ha|].
      repeat constructor. exact (Hc cl t0 El).
Qed.

Lemma pass2_disj share d cl : forall (cs : list lchild) (ts : list ltree) a p,
  Forall lay_disj cs -> Forall DisjTree ts -> Forall DisjTree (f2_trees a) ->
  fold_left (flex_pass2 share d cl) (combine cs ts) (Ok a) = Ok p -> Forall DisjTree (f2_trees p).
Proof.
  assert (Hnotok : forall l (x : outcome fl2), (forall s, x <> Ok s) -> fold_left (flex_pass2 share d cl) l x = x).
  { induction l as [|a l IHl]; intros x Hx; cbn; auto.
    rewrite IHl; destruct x; cbn; auto; try congruence; exfalso; eapply Hx; eauto. }
  induction cs as [|[[lay fl] al] cs IH]; intros ts a p Hall Hts Ha E.
  - cbn in E. injection E as <-. exact Ha.
  - destruct ts as [|t0 ts]; [cbn in E; injection E as <-; exact Ha|].
    apply Forall_cons_iff in Hall as [Hc Hcs]. apply Forall_cons_iff in Hts as [Ht0 Hts].
    cbn [combine fold_left] in E. unfold flex_pass2 at 2 in E. cbn [bind] in E.
    destruct fl as [f|].
    + destruct (N.min (share (f2_idx a) (f2_remain a)) (f2_remain a) =? 0).
      * eapply IH; [exact Hcs|exact Hts| |exact E]. cbn [f2_trees]. apply Forall_app. split; [exact Ha|]. repeat constructor. exact Ht0.
      * destruct (lay _) as [t1| | |] eqn:El; cbn [bind] in E; try (rewrite Hnotok in E by congruence; discriminate).
        eapply IH; [exact Hcs|exact Hts| |exact E]. cbn [f2_trees]. apply Forall_app. split; [exact Ha|].
        repeat constructor. exact (Hc _ t1 El).
    + eapply IH; [exact Hcs|exact Hts| |exact E]. cbn [f2_trees]. apply Forall_app. split; [exact Ha|]. repeat constructor. exact Ht0.
Qed.

Lemma forall_combine_snd {A B} (P : B -> Prop) : forall (l1 : list A) (l2 : list B),
  Forall P l2 -> Forall (fun x => P (snd x)) (combine l1 l2).
Proof.
  induction l1 as [|a l1 IH]; intros [|b l2] Hl; cbn; try constructor.
  - apply Forall_cons_iff in Hl. tauto.
  - apply IH. apply Forall_cons_iff in Hl. tauto.
Qed.

Lemma flex_layout_disj share d j c cs t : Forall lay_disj cs -> flex_layout share d j c cs = Ok t -> DisjTree t.
Proof.
  intros Hall E. unfold flex_layout in E.
  destruct (fold_left (flex_pass1 d (ct_loosen c)) cs _) as [p1| | |] eqn:E1; try discriminate. cbn [bind] in E.
  pose proof (pass1_disj d (ct_loosen c) cs (mkFl1 [] 0 (minor d (c_minh c) (c_minw c)) 0) p1 Hall (Forall_nil _) E1) as D1.
  match type of E with (let* p2 := ?x in _) = _ => destruct x as [p2| | |] eqn:E2 end; try discriminate. cbn [bind] in E.
  assert (D2 : Forall DisjTree (f2_trees p2)).
  { destruct ((0 <? _) && (0 <? f1_total p1)).
    - exact (pass2_disj _ d (ct_loosen c) cs (f1_trees p1) (mkFl2 [] _ 0 (f1_minor p1) 0%nat) p2 Hall D1 (Forall_nil _) E2).
    - injection E2 as <-. exact D1. }
  destruct (flex_spaces _ _ _) as [sp| | |] eqn:Es; try discriminate. cbn [bind] in E.
  rewrite flex_place_chk_ok in E. cbn [bind] in E.
  destruct (fold_left (flex_place _ _ _) _ _) as [placed off] eqn:E3.
  destruct (from_axes d off (f2_minor p2)) as [h w].
  destruct (ct_clamp c h w) as [hw| | |]; try discriminate. cbn [bind] in E. injection E as <-.
  constructor.
  - eapply fop_impl; [intros a b; apply before_disjoint|].
    exact (place_before d _ _ _ [] (fst sp) placed off (FOP_nil _) (Forall_nil _) E3).
  - exact (place_disj d _ _ _ [] (fst sp) placed off (forall_combine_snd _ _ _ D2) (Forall_nil _) E3).
Qed.

(* ---------- every tree View::layout produces ---------- *)
Theorem layout_disjoint vc v : forall c t, layout vc v c = Ok t -> DisjTree t.
Proof.
  assert (Hleaf : forall c h w t, leaf_clamped c h w = Ok t -> DisjTree t).
  { intros c h w t. unfold leaf_clamped. destruct (ct_clamp c h w); cbn; try discriminate. intros [= <-]. apply disj_leaf. }
  assert (Htext : forall cells wraps c t, text_layout_v vc cells wraps c = Ok t -> DisjTree t).
  { intros cells wraps c t. unfold text_layout_v. destruct (text_size _ _ _ _). apply Hleaf. }
  induction v using vtree_rect; intros c t E; cbn [layout] in E; eauto.
  - (* flex *)
    eapply flex_layout_disj; [|exact E].
    apply Forall_map. eapply Forall_impl; [|exact H]. intros [[[v' fl] fc] al] Hv. unfold lay_disj. cbn [fst]. exact Hv.
  - (* container *)
    unfold container_layout in E.
    destruct (if sz_h =? 0 then _ else _) as [ch| | |]; try discriminate. cbn [bind] in E.
    destruct (if sz_w =? 0 then _ else _) as [cw| | |]; try discriminate. cbn [bind] in E.
    destruct (layout vc v _) as [t0| | |] eqn:El; try discriminate. cbn [bind] in E.
    rewrite !align_chk_ok in E. cbn [bind] in E.
    destruct (if align_eqb av AShrink then _ else _) as [x| | |]; try discriminate. cbn [bind] in E.
    destruct (if align_eqb ah AShrink then _ else _) as [y| | |]; try discriminate. cbn [bind] in E.
    injection E as <-. apply disj_one. apply disj_set_pos. eapply IHv; eauto.
  - (* frame *)
    destruct (has_glyphs (v_r vc)); [|eauto].
    destruct (layout vc v _) as [t0| | |] eqn:El; try discriminate. cbn [bind] in E. injection E as <-.
    apply disj_one. apply disj_set_pos. eapply IHv; eauto.
  - (* scroll bar *)
    destruct (from_axes d _ 1) as [h w]. rewrite usub_ok in E by lia. cbn [bind] in E.
    destruct (from_axes d 0 _) as [r cc]. injection E as <-. apply disj_leaf.
  - destruct (layout vc v c) as [t0| | |] eqn:El; try discriminate. cbn [bind] in E. injection E as <-.
    apply disj_one. eauto.
  - injection E as <-. apply disj_leaf.
  - destruct (layout vc (build c) c) as [t0| | |] eqn:El; try discriminate. cbn [bind] in E. injection E as <-.
    apply disj_one. eapply H; eauto.
  - injection E as <-. apply disj_leaf.
  - injection E as <-. apply disj_leaf.
  - destruct (image_cells vc ph pw). eauto.
  - destruct (has_glyphs (v_r vc)); eauto.
  - injection E as <-. apply disj_leaf.
  - destruct (layout vc v c) as [t0| | |] eqn:El; try discriminate. cbn [bind] in E. injection E as <-.
    apply disj_one. eauto.
Qed.

(* ---------- consequence for hit-testing ---------- *)
(* among pairwise disjoint children, the child containing the position is found whatever its index:
   the order in which find_path tries the children does not matter *)
Lemma fop_nth {A} (R : A -> A -> Prop) : forall l i j a b, ForallOrdPairs R l -> (i < j)%nat ->
  nth_error l i = Some a -> nth_error l j = Some b -> R a b.
Proof.
  induction l as [|x l IH]; intros i j a b Hp Hij Ha Hb; [destruct i; discriminate|].
  inversion Hp as [|x' l' Hx Hl]; subst.
  destruct j as [|j]; [exfalso; lia|]. cbn in Hb. destruct i as [|i]; cbn in Ha.
  - injection Ha as <-. rewrite Forall_forall in Hx. apply Hx. eapply nth_error_In; eauto.
  - apply (IH i j a b); [assumption|apply Nat.succ_lt_mono; exact Hij|exact Ha|exact Hb].
Qed.

Theorem disjoint_hit_unique kids i k r c : ForallOrdPairs no_common_point kids ->
  nth_error kids i = Some k -> contains k r c -> find_child kids 0 r c = Some (i, k).
Proof.
  intros Hp Hn Hc. destruct (find_child kids 0 r c) as [[j k']|] eqn:Ef.
  - destruct (find_child_spec _ _ _ _ _ _ Ef) as (_ & Hn' & Hc' & Hfirst). rewrite Nat.sub_0_r in Hn', Hfirst.
    destruct (Nat.lt_trichotomy i j) as [Hlt|[->|Hgt]].
    + exfalso. exact (Hfirst i k Hlt Hn Hc).
    + congruence.
    + exfalso. exact (fop_nth _ _ _ _ _ _ Hp Hgt Hn' Hn r c Hc' Hc).
  - exfalso. exact (find_child_none _ _ _ _ Ef k (nth_error_In _ _ Hn) Hc).
Qed.
