(* View::layout: total (never panics) for every tree and every valid constraint, and the sizes of
   text, str, flex, container, image, glyph, fill, unit and probe views lie within the constraint. *)
From Coq Require Import List Arith Bool NArith ZArith Lia.
From SNT Require Import Base.Outcome Surface.Bounds Surface.Shape Render.CellLayout Render.Writer Render.LayoutFacts View.ViewModel.
Import ListNotations.
Local Open Scope N_scope.

(* ---------- induction over view trees ---------- *)
Section VtreeInd.
  Variable P : vtree -> Prop.
  Hypothesis HText : forall cells wraps, P (VText cells wraps).
  Hypothesis HStr : forall chars, P (VStr chars).
  Hypothesis HFlex : forall d j cs, Forall (fun ch : fchild => P (fst (fst (fst ch)))) cs -> P (VFlex d j cs).
  Hypothesis HContainer : forall child fc av ah m sz_h sz_w, P child -> P (VContainer child fc av ah m sz_h sz_w).
  Hypothesis HFrame : forall child color, P child -> P (VFrame child color).
  Hypothesis HScroll : forall d fc o v dn, P (VScrollBar d fc o v dn).
  Hypothesis HTag : forall tag child, P child -> P (VTag tag child).
  Hypothesis HNone : P VNone.
  Hypothesis HDyn : forall build, (forall c, P (build c)) -> P (VDynamic build).
  Hypothesis HFill : forall color, P (VFill color).
  Hypothesis HUnit : P VUnit.
  Hypothesis HImage : forall id ph pw, P (VImage id ph pw).
  Hypothesis HGlyph : forall id gh gw fb, P (VGlyph id gh gw fb).
  Hypothesis HProbe : forall id ph pw, P (VProbe id ph pw).
  Hypothesis HSurface : forall sfh sfw cl, P (VSurface sfh sfw cl).
  Hypothesis HAscii : forall ih iw color, P (VImageAscii ih iw color).
  Hypothesis HRefNone : P (VRef None).
  Hypothesis HRefSome : forall v', P v' -> P (VRef (Some v')).

  Fixpoint vtree_rect (v : vtree) : P v :=
    match v with
    | VText cells wraps => HText cells wraps
    | VStr chars => HStr chars
    | VFlex d j cs =>
        HFlex d j cs
          ((fix go (l : list fchild) : Forall (fun ch : fchild => P (fst (fst (fst ch)))) l :=
              match l with
              | [] => Forall_nil _
              | ch :: t =>
                  Forall_cons ch
                    (match ch as ch0 return P (fst (fst (fst ch0))) with
                     | (v', _, _, _) => vtree_rect v'
                     end) (go t)
              end) cs)
    | VContainer child fc av ah m sz_h sz_w => HContainer child fc av ah m sz_h sz_w (vtree_rect child)
    | VFrame child color => HFrame child color (vtree_rect child)
    | VScrollBar d fc o v' dn => HScroll d fc o v' dn
    | VTag tag child => HTag tag child (vtree_rect child)
    | VNone => HNone
    | VDynamic build => HDyn build (fun c => vtree_rect (build c))
    | VFill color => HFill color
    | VUnit => HUnit
    | VImage id ph pw => HImage id ph pw
    | VGlyph id gh gw fb => HGlyph id gh gw fb
    | VProbe id ph pw => HProbe id ph pw
    | VSurface sfh sfw cl => HSurface sfh sfw cl
    | VImageAscii ih iw color => HAscii ih iw color
    | VRef None => HRefNone
    | VRef (Some v0) => HRefSome v0 (vtree_rect v0)
    end.
End VtreeInd.

Local Arguments Nat.modulo : simpl never.
Local Arguments Nat.sub : simpl never.
Local Arguments Nat.min : simpl never.
Local Arguments Nat.max : simpl never.
Local Arguments Nat.add : simpl never.

(* ---------- the cap on the available width in text_layout_v is exact ---------- *)
Definition linc (c : lcell) : nat := match c with LSized _ w => w | LTab => 8 | _ => 0 end.

Lemma step_bound maxw wr s c s' p B : layout_step maxw wr s c = (s', p) ->
  (l_c s <= B)%nat -> (l_w s <= B)%nat -> (l_c s' <= B + linc c)%nat /\ (l_w s' <= B + linc c)%nat.
Proof.
  unfold layout_step. destruct c as [| | |h w]; cbn [linc].
  - intros [= <- _]; cbn; lia.
  - intros [= <- _]; cbn; lia.
  - intros [= <- _]; cbn [l_c l_w]. intros Hc Hw. pose proof (Nat.mod_upper_bound (l_c s) 8). lia.
  - destruct ((h =? 0)%nat || (w =? 0)%nat); [intros [= <- _]; lia|].
    destruct (l_c s + w <=? maxw)%nat; [intros [= <- _]; cbn; lia|].
    destruct (negb wr); intros [= <- _]; cbn; lia.
Qed.

Lemma lrun_bound maxw wr cs : forall s B, (l_c s <= B)%nat -> (l_w s <= B)%nat ->
  (l_w (fst (lrun maxw wr s cs)) <= B + fold_right (fun c a => linc c + a) 0 cs)%nat.
Proof.
  induction cs as [|c t IH]; intros s B Hc Hw; [cbn; lia|]. rewrite lrun_cons. cbn [fst fold_right].
  destruct (layout_step maxw wr s c) as [s1 p] eqn:H1. cbn [fst].
  destruct (step_bound _ _ _ _ _ _ B H1 Hc Hw) as [Hc1 Hw1].
  specialize (IH s1 (B + linc c)%nat Hc1 Hw1). lia.
Qed.

Lemma text_bound_linc vc cells :
  text_bound vc cells = fold_right (fun c a => linc c + a)%nat 0%nat
                          (map (fun c => classify (v_r vc) (c_kind c)) (expand (v_r vc) cells)).
Proof.
  unfold text_bound. induction (expand (v_r vc) cells) as [|c t IH]; cbn [fold_right map]; [reflexivity|].
  rewrite IH. destruct (classify (v_r vc) (c_kind c)); reflexivity.
Qed.

(* measuring with the capped width is measuring with the available width *)
Theorem text_size_cap vc cells wraps (maxw : N) :
  text_size (v_r vc) cells wraps (N.to_nat (N.min maxw (N.of_nat (text_bound vc cells)))) =
  text_size (v_r vc) cells wraps (N.to_nat maxw).
Proof.
  destruct (N.le_gt_cases maxw (N.of_nat (text_bound vc cells))) as [Hle|Hgt].
  - rewrite N.min_l by exact Hle. reflexivity.
  - rewrite N.min_r by lia. rewrite Nat2N.id. unfold text_size.
    rewrite (lrun_stable (N.to_nat maxw) (text_bound vc cells)); [reflexivity|lia|].
    pose proof (lrun_bound (N.to_nat maxw) wraps (map (fun c => classify (v_r vc) (c_kind c)) (expand (v_r vc) cells)) l0 0%nat
                  (Nat.le_refl _) (Nat.le_refl _)) as Hb.
    rewrite <- text_bound_linc in Hb. cbn [l_c l_w l0] in Hb. lia.
Qed.

(* ---------- clamp ---------- *)
Lemma clampN_ok v lo hi : lo <= hi -> exists x, clampN v lo hi = Ok x /\ lo <= x <= hi.
Proof.
  intros H. unfold clampN. destruct (hi <? lo) eqn:E; [apply N.ltb_lt in E; lia|].
  eexists. split; [reflexivity|].
  destruct (v <? lo) eqn:E1; [apply N.ltb_lt in E1; lia|]. apply N.ltb_ge in E1.
  destruct (hi <? v) eqn:E2; [apply N.ltb_lt in E2|apply N.ltb_ge in E2]; lia.
Qed.

Lemma clampN_within v lo hi x : clampN v lo hi = Ok x -> lo <= x <= hi.
Proof.
  unfold clampN. destruct (hi <? lo) eqn:E; [discriminate|]. apply N.ltb_ge in E. intros [= <-].
  destruct (v <? lo) eqn:E1; [apply N.ltb_lt in E1; lia|]. apply N.ltb_ge in E1.
  destruct (hi <? v) eqn:E2; [apply N.ltb_lt in E2|apply N.ltb_ge in E2]; lia.
Qed.

Definition Valid (c : ct) : Prop := c_minh c <= c_maxh c /\ c_minw c <= c_maxw c.

Lemma ct_valid_iff c : ct_valid c = true <-> Valid c.
Proof. unfold ct_valid, Valid. rewrite andb_true_iff, !N.leb_le. tauto. Qed.

Definition Within (c : ct) (t : ltree) : Prop :=
  c_minh c <= l_hh t <= c_maxh c /\ c_minw c <= l_ww t <= c_maxw c.

Lemma ct_clamp_ok c h w : Valid c -> exists hw, ct_clamp c h w = Ok hw /\
  c_minh c <= fst hw <= c_maxh c /\ c_minw c <= snd hw <= c_maxw c.
Proof.
  intros [Hh Hw]. unfold ct_clamp.
  destruct (clampN_ok h _ _ Hh) as (h' & -> & Bh). destruct (clampN_ok w _ _ Hw) as (w' & -> & Bw).
  cbn. eexists. split; [reflexivity|]. cbn. auto.
Qed.

Lemma ct_clamp_within c h w hw : ct_clamp c h w = Ok hw ->
  c_minh c <= fst hw <= c_maxh c /\ c_minw c <= snd hw <= c_maxw c.
Proof.
  unfold ct_clamp. destruct (clampN h _ _) as [h'| | |] eqn:E1; try discriminate. cbn.
  destruct (clampN w _ _) as [w'| | |] eqn:E2; try discriminate. cbn. intros [= <-]. cbn.
  split; eapply clampN_within; eauto.
Qed.

Lemma leaf_clamped_ok c h w : Valid c -> exists t, leaf_clamped c h w = Ok t /\ Within c t.
Proof.
  intros Hv. unfold leaf_clamped. destruct (ct_clamp_ok c h w Hv) as (hw & -> & B).
  cbn. eexists. split; [reflexivity|]. exact B.
Qed.

Lemma leaf_clamped_within c h w t : leaf_clamped c h w = Ok t -> Within c t.
Proof.
  unfold leaf_clamped. destruct (ct_clamp c h w) as [hw| | |] eqn:E; try discriminate. cbn.
  intros [= <-]. exact (ct_clamp_within _ _ _ _ E).
Qed.

Lemma text_layout_ok vc cells wraps c : Valid c -> exists t, text_layout_v vc cells wraps c = Ok t /\ Within c t.
Proof.
  intros Hv. unfold text_layout_v. destruct (text_size _ _ _ _) as [h w]. now apply leaf_clamped_ok.
Qed.

(* ---------- flex ---------- *)
Definition LayOk (lay : ct -> outcome ltree) : Prop := forall c, Valid c -> exists t, lay c = Ok t.

Definition lchild_ok (ch : lchild) : Prop := LayOk (fst (fst ch)).

Definition sumf (l : list lchild) : N :=
  fold_right (fun (ch : lchild) a => match snd (fst ch) with Some f => Npos f + a | None => a end) 0 l.

Lemma valid_loosen c : Valid (ct_loosen c).
Proof. split; cbn; lia. Qed.

Lemma valid_axis_ct d c mx : Valid c -> c_minh c = 0 -> c_minw c = 0 -> Valid (axis_ct d c 0 mx).
Proof. intros [Hh Hw] E1 E2. destruct d; split; cbn; lia. Qed.

Lemma flex_pass1_ok d cl (Hcl : Valid cl) : forall cs a,
  Forall lchild_ok cs ->
  exists p, fold_left (flex_pass1 d cl) cs (Ok a) = Ok p /\
    length (f1_trees p) = (length (f1_trees a) + length cs)%nat /\ f1_total p = f1_total a + sumf cs.
Proof.
  induction cs as [|ch t IH]; intros a Hall.
  - exists a. cbn. repeat split; auto; lia.
  - apply Forall_cons_iff in Hall as [Hch Ht]. destruct ch as [[lay fl] al]. cbn [fold_left].
    unfold flex_pass1 at 2. cbn [bind].
    destruct fl as [f|].
    + destruct (IH (mkFl1 (f1_trees a ++ [lnode0]) (f1_nonflex a) (f1_minor a) (f1_total a + Npos f)) Ht)
        as (p & -> & L & T).
      exists p. split; [reflexivity|]. cbn [f1_trees f1_total] in L, T. rewrite app_length in L. cbn in L.
      cbn [sumf fold_right snd fst]. split; [cbn [length]; lia|]. fold (sumf t). lia.
    + destruct (Hch cl Hcl) as (t0 & E). cbn [fst] in E. rewrite E. cbn [bind].
      destruct (IH (mkFl1 (f1_trees a ++ [t0]) (sat_addN (f1_nonflex a) (major d (l_hh t0) (l_ww t0)))
                          (N.max (f1_minor a) (minor d (l_hh t0) (l_ww t0))) (f1_total a)) Ht)
        as (p & -> & L & T).
      exists p. split; [reflexivity|]. cbn [f1_trees f1_total] in L, T. rewrite app_length in L. cbn in L.
      cbn [sumf fold_right snd fst]. split; [cbn [length]; lia|]. fold (sumf t). lia.
Qed.

Lemma flex_pass2_ok share d cl (Hcl : Valid cl) (E1 : c_minh cl = 0) (E2 : c_minw cl = 0) : forall (l : list (lchild * ltree)) a,
  Forall (fun x => lchild_ok (fst x)) l ->
  exists p, fold_left (flex_pass2 share d cl) l (Ok a) = Ok p /\
    length (f2_trees p) = (length (f2_trees a) + length l)%nat.
Proof.
  induction l as [|[ch t0] t IH]; intros a Hall.
  - exists a. cbn. split; auto; lia.
  - apply Forall_cons_iff in Hall as [Hch Ht]. destruct ch as [[lay fl] al]. cbn [fold_left].
    unfold flex_pass2 at 2. cbn [bind].
    destruct fl as [f|].
    + destruct (N.min (share (f2_idx a) (f2_remain a)) (f2_remain a) =? 0).
      * match goal with |- exists p, fold_left _ _ (Ok ?acc) = _ /\ _ => destruct (IH acc Ht) as (p & -> & L) end.
        exists p. split; [reflexivity|]. cbn [f2_trees] in L. rewrite app_length in L. cbn in L. cbn [length]. lia.
      * destruct (Hch (axis_ct d cl 0 (N.min (share (f2_idx a) (f2_remain a)) (f2_remain a)))) as (t1 & E).
        { now apply valid_axis_ct. }
        cbn [fst] in E. rewrite E. cbn [bind].
        match goal with |- exists p, fold_left _ _ (Ok ?acc) = _ /\ _ => destruct (IH acc Ht) as (p & -> & L) end.
        exists p. split; [reflexivity|]. cbn [f2_trees] in L. rewrite app_length in L. cbn in L. cbn [length]. lia.
    + match goal with |- exists p, fold_left _ _ (Ok ?acc) = _ /\ _ => destruct (IH acc Ht) as (p & -> & L) end.
      exists p. split; [reflexivity|]. cbn [f2_trees] in L. rewrite app_length in L. cbn in L. cbn [length]. lia.
Qed.

(* ---------- the plain `-` and `/` of the code never underflow / divide by zero ---------- *)
Lemma usub_ok site a b : b <= a -> usub site a b = Ok (a - b).
Proof. intros H. unfold usub. destruct (a <? b) eqn:E; [apply N.ltb_lt in E; lia|reflexivity]. Qed.

Lemma udiv_ok site a b : b <> 0 -> udiv site a b = Ok (a / b).
Proof. intros H. unfold udiv. destruct (b =? 0) eqn:E; [apply N.eqb_eq in E; contradiction|reflexivity]. Qed.

(* Align::align with checked operators is the total function align_pos: `space - size` follows the
   clamp of size to space, the divisor is the constant 2 *)
Lemma align_chk_ok a size space : align_chk a size space = Ok (align_pos a size space).
Proof.
  unfold align_chk, align_pos. destruct a; try reflexivity.
  - rewrite usub_ok by lia. cbn [bind]. now rewrite udiv_ok.
  - now rewrite usub_ok by lia.
  - destruct (0 <=? z)%Z; [reflexivity|]. now rewrite usub_ok by lia.
Qed.

Lemma flex_place_chk_ok d mn between : forall (l : list (lchild * ltree)) acc,
  fold_left (flex_place_chk d mn between) l (Ok acc) = Ok (fold_left (flex_place d mn between) l acc).
Proof.
  induction l as [|[[[lay fl] al] t] l IH]; intros [placed off]; cbn [fold_left]; [reflexivity|].
  unfold flex_place_chk at 2. cbn [bind fst snd]. rewrite align_chk_ok. cbn [bind].
  unfold flex_place at 2.
  destruct (from_axes d off (align_pos al (minor d (l_hh t) (l_ww t)) mn)) as [r c]. apply IH.
Qed.

(* the spacing of Justify: `children.len() - 1` only for two or more children, divisors 2,
   len - 1 >= 1, len + 1, max(len, 1) *)
Lemma flex_spaces_ok j unused n : exists sp, flex_spaces j unused n = Ok sp.
Proof.
  unfold flex_spaces. destruct (unused =? 0); eauto. destruct j; eauto.
  - rewrite udiv_ok by lia. cbn; eauto.
  - destruct (n <=? 1) eqn:E; eauto. apply N.leb_gt in E. rewrite usub_ok by lia. cbn [bind].
    rewrite udiv_ok by lia. cbn; eauto.
  - rewrite udiv_ok by lia. cbn [bind]. rewrite udiv_ok by lia. cbn; eauto.
  - rewrite udiv_ok by lia. cbn; eauto.
Qed.

Lemma sumf_combine (cs : list lchild) (ts : list ltree) : sumf (map fst (combine cs ts)) <= sumf cs.
Proof.
  revert ts; induction cs as [|ch t IH]; intros [|t0 ts]; cbn [combine map sumf fold_right fst]; try lia.
  fold (sumf (map fst (combine t ts))). fold (sumf t). specialize (IH ts). destruct (snd (fst ch)); lia.
Qed.

Lemma forall_combine (cs : list lchild) (ts : list ltree) :
  Forall lchild_ok cs -> Forall (fun x : lchild * ltree => lchild_ok (fst x)) (combine cs ts).
Proof.
  revert ts; induction cs as [|ch t IH]; intros [|t0 ts] H; cbn; try constructor.
  - apply Forall_cons_iff in H. tauto.
  - apply IH. apply Forall_cons_iff in H. tauto.
Qed.

Lemma flex_layout_ok share d j c cs : Valid c -> Forall lchild_ok cs ->
  exists t, flex_layout share d j c cs = Ok t /\ Within c t.
Proof.
  intros Hv Hall. unfold flex_layout.
  destruct (flex_pass1_ok d (ct_loosen c) (valid_loosen c) cs
              (mkFl1 [] 0 (minor d (c_minh c) (c_minw c)) 0) Hall) as (p1 & -> & L1 & T1).
  cbn [bind f1_total] in *.
  set (remain := major d (c_maxh c) (c_maxw c) - f1_nonflex p1).
  assert (Hp2 : exists p2,
            (if (0 <? remain) && (0 <? f1_total p1)
             then fold_left (flex_pass2 (share (flex_factors cs)) d (ct_loosen c)) (combine cs (f1_trees p1))
                            (Ok (mkFl2 [] remain 0 (f1_minor p1) 0%nat))
             else Ok (mkFl2 (f1_trees p1) remain 0 (f1_minor p1) 0%nat)) = Ok p2).
  { destruct ((0 <? remain) && (0 <? f1_total p1)); [|eauto].
    destruct (flex_pass2_ok (share (flex_factors cs)) d (ct_loosen c) (valid_loosen c) eq_refl eq_refl (combine cs (f1_trees p1))
                (mkFl2 [] remain 0 (f1_minor p1) 0%nat)) as (p2 & E & _).
    - now apply forall_combine.
    - eauto. }
  destruct Hp2 as (p2 & ->). cbn [bind].
  destruct (flex_spaces_ok j (major d (c_maxh c) (c_maxw c) - sat_addN (f1_nonflex p1) (f2_flex p2)) (N.of_nat (length cs)))
    as (sp & ->). cbn [bind].
  rewrite flex_place_chk_ok. cbn [bind].
  destruct (fold_left _ _ _) as [placed off].
  destruct (from_axes d off (f2_minor p2)) as [h w].
  destruct (ct_clamp_ok c h w Hv) as (hw & -> & B). cbn [bind].
  eexists. split; [reflexivity|]. exact B.
Qed.

(* ---------- container ---------- *)
Lemma container_layout_ok lay av ah m sz_h sz_w c : Valid c -> LayOk lay ->
  exists t, container_layout lay av ah m sz_h sz_w c = Ok t /\ Within c t.
Proof.
  intros [Hh Hw] Hlay. unfold container_layout.
  assert (Hch : exists ch, (if sz_h =? 0 then Ok (c_maxh c) else clampN sz_h (c_minh c) (c_maxh c)) = Ok ch /\
                           c_minh c <= ch <= c_maxh c).
  { destruct (sz_h =? 0); [eexists; split; [reflexivity|lia]|]. destruct (clampN_ok sz_h _ _ Hh) as (x & -> & B). eauto. }
  assert (Hcw : exists cw, (if sz_w =? 0 then Ok (c_maxw c) else clampN sz_w (c_minw c) (c_maxw c)) = Ok cw /\
                           c_minw c <= cw <= c_maxw c).
  { destruct (sz_w =? 0); [eexists; split; [reflexivity|lia]|]. destruct (clampN_ok sz_w _ _ Hw) as (x & -> & B). eauto. }
  destruct Hch as (ch & -> & Bh). destruct Hcw as (cw & -> & Bw). cbn [bind].
  match goal with |- context [lay ?cc] => destruct (Hlay cc) as (t & ->) end.
  { split; cbn; [destruct (align_eqb av AExpand)|destruct (align_eqb ah AExpand)]; lia. }
  cbn [bind]. rewrite !align_chk_ok. cbn [bind].
  assert (Hch' : exists x, (if align_eqb av AShrink
                            then clampN (sat_addN (sat_addN (l_hh t) (m_top m)) (m_bottom m)) (c_minh c) (c_maxh c)
                            else Ok ch) = Ok x /\ c_minh c <= x <= c_maxh c).
  { destruct (align_eqb av AShrink); [|eauto]. destruct (clampN_ok (sat_addN (sat_addN (l_hh t) (m_top m)) (m_bottom m)) _ _ Hh) as (x & -> & B). eauto. }
  assert (Hcw' : exists x, (if align_eqb ah AShrink
                            then clampN (sat_addN (sat_addN (l_ww t) (m_left m)) (m_right m)) (c_minw c) (c_maxw c)
                            else Ok cw) = Ok x /\ c_minw c <= x <= c_maxw c).
  { destruct (align_eqb ah AShrink); [|eauto]. destruct (clampN_ok (sat_addN (sat_addN (l_ww t) (m_left m)) (m_right m)) _ _ Hw) as (x & -> & B). eauto. }
  destruct Hch' as (x & -> & Bx). destruct Hcw' as (y & -> & By). cbn [bind].
  eexists. split; [reflexivity|]. split; cbn; assumption.
Qed.

(* ---------- the whole tree ---------- *)
Theorem layout_total vc v : forall c, Valid c -> exists t, layout vc v c = Ok t.
Proof.
  induction v using vtree_rect; intros c Hv; cbn [layout].
  - destruct (text_layout_ok vc cells wraps c Hv) as (t & -> & _). eauto.
  - destruct (text_layout_ok vc (str_cells chars) true c Hv) as (t & -> & _). eauto.
  - destruct (flex_layout_ok (v_share vc) d j c
                (map (fun ch : fchild => match ch with (v', fl, _, al) => (layout vc v', fl, al) end) cs) Hv)
      as (t & -> & _); [|eauto].
    induction cs as [|[[[v' fl] fc] al] rest IHr]; cbn [map]; constructor.
    + apply Forall_cons_iff in H as [Hc _]. exact Hc.
    + apply IHr. apply Forall_cons_iff in H. tauto.
  - destruct (container_layout_ok (layout vc v) av ah m sz_h sz_w c Hv IHv) as (t & -> & _). eauto.
  - destruct (has_glyphs (v_r vc)); [|now apply IHv].
    destruct (IHv (mkCt (c_minh c - 2) (c_minw c - 2) (c_maxh c - 2) (c_maxw c - 2))) as (t & ->).
    { destruct Hv. split; cbn; lia. }
    cbn. eauto.
  - destruct (from_axes d (major d (c_maxh c) (c_maxw c)) 1) as [h w].
    rewrite usub_ok by lia. cbn [bind].
    destruct (from_axes d 0 _) as [r cc]. eauto.
  - destruct (IHv c Hv) as (t & ->). cbn. eauto.
  - eauto.
  - destruct (H c c Hv) as (t & ->). cbn. eauto.
  - eauto.
  - eauto.
  - destruct (image_cells vc ph pw) as [h w]. destruct (leaf_clamped_ok c h w Hv) as (t & -> & _). eauto.
  - destruct (has_glyphs (v_r vc)).
    + destruct (leaf_clamped_ok c (N.of_nat gh) (N.of_nat gw) Hv) as (t & -> & _). eauto.
    + destruct (text_layout_ok vc (str_cells fb) true c Hv) as (t & -> & _). eauto.
  - destruct (leaf_clamped_ok c ph pw Hv) as (t & -> & _). eauto.
  - destruct (leaf_clamped_ok c sfh sfw Hv) as (t & -> & _). eauto.
  - destruct (leaf_clamped_ok c (ih / 2 + ih mod 2) iw Hv) as (t & -> & _). eauto.
  - eauto.
  - destruct (IHv c Hv) as (t & ->). cbn. eauto.
Qed.

(* the kinds whose reported size the property claims to lie within the constraint *)
Definition claimed_kind (v : vtree) : bool :=
  match v with
  | VText _ _ | VStr _ | VFlex _ _ _ | VContainer _ _ _ _ _ _ _ | VFill _ | VUnit | VImage _ _ _ | VGlyph _ _ _ _
  | VProbe _ _ _ | VSurface _ _ _ | VImageAscii _ _ _ => true
  | _ => false
  end.

Theorem layout_within vc v c t : claimed_kind v = true -> Valid c -> layout vc v c = Ok t -> Within c t.
Proof.
  intros Hk Hv. destruct v; try discriminate; cbn [layout].
  - intros E. destruct (text_layout_ok vc cells wraps c Hv) as (t' & E' & W). congruence.
  - intros E. destruct (text_layout_ok vc (str_cells chars) true c Hv) as (t' & E' & W). congruence.
  - unfold flex_layout.
    destruct (fold_left (flex_pass1 _ _) _ _) as [p1| | |]; try discriminate. cbn [bind].
    match goal with |- context [if ?b then _ else _] => destruct b end.
    + destruct (fold_left (flex_pass2 _ _ _) _ _) as [p2| | |]; try discriminate. cbn [bind].
      destruct (flex_spaces _ _ _) as [sp| | |]; try discriminate. cbn [bind].
      rewrite flex_place_chk_ok. cbn [bind].
      destruct (fold_left _ _ _) as [placed off]. destruct (from_axes _ _ _) as [h w].
      destruct (ct_clamp c h w) as [hw| | |] eqn:E; try discriminate. cbn [bind]. intros [= <-].
      exact (ct_clamp_within _ _ _ _ E).
    + cbn [bind]. destruct (flex_spaces _ _ _) as [sp| | |]; try discriminate. cbn [bind].
      rewrite flex_place_chk_ok. cbn [bind].
      destruct (fold_left _ _ _) as [placed off]. destruct (from_axes _ _ _) as [h w].
      destruct (ct_clamp c h w) as [hw| | |] eqn:E; try discriminate. cbn [bind]. intros [= <-].
      exact (ct_clamp_within _ _ _ _ E).
  - intros E. destruct Hv as [Hh Hw]. unfold container_layout in E.
    destruct (if sz_h =? 0 then _ else _) as [ch| | |] eqn:Ech; try discriminate. cbn [bind] in E.
    destruct (if sz_w =? 0 then _ else _) as [cw| | |] eqn:Ecw; try discriminate. cbn [bind] in E.
    destruct (layout vc v _) as [t0| | |]; try discriminate. cbn [bind] in E.
    rewrite !align_chk_ok in E. cbn [bind] in E.
    destruct (if align_eqb av AShrink then _ else _) as [x| | |] eqn:Ex; try discriminate. cbn [bind] in E.
    destruct (if align_eqb ah AShrink then _ else _) as [y| | |] eqn:Ey; try discriminate. cbn [bind] in E.
    injection E as <-. split; cbn.
    + destruct (align_eqb av AShrink); [eapply clampN_within; eauto|]. injection Ex as <-.
      destruct (sz_h =? 0); [injection Ech as <-; lia|eapply clampN_within; eauto].
    + destruct (align_eqb ah AShrink); [eapply clampN_within; eauto|]. injection Ey as <-.
      destruct (sz_w =? 0); [injection Ecw as <-; lia|eapply clampN_within; eauto].
  - intros [= <-]. destruct Hv. split; cbn; lia.
  - intros [= <-]. destruct Hv. split; cbn; lia.
  - destruct (image_cells vc ph pw) as [h w]. apply leaf_clamped_within.
  - destruct (has_glyphs (v_r vc)); [apply leaf_clamped_within|].
    intros E. destruct (text_layout_ok vc (str_cells fb) true c Hv) as (t' & E' & W). congruence.
  - apply leaf_clamped_within.
  - apply leaf_clamped_within.
  - apply leaf_clamped_within.
Qed.
