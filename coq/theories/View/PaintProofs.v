(* Every leaf is handed exactly the rectangle the layout tree records for it: the surface a leaf
   of ANY kind (text, str, fill, image, glyph, scroll bar, surface, half-block image, probe)
   receives is the window obtained by cutting, from the root surface down, the (position, size)
   rectangle of every layout node on its path (clipped, as Layout::apply_to does) -- stated in the
   plain-matrix window algebra of C07.  FindPath only follows children whose rectangle contains the
   position. *)
From Coq Require Import List Arith Bool NArith ZArith Lia.
From SNT Require Import Base.Outcome Surface.Bounds Surface.BoundsProofs Surface.Shape Surface.ShapeProofs
  Render.CellLayout Render.Writer Render.WriterFrame Render.TextView View.ViewModel View.LayoutProofs View.RenderProofs.
Import ListNotations.

(* ---------- the rectangle of a layout node inside a window ---------- *)
Definition rows_of (t : ltree) : sel := Rng (Z.of_N (l_row t)) (Z.of_N (sat_addN (l_row t) (l_hh t))).
Definition cols_of (t : ltree) : sel := Rng (Z.of_N (l_col t)) (Z.of_N (sat_addN (l_col t) (l_ww t))).

(* rows pos.row .. pos.row + height, columns pos.col .. pos.col + width of the window, clipped to it *)
Definition win_apply (w : window) (t : ltree) : window :=
  win_view w (py_resolve (w_h w) (rows_of t)) (py_resolve (w_w w) (cols_of t)).

Lemma rep_apply_win H W sh w t :
  (Z.of_nat (Nat.max H W) <= i64_max)%Z -> Rep H W sh w -> Rep H W (apply_to sh t) (win_apply w t).
Proof.
  intros Hmax Hrep. unfold apply_to, win_apply. fold (rows_of t) (cols_of t).
  pose proof (rep_dims _ _ _ _ Hrep) as [Hdh Hdw]. pose proof Hrep as (Eh & Ew & _).
  rewrite !resolve_usel by (try (rewrite ?Eh, ?Ew; lia); unfold rows_of, cols_of; apply usel_rng).
  rewrite Eh, Ew. apply (rep_view H W sh w); [exact Hrep| |]; apply py_resolve_valid.
Qed.

(* ---------- which probes a pass reaches, and the window each must be handed ---------- *)
Fixpoint paints (glyphs : bool) (v : vtree) (t : ltree) (w : window) {struct v} : list (N * window) :=
  match v with
  | VProbe id _ _ => [(id, win_apply w t)]
  | VText _ _ => [((LEAF_TAG + 1)%N, win_apply w t)]
  | VStr _ => [((LEAF_TAG + 2)%N, win_apply w t)]
  | VScrollBar d _ _ _ _ =>
      (* a scroll bar whose layout has no extent along its axis returns before touching the surface *)
      if (major d (l_hh t) (l_ww t) =? 0)%N then [] else [((LEAF_TAG + 6)%N, win_apply w t)]
  | VFill _ => [((LEAF_TAG + 10)%N, win_apply w t)]
  | VImage _ _ _ => [((LEAF_TAG + 12)%N, win_apply w t)]
  | VGlyph _ _ _ _ => [((LEAF_TAG + 13)%N, win_apply w t)]
  | VSurface _ _ _ => [((LEAF_TAG + 15)%N, win_apply w t)]
  | VImageAscii _ _ _ => [((LEAF_TAG + 16)%N, win_apply w t)]
  | VFlex _ _ cs =>
      let sub := win_apply w t in
      (fix go (cs : list fchild) (ks : list ltree) {struct cs} : list (N * window) :=
         match cs, ks with
         | (v', _, _, _) :: cs', k :: ks' =>
             (if (l_hh k =? 0)%N || (l_ww k =? 0)%N then [] else paints glyphs v' k sub) ++ go cs' ks'
         | _, _ => []
         end) cs (l_kids t)
  | VContainer child _ _ _ _ _ _ =>
      match l_kids t with k :: _ => paints glyphs child k (win_apply w t) | [] => [] end
  | VFrame child _ =>
      if glyphs then match l_kids t with k :: _ => paints glyphs child k (win_apply w t) | [] => [] end
      else paints glyphs child t w
  | VTag _ child =>
      match l_kids t with k :: _ => paints glyphs child k (win_apply w t) | [] => [] end
  | VDynamic build =>
      match l_data t, l_kids t with
      | DCt c, k :: _ => paints glyphs (build c) k (win_apply w t)
      | _, _ => []
      end
  | VRef (Some v') =>
      match l_data t, l_kids t with
      | DRef, k :: _ => paints glyphs v' k (win_apply w t)
      | _, _ => []
      end
  | _ => []
  end.

Section Paint.
  Variables (H W : nat).
  Hypothesis Hmax : (Z.of_nat (Nat.max H W) <= i64_max)%Z.
  Variable vc : vctx.

  (* log entries against expected windows: same probe, and the surface is that window *)
  Definition LogRel (L : list (N * shape)) (P : list (N * window)) : Prop :=
    Forall2 (fun (e : N * shape) (x : N * window) => fst e = fst x /\ Rep H W (snd e) (snd x)) L P.

  Lemma logrel_app L1 P1 L2 P2 : LogRel L1 P1 -> LogRel L2 P2 -> LogRel (L1 ++ L2) (P1 ++ P2).
  Proof. apply Forall2_app. Qed.

  Definition RenderLog (v : vtree) : Prop :=
    forall t sh w s s', Rep H W sh w -> H * W <= length (r_data s) -> render vc v t sh s = Ok s' ->
      exists L, r_log s' = r_log s ++ L /\ LogRel L (paints (has_glyphs (v_r vc)) v t w).

  Lemma nolog s : exists L, r_log s = r_log s ++ L /\ LogRel L [].
  Proof. exists []. rewrite app_nil_r. split; [reflexivity|constructor]. Qed.

  Lemma onelog s d k sub wsub : Rep H W sub wsub ->
    exists L, r_log (logged s d k sub) = r_log s ++ L /\ LogRel L [((LEAF_TAG + k)%N, wsub)].
  Proof.
    intros R. exists [((LEAF_TAG + k)%N, sub)]. split; [reflexivity|]. constructor; [|constructor]. split; [reflexivity|exact R].
  Qed.

  Lemma lift_log (o : outcome (list ccell)) s s' k sub wsub : Rep H W sub wsub ->
    (let* d := o in Ok (logged s d k sub)) = Ok s' ->
    exists L, r_log s' = r_log s ++ L /\ LogRel L [((LEAF_TAG + k)%N, wsub)].
  Proof.
    intros R. destruct o as [d| | |]; cbn [bind]; try discriminate. intros [= <-]. now apply onelog.
  Qed.

  (* a completed pass keeps the slice long enough *)
  Lemma render_len v t sh w s s' : Rep H W sh w -> H * W <= length (r_data s) ->
    render vc v t sh s = Ok s' -> H * W <= length (r_data s').
  Proof.
    intros Hrep Hlen E. pose proof (render_safe H W Hmax vc v t sh w s Hrep Hlen) as Hs. rewrite E in Hs.
    destruct Hs as [-> _]. exact Hlen.
  Qed.

  Lemma flex_fold_log d sub wsub (Hsub : Rep H W sub wsub) : forall (cs : list fchild) (ks : list ltree) s s',
    Forall (fun ch : fchild => RenderLog (fst (fst (fst ch)))) cs ->
    H * W <= length (r_data s) ->
    fold_left (flex_render_step d sub)
      (combine (map (fun ch : fchild => match ch with (v', _, fc, _) => (render vc v', fc) end) cs) ks) (Ok s) = Ok s' ->
    exists L, r_log s' = r_log s ++ L /\
      LogRel L ((fix go (cs : list fchild) (ks : list ltree) {struct cs} : list (N * window) :=
                   match cs, ks with
                   | (v', _, _, _) :: cs', k :: ks' =>
                       (if (l_hh k =? 0)%N || (l_ww k =? 0)%N then [] else paints (has_glyphs (v_r vc)) v' k wsub) ++ go cs' ks'
                   | _, _ => []
                   end) cs ks).
  Proof.
    assert (Hnotok : forall l (x : outcome rst), (forall s, x <> Ok s) ->
              fold_left (flex_render_step d sub) l x = x).
    { induction l as [|a l IHl]; intros x Hx; cbn; auto.
      rewrite IHl; destruct x; cbn; auto; try congruence; exfalso; eapply Hx; eauto. }
    induction cs as [|[[[v' fl] fc] al] cs IH]; intros ks s s' Hall Hlen E.
    - cbn in E. injection E as <-. apply nolog.
    - destruct ks as [|k ks]; [cbn in E; injection E as <-; apply nolog|].
      apply Forall_cons_iff in Hall as [Hv' Hcs]. cbn [fst] in Hv'.
      cbn [map combine fold_left] in E. unfold flex_render_step at 2 in E. cbn [bind] in E.
      destruct ((l_hh k =? 0)%N || (l_ww k =? 0)%N) eqn:Hskip.
      + destruct (IH ks s s' Hcs Hlen E) as (L & EL & RL). exists L. split; [exact EL|]. exact RL.
      + (* the optional erase keeps the log and the length *)
        match type of E with
        | fold_left _ _ (let* s1 := ?er in _) = _ => destruct er as [s1| | |] eqn:Her
        end; cbn [bind] in E; try (rewrite Hnotok in E by congruence; discriminate).
        assert (Hs1 : r_log s1 = r_log s /\ H * W <= length (r_data s1)).
        { destruct fc as [f|]; [|injection Her as <-; auto].
          match type of Her with (let* d' := erase ?area _ _ in _) = _ =>
            assert (Harea : exists warea, Rep H W area warea) end.
          { destruct d.
            - destruct (rep_subview H W sub wsub Full (Rng (Z.of_N (l_col k)) (Z.of_N (sat_addN (l_col k) (l_ww k)))) Hmax Hsub I (usel_rng _ _))
                as (w' & R & _). eauto.
            - destruct (rep_subview H W sub wsub (Rng (Z.of_N (l_row k)) (Z.of_N (sat_addN (l_row k) (l_hh k)))) Full Hmax Hsub (usel_rng _ _) I)
                as (w' & R & _). eauto. }
          destruct Harea as (warea & Rarea).
          match type of Her with (let* d' := erase ?area _ _ in _) = _ =>
            destruct (erase_ok H W area warea (r_data s) f Rarea Hlen) as (d' & Ee & [Le _]) end.
          rewrite Ee in Her. cbn [bind] in Her. injection Her as <-. cbn. rewrite Le. auto. }
        destruct Hs1 as [Elog Hlen1].
        destruct (render vc v' k sub s1) as [s2| | |] eqn:Er; try (rewrite Hnotok in E by congruence; discriminate).
        destruct (Hv' k sub wsub s1 s2 Hsub Hlen1 Er) as (L1 & EL1 & RL1).
        pose proof (render_len v' k sub wsub s1 s2 Hsub Hlen1 Er) as Hlen2.
        destruct (IH ks s2 s' Hcs Hlen2 E) as (L2 & EL2 & RL2).
        exists (L1 ++ L2). split.
        * rewrite EL2, EL1, Elog, app_assoc. reflexivity.
        * apply logrel_app; assumption.
  Qed.

  Theorem render_log v : RenderLog v.
  Proof.
    induction v using vtree_rect; intros t sh w s s' Hrep Hlen E; cbn [render paints] in *;
      pose proof (rep_apply_win H W sh w t Hmax Hrep) as Rsub.
    - eapply lift_log; eauto.
    - eapply lift_log; eauto.
    - apply (flex_fold_log d (apply_to sh t) (win_apply w t) Rsub cs (l_kids t) s s'); auto.
    - (* container *)
      destruct (if face_is_default fc then _ else _) as [d1| | |] eqn:Ee; try discriminate. cbn [bind] in E.
      assert (Hlen1 : H * W <= length d1).
      { destruct (face_is_default fc); [injection Ee as <-; exact Hlen|].
        destruct (erase_ok H W _ _ (r_data s) fc Rsub Hlen) as (d' & Ee' & [Le _]). congruence. }
      destruct (l_kids t) as [|k ks]; [discriminate|].
      destruct (IHv k (apply_to sh t) (win_apply w t) (mkR d1 (r_log s)) s' Rsub Hlen1 E) as (L & EL & RL).
      exists L. auto.
    - (* frame *)
      destruct (has_glyphs (v_r vc)) eqn:Hg.
      + destruct (of_opt 1012 _) as [d1| | |] eqn:Ef; try discriminate. cbn [bind] in E.
        assert (Hlen1 : H * W <= length d1).
        { destruct (fill_with_safe H W (apply_to sh t) (win_apply w t) (r_data s)
                      (fun r c old => frame_cell (v_frag vc) color (sh_width (apply_to sh t)) (sh_height (apply_to sh t)) c r old) Rsub Hlen)
            as (d' & Ed & [Ld _]). rewrite Ed in Ef. injection Ef as <-. lia. }
        destruct (l_kids t) as [|k ks]; [discriminate|].
        destruct (IHv k (apply_to sh t) (win_apply w t) (mkR d1 (r_log s)) s' Rsub Hlen1 E) as (L & EL & RL).
        exists L. rewrite Hg in RL. auto.
      + destruct (IHv t sh w s s' Hrep Hlen E) as (L & EL & RL). exists L. rewrite Hg in RL. auto.
    - (* scroll bar *)
      destruct (major d (l_hh t) (l_ww t) =? 0)%N; [injection E as <-; apply nolog|].
      destruct (scroll_thumb _ _ _ _) as [size offset]. eapply lift_log; eauto.
    - destruct (l_kids t) as [|k ks]; [discriminate|].
      destruct (IHv k (apply_to sh t) (win_apply w t) s s' Rsub Hlen E) as (L & EL & RL). exists L. auto.
    - injection E as <-. apply nolog.
    - destruct (l_data t) as [| |c|]; try discriminate. destruct (l_kids t) as [|k ks]; [discriminate|].
      destruct (H0 c k (apply_to sh t) (win_apply w t) s s' Rsub Hlen E) as (L & EL & RL). exists L. auto.
    - eapply lift_log; eauto.
    - injection E as <-. apply nolog.
    - destruct (get _ _ 0 0); [|injection E as <-; now apply onelog].
      destruct (image_cells vc _ _) as [h' w']. injection E as <-. now apply onelog.
    - destruct (has_glyphs (v_r vc)).
      + destruct (get _ _ 0 0); injection E as <-; now apply onelog.
      + eapply lift_log; eauto.
    - (* probe *)
      destruct (fill_cells _ _ _) as [d1| | |]; try discriminate. cbn [bind] in E. injection E as <-. cbn.
      exists [(id, apply_to sh t)]. split; [reflexivity|]. constructor; [|constructor]. split; [reflexivity|exact Rsub].
    - eapply lift_log; eauto.
    - eapply lift_log; eauto.
    - injection E as <-. apply nolog.
    - destruct (l_data t); try (injection E as <-; apply nolog).
      destruct (l_kids t) as [|k ks]; [discriminate|].
      destruct (IHv k (apply_to sh t) (win_apply w t) s s' Rsub Hlen E) as (L & EL & RL). exists L. auto.
  Qed.
End Paint.

(* ---------- FindPath ---------- *)
Definition contains (k : ltree) (r c : N) : Prop :=
  (l_col k <= c /\ c < sat_addN (l_col k) (l_ww k) /\ l_row k <= r /\ r < sat_addN (l_row k) (l_hh k))%N.

Lemma find_child_spec kids : forall i r c j k, find_child kids i r c = Some (j, k) ->
  i <= j /\ nth_error kids (j - i) = Some k /\ contains k r c /\
  (forall m k', m < j - i -> nth_error kids m = Some k' -> ~ contains k' r c).
Proof.
  induction kids as [|k0 rest IH]; intros i r c j k; cbn [find_child]; [discriminate|].
  destruct ((l_col k0 <=? c)%N && (c <? sat_addN (l_col k0) (l_ww k0))%N && (l_row k0 <=? r)%N && (r <? sat_addN (l_row k0) (l_hh k0))%N) eqn:E.
  - intros [= <- <-]. rewrite Nat.sub_diag. split; [lia|]. split; [reflexivity|]. split.
    + apply andb_true_iff in E as [E E4]. apply andb_true_iff in E as [E E3]. apply andb_true_iff in E as [E1 E2].
      unfold contains. rewrite N.leb_le in E1, E3. rewrite N.ltb_lt in E2, E4. auto.
    + intros m k' Hm. lia.
  - intros Hf. destruct (IH (S i) r c j k Hf) as (Hij & Hn & Hc & Hfirst).
    split; [lia|]. replace (j - i) with (S (j - S i)) by lia. cbn [nth_error]. split; [exact Hn|]. split; [exact Hc|].
    intros m k' Hm Hk'. destruct m as [|m]; cbn [nth_error] in Hk'.
    + injection Hk' as <-. unfold contains. intros (A & B & C & D).
      rewrite <- N.leb_le in A, C. rewrite <- N.ltb_lt in B, D. rewrite A, B, C, D in E. discriminate.
    + apply (Hfirst m k'); [lia|exact Hk'].
Qed.

Lemma find_child_none kids : forall i r c, find_child kids i r c = None -> forall k, In k kids -> ~ contains k r c.
Proof.
  induction kids as [|k0 rest IH]; intros i r c Hf k Hin; [contradiction|]. cbn [find_child] in Hf.
  destruct ((l_col k0 <=? c)%N && (c <? sat_addN (l_col k0) (l_ww k0))%N && (l_row k0 <=? r)%N && (r <? sat_addN (l_row k0) (l_hh k0))%N) eqn:E;
    [discriminate|].
  destruct Hin as [<-|Hin]; [|eapply IH; eauto].
  unfold contains. intros (A & B & C & D).
  rewrite <- N.leb_le in A, C. rewrite <- N.ltb_lt in B, D. rewrite A, B, C, D in E. discriminate.
Qed.

(* walking a path of child indices down a layout tree, the position made relative at each step *)
Fixpoint follows (t : ltree) (r c : N) (path : list nat) : Prop :=
  match path with
  | [] => forall k, In k (l_kids t) -> ~ contains k r c
  | i :: rest =>
      exists k, nth_error (l_kids t) i = Some k /\ contains k r c /\
        (forall m k', m < i -> nth_error (l_kids t) m = Some k' -> ~ contains k' r c) /\
        follows k (r - l_row k)%N (c - l_col k)%N rest
  end.

Lemma depth_kid t k : In k (l_kids t) -> depth k < depth t.
Proof.
  destruct t as [r c h w d kids]. cbn [l_kids depth]. intros Hin.
  induction kids as [|k0 rest IH]; [contradiction|]. cbn [fold_right].
  destruct Hin as [->|Hin]; [lia|]. specialize (IH Hin). lia.
Qed.

(* hit-testing: the path found descends, at every level, into the FIRST child whose rectangle
   contains the position, and stops exactly where no child contains it *)
Theorem find_path_follows : forall fuel t r c, depth t <= fuel -> follows t r c (find_path fuel t r c).
Proof.
  induction fuel as [|f IH]; intros t r c Hd.
  - destruct t as [? ? ? ? ? kids]. cbn in Hd. lia.
  - cbn [find_path]. destruct (find_child (l_kids t) 0 r c) as [[i k]|] eqn:Ef.
    + destruct (find_child_spec _ _ _ _ _ _ Ef) as (_ & Hn & Hc & Hfirst). rewrite Nat.sub_0_r in Hn, Hfirst.
      cbn [follows]. exists k. split; [exact Hn|]. split; [exact Hc|]. split; [exact Hfirst|].
      apply IH. pose proof (depth_kid t k (nth_error_In _ _ Hn)). lia.
    + cbn [follows]. eapply find_child_none; eauto.
Qed.

(* the subtractions of FindPath::next never underflow: the child descended into contains the position *)
Theorem find_path_chk_ok : forall fuel t r c, find_path_chk fuel t r c = Ok (find_path fuel t r c).
Proof.
  induction fuel as [|f IH]; intros t r c; cbn [find_path_chk find_path]; [reflexivity|].
  destruct (find_child (l_kids t) 0 r c) as [[i k]|] eqn:Ef; [|reflexivity].
  destruct (find_child_spec _ _ _ _ _ _ Ef) as (_ & _ & (A & _ & B & _) & _).
  rewrite !usub_ok by assumption. cbn [bind]. rewrite IH. reflexivity.
Qed.
