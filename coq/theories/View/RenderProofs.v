(* View::render, for every view tree, EVERY layout tree (not only the one layout produced) and
   every surface cut out of a canvas by view / transpose operations: never panics (it either
   completes or reports InvalidLayout), and leaves every cell outside the surface unchanged.
   Layout::apply_to always yields a sub-window of the surface it is applied to. *)
From Coq Require Import List Arith Bool NArith ZArith Lia.
From SNT Require Import Base.Outcome Surface.Bounds Surface.BoundsProofs Surface.Shape Surface.ShapeProofs
  Render.CellLayout Render.Writer Render.WriterFrame Render.TextView View.ViewModel View.LayoutProofs.
Import ListNotations.

(* ---------- sub-views ---------- *)
Definition Sub (sh' sh : shape) : Prop := forall k, in_view sh' k -> in_view sh k.

Lemma sub_refl sh : Sub sh sh.
Proof. intros k H. exact H. Qed.

Lemma sub_trans a b c : Sub a b -> Sub b c -> Sub a c.
Proof. intros H1 H2 k H. auto. Qed.

Lemma zero_shape_no_cells k : ~ in_view zero_shape k.
Proof. intros (r & c & Hr & _). cbn in Hr. lia. Qed.

Lemma view_offset sh rs re cs ce r c :
  offset (view sh (Some (rs, re)) (Some (cs, ce))) r c = offset sh (rs + r) (cs + c).
Proof. unfold offset. cbn. unfold offset. lia. Qed.

Lemma view_sub sh rows cols : valid_bounds (sh_height sh) rows -> valid_bounds (sh_width sh) cols ->
  Sub (view sh rows cols) sh.
Proof.
  intros Hr Hc k Hin. unfold view in Hin.
  destruct cols as [[cs ce]|]; [|exfalso; exact (zero_shape_no_cells k Hin)].
  destruct rows as [[rs re]|]; [|exfalso; exact (zero_shape_no_cells k Hin)].
  cbn [valid_bounds] in *. destruct Hin as (r & c & Hr' & Hc' & E). cbn in Hr', Hc'.
  exists (rs + r)%nat, (cs + c)%nat. repeat split; try lia.
  rewrite <- E. unfold offset. cbn. unfold offset. lia.
Qed.

(* selectors used by the view layer: a..b with unsigned bounds, and .. *)
Definition usel (s : sel) : Prop :=
  match s with Rng a b => (0 <= a)%Z /\ (0 <= b)%Z | To b => (0 <= b)%Z | Full => True | _ => False end.

Lemma resolve_usel dim s : (Z.of_nat dim <= i64_max)%Z -> usel s -> resolve dim s = py_resolve dim s.
Proof.
  intros Hd Hs. unfold resolve, py_resolve. destruct s as [| a b | | b | | |]; try contradiction.
  - cbn [view_bounds]. destruct Hs as [Ha Hb].
    rewrite rb_incl_excl by (unfold i64_min in *; lia). reflexivity.
  - cbn [view_bounds]. cbn in Hs. rewrite rb_unb_excl by (unfold i64_min in *; lia). reflexivity.
  - cbn [view_bounds]. rewrite rb_full by lia. reflexivity.
Qed.

Lemma rep_subview H W sh w rows cols :
  (Z.of_nat (Nat.max H W) <= i64_max)%Z -> Rep H W sh w -> usel rows -> usel cols ->
  exists w', Rep H W (view sh (resolve (sh_height sh) rows) (resolve (sh_width sh) cols)) w' /\
             Sub (view sh (resolve (sh_height sh) rows) (resolve (sh_width sh) cols)) sh.
Proof.
  intros Hmax Hrep Hr Hc. pose proof (rep_dims _ _ _ _ Hrep) as [Hdh Hdw]. pose proof Hrep as (Eh & Ew & _).
  rewrite !resolve_usel by (assumption || rewrite ?Eh, ?Ew; lia).
  exists (win_view w (py_resolve (sh_height sh) rows) (py_resolve (sh_width sh) cols)). split.
  - apply (rep_view H W sh w); [exact Hrep|rewrite <- Eh|rewrite <- Ew]; apply py_resolve_valid.
  - apply view_sub; apply py_resolve_valid.
Qed.

Lemma usel_rng (a b : N) : usel (Rng (Z.of_N a) (Z.of_N b)).
Proof. cbn. lia. Qed.

Lemma usel_to (b : N) : usel (To (Z.of_N b)).
Proof. cbn. lia. Qed.

Lemma rep_apply_to H W sh w t :
  (Z.of_nat (Nat.max H W) <= i64_max)%Z -> Rep H W sh w ->
  exists w', Rep H W (apply_to sh t) w' /\ Sub (apply_to sh t) sh.
Proof. intros Hmax Hrep. unfold apply_to. apply (rep_subview H W sh w); auto using usel_rng. Qed.

(* ---------- what a rendering step guarantees ---------- *)
(* the step neither panics nor runs out of fuel, and if it completes the slice changed only
   inside the surface *)
Definition Safe (sh : shape) (d : list ccell) (o : outcome rst) : Prop :=
  match o with
  | Ok s' => Frame sh d (r_data s')
  | Err _ => True
  | Panic _ => False
  | OutOfFuel => False
  end.

Definition SafeD (sh : shape) (d : list ccell) (o : outcome (list ccell)) : Prop :=
  match o with
  | Ok d' => Frame sh d d'
  | Err _ => True
  | Panic _ => False
  | OutOfFuel => False
  end.

Lemma frame_sub sh' sh d d' : Sub sh' sh -> Frame sh' d d' -> Frame sh d d'.
Proof. intros Hs [Hl Hf]. split; auto. Qed.

Section Surface.
  Variables (H W : nat).
  Hypothesis Hmax : (Z.of_nat (Nat.max H W) <= i64_max)%Z.

  Lemma fill_with_safe sh w d f : Rep H W sh w -> H * W <= length d ->
    exists d', fill_with sh d f = Some d' /\ Frame sh d d'.
  Proof.
    intros Hrep Hlen. destruct (fill_with_spec H W sh w d Hrep Hlen f) as (d' & E & L & _ & F).
    exists d'. split; [exact E|]. split; [exact L|]. intros k Hk. apply F. intros r c Hr Hc E'. apply Hk.
    exists r, c. auto.
  Qed.

  Lemma erase_safe sh w d f : Rep H W sh w -> H * W <= length d -> SafeD sh d (erase sh d f).
  Proof.
    intros Hrep Hlen. unfold erase.
    destruct (fill_with_safe sh w d (fun _ _ old => mkCell (overlay (c_face old) f) (KChar 32)) Hrep Hlen) as (d' & -> & F).
    exact F.
  Qed.

  Lemma erase_ok sh w d f : Rep H W sh w -> H * W <= length d -> exists d', erase sh d f = Ok d' /\ Frame sh d d'.
  Proof.
    intros Hrep Hlen. unfold erase.
    destruct (fill_with_safe sh w d (fun _ _ old => mkCell (overlay (c_face old) f) (KChar 32)) Hrep Hlen) as (d' & -> & F).
    exists d'. split; [reflexivity|exact F].
  Qed.

  Lemma fill_cells_safe sh w d x : Rep H W sh w -> H * W <= length d -> SafeD sh d (fill_cells sh d x).
  Proof.
    intros Hrep Hlen. unfold fill_cells, fill.
    destruct (fill_with_safe sh w d (fun _ _ _ => x) Hrep Hlen) as (d' & -> & F). exact F.
  Qed.

  Lemma put_cells_safe ctx cells : forall st, InBounds (w_sh st) (length (w_data st)) ->
    exists st', put_cells ctx st cells = Ok st' /\ Keeps st st'.
  Proof.
    induction cells as [|c t IH]; intros st Hb; cbn [put_cells].
    - exists st. split; [reflexivity|apply keeps_refl].
    - destruct (put_cell_total ctx st c Hb) as (st1 & b & E). rewrite E.
      pose proof (put_cell_keeps _ _ _ _ _ E) as K1.
      destruct (IH st1 (keeps_inbounds _ _ K1 Hb)) as (st' & -> & K2).
      exists st'. split; [reflexivity|eapply keeps_trans; eauto].
  Qed.

  Lemma write_cells_safe vc sh w d wraps cells : Rep H W sh w -> H * W <= length d ->
    SafeD sh d (write_cells vc sh d wraps cells).
  Proof.
    intros Hrep Hlen. unfold write_cells.
    destruct (put_cells_safe (v_r vc) cells (set_wraps (writer_new sh d) wraps)) as (st' & -> & [_ F]).
    - cbn. eapply rep_inbounds; eauto.
    - exact F.
  Qed.

  (* composition: a step on a sub-surface, then more steps *)
  Lemma safe_len sh d s' : Frame sh d (r_data s') -> length (r_data s') = length d.
  Proof. intros [L _]. exact L. Qed.

  Variable vc : vctx.

  (* the statement proved by induction over the view tree *)
  Definition RenderSafe (v : vtree) : Prop :=
    forall t sh w s, Rep H W sh w -> H * W <= length (r_data s) -> Safe sh (r_data s) (render vc v t sh s).

  Lemma lift_d sh sub d (o : outcome (list ccell)) log :
    Sub sub sh -> SafeD sub d o ->
    Safe sh d (let* d' := o in Ok (mkR d' log)).
  Proof.
    intros Hs. destruct o as [d'| | |]; cbn; auto. intros F. eapply frame_sub; eauto.
  Qed.

  Lemma flex_fold_safe d sub wsub (Hsub : Rep H W sub wsub) : forall (l : list (rchild * ltree)) s0 s,
    Forall (fun x : rchild * ltree =>
              forall t sh w s, Rep H W sh w -> H * W <= length (r_data s) ->
                               Safe sh (r_data s) (fst (fst x) t sh s)) l ->
    H * W <= length (r_data s) -> Frame sub s0 (r_data s) ->
    match fold_left (flex_render_step d sub) l (Ok s) with
    | Ok s' => Frame sub s0 (r_data s')
    | Err _ => True
    | Panic _ => False
    | OutOfFuel => False
    end.
  Proof.
    assert (Hnotok : forall l (x : outcome rst), (forall s, x <> Ok s) ->
              fold_left (flex_render_step d sub) l x = x).
    { induction l as [|a l IHl]; intros x Hx; cbn; auto.
      rewrite IHl; destruct x; cbn; auto; try congruence; exfalso; eapply Hx; eauto. }
    induction l as [|[[ren fc] t] l IH]; intros s0 s Hall Hlen F0; cbn [fold_left].
    - exact F0.
    - apply Forall_cons_iff in Hall as [Hx Hl]. cbn [fst] in Hx.
      unfold flex_render_step at 2. cbn [bind].
      destruct ((l_hh t =? 0)%N || (l_ww t =? 0)%N); [apply IH; auto|].
      (* optional erase of the allocated space *)
      assert (Her : exists s1, (match fc with
                                | None => Ok s
                                | Some f =>
                                    let* d' := erase (match d with
                                      | Hor => view sub (resolve (sh_height sub) Full)
                                                 (resolve (sh_width sub) (Rng (Z.of_N (l_col t)) (Z.of_N (sat_addN (l_col t) (l_ww t)))))
                                      | Ver => view sub (resolve (sh_height sub) (Rng (Z.of_N (l_row t)) (Z.of_N (sat_addN (l_row t) (l_hh t)))))
                                                 (resolve (sh_width sub) Full)
                                      end) (r_data s) f in Ok (mkR d' (r_log s))
                                end) = Ok s1 /\ Frame sub (r_data s) (r_data s1)).
      { destruct fc as [f|]; [|exists s; split; [reflexivity|apply frame_refl]].
        assert (Harea : exists area warea, area = (match d with
                    | Hor => view sub (resolve (sh_height sub) Full)
                               (resolve (sh_width sub) (Rng (Z.of_N (l_col t)) (Z.of_N (sat_addN (l_col t) (l_ww t)))))
                    | Ver => view sub (resolve (sh_height sub) (Rng (Z.of_N (l_row t)) (Z.of_N (sat_addN (l_row t) (l_hh t)))))
                               (resolve (sh_width sub) Full)
                    end) /\ Rep H W area warea /\ Sub area sub).
        { destruct d.
          - destruct (rep_subview H W sub wsub Full (Rng (Z.of_N (l_col t)) (Z.of_N (sat_addN (l_col t) (l_ww t)))) Hmax Hsub I (usel_rng _ _))
              as (w' & R & S). eauto.
          - destruct (rep_subview H W sub wsub (Rng (Z.of_N (l_row t)) (Z.of_N (sat_addN (l_row t) (l_hh t)))) Full Hmax Hsub (usel_rng _ _) I)
              as (w' & R & S). eauto. }
        destruct Harea as (area & warea & <- & Rarea & Sarea).
        destruct (erase_ok area warea (r_data s) f Rarea Hlen) as (d' & -> & Fe). cbn [bind].
        exists (mkR d' (r_log s)). split; [reflexivity|]. cbn. eapply frame_sub; eauto. }
      destruct Her as (s1 & -> & F1). cbn [bind].
      assert (Hlen1 : H * W <= length (r_data s1)) by (destruct F1 as [-> _]; exact Hlen).
      specialize (Hx t sub wsub s1 Hsub Hlen1).
      destruct (ren t sub s1) as [s2| | |]; cbn in Hx; try contradiction.
      + apply IH; auto.
        * destruct Hx as [-> _]. exact Hlen1.
        * eapply frame_trans; [exact F0|]. eapply frame_trans; eauto.
      + rewrite Hnotok by congruence. exact I.
  Qed.

  Theorem render_safe v : RenderSafe v.
  Proof.
    induction v using vtree_rect; intros t sh w s Hrep Hlen; cbn [render]; unfold logged;
      destruct (rep_apply_to H W sh w t Hmax Hrep) as (wsub & Rsub & Ssub).
    - apply lift_d with (sub := apply_to sh t); auto. eapply write_cells_safe; eauto.
    - apply lift_d with (sub := apply_to sh t); auto. eapply write_cells_safe; eauto.
    - (* flex *)
      pose proof (flex_fold_safe d (apply_to sh t) wsub Rsub
                    (combine (map (fun ch : fchild => match ch with (v', _, fc, _) => (render vc v', fc) end) cs) (l_kids t))
                    (r_data s) s) as Hf.
      match type of Hf with ?A -> _ => assert (Hall : A) end.
      { clear Hf. revert H0. generalize (l_kids t). induction cs as [|[[[v' fl] fc] al] rest IHr]; intros ks Hall.
        - constructor.
        - destruct ks as [|k ks]; cbn [map combine]; [constructor|].
          apply Forall_cons_iff in Hall as [Hv' Hrest]. constructor; [|apply IHr; exact Hrest].
          cbn [fst]. exact Hv'. }
      specialize (Hf Hall Hlen (frame_refl _ _)).
      destruct (fold_left _ _ _) as [s'| | |]; cbn; auto. eapply frame_sub; eauto.
    - (* container *)
      assert (He : exists d1, (if face_is_default fc then Ok (r_data s) else erase (apply_to sh t) (r_data s) fc) = Ok d1 /\
                               Frame (apply_to sh t) (r_data s) d1).
      { destruct (face_is_default fc); [eexists; split; [reflexivity|apply frame_refl]|].
        destruct (erase_ok _ _ (r_data s) fc Rsub Hlen) as (d1 & -> & Fe). eauto. }
      destruct He as (d1 & -> & F1). cbn [bind].
      destruct (l_kids t) as [|k ks]; [exact I|].
      specialize (IHv k (apply_to sh t) wsub (mkR d1 (r_log s)) Rsub).
      cbn [r_data] in IHv. destruct F1 as [L1 F1]. rewrite L1 in IHv. specialize (IHv Hlen).
      destruct (render vc v k (apply_to sh t) _) as [s'| | |]; cbn in *; auto.
      eapply frame_sub; [exact Ssub|]. eapply frame_trans; [split; [exact L1|exact F1]|exact IHv].
    - (* frame *)
      destruct (has_glyphs (v_r vc)); [|exact (IHv t sh w s Hrep Hlen)].
      destruct (fill_with_safe (apply_to sh t) wsub (r_data s)
                  (fun r c old => frame_cell (v_frag vc) color (sh_width (apply_to sh t)) (sh_height (apply_to sh t)) c r old) Rsub Hlen)
        as (d1 & -> & [L1 F1]).
      cbn [of_opt bind].
      destruct (l_kids t) as [|k ks]; [exact I|].
      specialize (IHv k (apply_to sh t) wsub (mkR d1 (r_log s)) Rsub). cbn [r_data] in IHv. rewrite L1 in IHv.
      specialize (IHv Hlen).
      destruct (render vc v k (apply_to sh t) _) as [s'| | |]; cbn in *; auto.
      eapply frame_sub; [exact Ssub|]. eapply frame_trans; [split; [exact L1|exact F1]|exact IHv].
    - (* scroll bar *)
      destruct (major d (l_hh t) (l_ww t) =? 0)%N; [cbn; apply frame_refl|].
      destruct (scroll_thumb _ _ _ _) as [size offset].
      apply lift_d with (sub := apply_to sh t); auto. eapply write_cells_safe; eauto.
    - (* tag *)
      destruct (l_kids t) as [|k ks]; [exact I|].
      specialize (IHv k (apply_to sh t) wsub s Rsub Hlen).
      destruct (render vc v k (apply_to sh t) s) as [s'| | |]; cbn in *; auto. eapply frame_sub; eauto.
    - cbn. apply frame_refl.
    - (* dynamic *)
      destruct (l_data t) as [| |c|]; try exact I. destruct (l_kids t) as [|k ks]; [exact I|].
      specialize (H0 c k (apply_to sh t) wsub s Rsub Hlen).
      destruct (render vc (build c) k (apply_to sh t) s) as [s'| | |]; cbn in *; auto. eapply frame_sub; eauto.
    - apply lift_d with (sub := apply_to sh t); auto. eapply fill_cells_safe; eauto.
    - cbn. apply frame_refl.
    - (* image *)
      unfold get. destruct ((sh_height (apply_to sh t) <=? 0) || (sh_width (apply_to sh t) <=? 0)) eqn:Hout;
        [cbn; apply frame_refl|].
      destruct (nth_error (r_data s) (offset (apply_to sh t) 0 0)) as [old|]; [|cbn; apply frame_refl].
      destruct (image_cells vc _ _) as [h' w']. cbn.
      apply orb_false_iff in Hout as [H1 H2]. apply Nat.leb_gt in H1, H2.
      eapply frame_sub; [exact Ssub|]. apply frame_upd; assumption.
    - (* glyph *)
      destruct (has_glyphs (v_r vc)).
      + unfold get. destruct ((sh_height (apply_to sh t) <=? 0) || (sh_width (apply_to sh t) <=? 0)) eqn:Hout;
          [cbn; apply frame_refl|].
        destruct (nth_error (r_data s) (offset (apply_to sh t) 0 0)) as [old|]; [|cbn; apply frame_refl].
        cbn. apply orb_false_iff in Hout as [H1 H2]. apply Nat.leb_gt in H1, H2.
        eapply frame_sub; [exact Ssub|]. apply frame_upd; assumption.
      + apply lift_d with (sub := apply_to sh t); auto. eapply write_cells_safe; eauto.
    - (* probe *)
      pose proof (fill_cells_safe (apply_to sh t) wsub (r_data s) (mkCell face0 (KChar (61440 + id))) Rsub Hlen) as Hf.
      destruct (fill_cells _ _ _) as [d1| | |]; cbn in *; auto. eapply frame_sub; eauto.
    - (* surface view *)
      match goal with |- context [Shape.view (apply_to sh t) (resolve _ (To ?a)) (resolve _ (To ?b))] =>
        destruct (rep_subview H W (apply_to sh t) wsub (To a) (To b) Hmax Rsub ltac:(cbn; lia) ltac:(cbn; lia))
          as (warea & Rarea & Sarea) end.
      destruct (fill_with_safe _ warea (r_data s) (fun _ _ old => cell_overlay old cl) Rarea Hlen) as (d1 & -> & F1).
      cbn. eapply frame_sub; [exact Ssub|]. eapply frame_sub; eauto.
    - (* image as half blocks *)
      match goal with |- context [fill_with (apply_to sh t) (r_data s) ?f] =>
        destruct (fill_with_safe (apply_to sh t) wsub (r_data s) f Rsub Hlen) as (d1 & -> & F1) end.
      cbn. eapply frame_sub; eauto.
    - cbn. apply frame_refl.
    - (* cached view *)
      destruct (l_data t); try (cbn; apply frame_refl).
      destruct (l_kids t) as [|k ks]; [exact I|].
      specialize (IHv k (apply_to sh t) wsub s Rsub Hlen).
      destruct (render vc v k (apply_to sh t) s) as [s'| | |]; cbn in *; auto. eapply frame_sub; eauto.
  Qed.

  (* every leaf view changes the slice only inside the rectangle its layout node records
     (apply_to sh t, which PaintProofs.rep_apply_win identifies as a window of the canvas) *)
  Definition is_leaf (v : vtree) : bool :=
    match v with
    | VText _ _ | VStr _ | VScrollBar _ _ _ _ _ | VNone | VFill _ | VUnit | VImage _ _ _ | VGlyph _ _ _ _ | VProbe _ _ _
    | VSurface _ _ _ | VImageAscii _ _ _ => true
    | _ => false
    end.

  Lemma lift_frame (o : outcome (list ccell)) log sub d s' :
    SafeD sub d o -> (let* d' := o in Ok (mkR d' log)) = Ok s' -> Frame sub d (r_data s').
  Proof. destruct o as [d'| | |]; cbn; intros Hs E; try discriminate. injection E as <-. exact Hs. Qed.

  Theorem leaf_confined v t sh w s s' : is_leaf v = true -> Rep H W sh w -> H * W <= length (r_data s) ->
    render vc v t sh s = Ok s' -> Frame (apply_to sh t) (r_data s) (r_data s').
  Proof.
    intros Hl Hrep Hlen. destruct (rep_apply_to H W sh w t Hmax Hrep) as (wsub & Rsub & Ssub).
    destruct v; try discriminate; cbn [render]; unfold logged.
    - apply lift_frame. eapply write_cells_safe; eauto.
    - apply lift_frame. eapply write_cells_safe; eauto.
    - destruct (major dir (l_hh t) (l_ww t) =? 0)%N; [intros [= <-]; apply frame_refl|].
      destruct (scroll_thumb _ _ _ _) as [size offset]. apply lift_frame. eapply write_cells_safe; eauto.
    - intros [= <-]. apply frame_refl.
    - apply lift_frame. eapply fill_cells_safe; eauto.
    - intros [= <-]. apply frame_refl.
    - unfold get. destruct ((sh_height (apply_to sh t) <=? 0) || (sh_width (apply_to sh t) <=? 0)) eqn:Hout;
        [intros [= <-]; apply frame_refl|].
      destruct (nth_error (r_data s) (offset (apply_to sh t) 0 0)) as [old|]; [|intros [= <-]; apply frame_refl].
      destruct (image_cells vc _ _) as [h' w']. intros [= <-]. cbn.
      apply orb_false_iff in Hout as [H1 H2]. apply Nat.leb_gt in H1, H2. apply frame_upd; assumption.
    - destruct (has_glyphs (v_r vc)).
      + unfold get. destruct ((sh_height (apply_to sh t) <=? 0) || (sh_width (apply_to sh t) <=? 0)) eqn:Hout;
          [intros [= <-]; apply frame_refl|].
        destruct (nth_error (r_data s) (offset (apply_to sh t) 0 0)) as [old|]; intros [= <-]; [|apply frame_refl].
        cbn. apply orb_false_iff in Hout as [H1 H2]. apply Nat.leb_gt in H1, H2. apply frame_upd; assumption.
      + apply lift_frame. eapply write_cells_safe; eauto.
    - pose proof (fill_cells_safe (apply_to sh t) wsub (r_data s) (mkCell face0 (KChar (61440 + id))) Rsub Hlen) as Hf.
      destruct (fill_cells _ _ _) as [d1| | |]; cbn in *; try discriminate. intros [= <-]. exact Hf.
    - match goal with |- context [Shape.view (apply_to sh t) (resolve _ (To ?a)) (resolve _ (To ?b))] =>
        destruct (rep_subview H W (apply_to sh t) wsub (To a) (To b) Hmax Rsub ltac:(cbn; lia) ltac:(cbn; lia))
          as (warea & Rarea & Sarea) end.
      match goal with |- context [fill_with ?area (r_data s) ?f] =>
        destruct (fill_with_safe area warea (r_data s) f Rarea Hlen) as (d1 & -> & F1) end.
      cbn. intros [= <-]. cbn. eapply frame_sub; eauto.
    - match goal with |- context [fill_with (apply_to sh t) (r_data s) ?f] =>
        destruct (fill_with_safe (apply_to sh t) wsub (r_data s) f Rsub Hlen) as (d1 & -> & F1) end.
      cbn. intros [= <-]. exact F1.
  Qed.
End Surface.
