(* Model of the view layer (src/view/*.rs, glyph.rs / image.rs as views): view trees,
   BoxConstraint, View::layout producing a layout tree, View::render painting through
   Layout::apply_to, FindPath.  Executable definitions only.

   Arithmetic.  usize operations on numbers that come straight from the view tree (container
   margins and sizes, alignment offsets, layout positions) are modelled as coded: saturating
   where the code saturates, checked (Panic) where it subtracts, divides or clamps with
   min > max.  Sums of extents (flex accounting and offsets, frame border, ranges in flex_render
   and FindPath) saturate at usize::MAX, as the code does since the repairs. *)
From Coq Require Import List Arith Bool NArith ZArith.
From SNT Require Import Base.Outcome Surface.Bounds Surface.Shape Render.CellLayout Render.Writer.
Import ListNotations.
Local Open Scope N_scope.

Definition UMAX : N := 18446744073709551615.
Definition sat_addN (a b : N) : N := N.min (a + b) UMAX.

Inductive axis := Hor | Ver.
Inductive justify := JStart | JCenter | JEnd | JBetween | JAround | JEvenly.
Inductive align := AStart | ACenter | AEnd | AExpand | AShrink | AOffset (z : Z).
Record margins := mkM { m_left : N; m_right : N; m_top : N; m_bottom : N }.

(* BoxConstraint *)
Record ct := mkCt { c_minh : N; c_minw : N; c_maxh : N; c_maxw : N }.

Definition ct_valid (c : ct) : bool := (c_minh c <=? c_maxh c) && (c_minw c <=? c_maxw c).

(* view context: glyph capability + char widths (rctx), pixels per cell *)
(* v_share: the value of `((major_remain as f64) * flex / flex_total).round() as usize` in flex_layout,
   as a function of the flex factors of the node (in order), the index of the flex child being laid
   out and the remaining space.  It is an oracle: the running f64 total makes the value depend on the
   whole sequence of factors; every theorem holds for EVERY such function (binary64 arithmetic on any
   doubles included); the correspondence run instantiates it with exact rational arithmetic, which f64
   reproduces for dyadic factors.  v_frag: image identities of the nine fragments Frame paints. *)
Record vctx := mkV {
  v_r : rctx; ppc_h : N; ppc_w : N;
  v_share : list positive -> nat -> N -> N;
  v_frag : nat -> N }.

Inductive vtree :=
| VText (cells : list ccell) (wraps : bool)                       (* Text *)
| VStr (chars : list N)                                           (* str / String *)
| VFlex (dir : axis) (j : justify)
        (children : list (vtree * option positive * option face * align))
        (* child view, flex factor as a numerator over a common denominator (only positive factors
           are flex children), face to erase the allocated space with, cross-axis alignment *)
| VContainer (child : vtree) (fc : face) (av ah : align) (m : margins) (sz_h sz_w : N)
| VFrame (child : vtree) (color : N)
| VScrollBar (dir : axis) (fc : face) (off_num vis_num den : N)   (* offset / visible as fractions *)
| VTag (tag : N) (child : vtree)
| VNone                                                           (* Option::None *)
| VDynamic (build : ct -> vtree)
| VFill (color : N)                                               (* RGBA as a view *)
| VUnit                                                           (* () *)
| VImage (id ph pw : N)                                           (* pixel height / width *)
| VGlyph (id : N) (gh gw : nat) (fb : list N)
| VProbe (id ph pw : N)                                           (* harness leaf: clamps its preferred size, paints
                                                                    its whole surface with its mark, records the shape *)
| VSurface (h w : N) (c : ccell)                                  (* SurfaceView<Cell> of an h x w surface filled with c *)
| VImageAscii (ih iw color : N)                                   (* ImageAsciiView of an ih x iw image of one colour *)
| VRef (target : option vtree).                                   (* JSON "ref" (ViewCached): the cached view, if any *)

Definition fchild : Type := (vtree * option positive * option face * align)%type.

(* Layout: position, size, attached data (what the model needs of it) *)
Inductive ldata := DNone | DTag (t : N) | DCt (c : ct) | DRef.
Inductive ltree := LNode (r c h w : N) (data : ldata) (kids : list ltree).

Definition l_row (t : ltree) : N := match t with LNode r _ _ _ _ _ => r end.
Definition l_col (t : ltree) : N := match t with LNode _ c _ _ _ _ => c end.
Definition l_hh (t : ltree) : N := match t with LNode _ _ h _ _ _ => h end.
Definition l_ww (t : ltree) : N := match t with LNode _ _ _ w _ _ => w end.
Definition l_data (t : ltree) : ldata := match t with LNode _ _ _ _ d _ => d end.
Definition l_kids (t : ltree) : list ltree := match t with LNode _ _ _ _ _ k => k end.

Definition lnode0 : ltree := LNode 0 0 0 0 DNone [].
Definition leaf (h w : N) : ltree := LNode 0 0 h w DNone [].
Definition set_pos (t : ltree) (r c : N) : ltree := LNode r c (l_hh t) (l_ww t) (l_data t) (l_kids t).
Definition set_ldata (t : ltree) (d : ldata) : ltree := LNode (l_row t) (l_col t) (l_hh t) (l_ww t) d (l_kids t).

(* ---------- sizes along an axis ---------- *)
Definition major (d : axis) (h w : N) : N := match d with Hor => w | Ver => h end.
Definition minor (d : axis) (h w : N) : N := match d with Hor => h | Ver => w end.
(* Size::from_axes / Position::from_axes as (height, width) / (row, col) *)
Definition from_axes (d : axis) (mj mn : N) : N * N := match d with Hor => (mn, mj) | Ver => (mj, mn) end.

(* Ord::clamp: asserts min <= max *)
Definition clampN (v lo hi : N) : outcome N :=
  if hi <? lo then Panic 1000 else Ok (if v <? lo then lo else if hi <? v then hi else v).

(* BoxConstraint::clamp = Size::clamp: height first, then width *)
Definition ct_clamp (c : ct) (h w : N) : outcome (N * N) :=
  let* h' := clampN h (c_minh c) (c_maxh c) in
  let* w' := clampN w (c_minw c) (c_maxw c) in
  Ok (h', w').

Definition leaf_clamped (c : ct) (h w : N) : outcome ltree :=
  let* hw := ct_clamp c h w in Ok (leaf (fst hw) (snd hw)).

(* Align::align *)
Definition align_pos (a : align) (size space : N) : N :=
  let size := N.min size space in
  match a with
  | AStart | AExpand | AShrink => 0
  | ACenter => (space - size) / 2
  | AEnd => space - size
  | AOffset z => if (0 <=? z)%Z then Z.to_N z else (space - size) - Z.to_N (- z)
  end.

(* usize subtraction and division as the code performs them (debug build): underflow and a zero
   divisor panic.  The model uses them wherever the code writes a plain `-` or `/`; saturating_sub
   stays truncated subtraction of N.  LayoutProofs shows none of them ever fires. *)
Definition usub (site a b : N) : outcome N := if a <? b then Panic site else Ok (a - b).
Definition udiv (site a b : N) : outcome N := if b =? 0 then Panic site else Ok (a / b).

(* Align::align as coded (src/view/container.rs:35-50): `space - size` and `/ 2` are plain operators,
   the negative offset uses saturating_sub *)
Definition align_chk (a : align) (size space : N) : outcome N :=
  let size := N.min size space in
  match a with
  | AStart | AExpand | AShrink => Ok 0
  | ACenter => let* d := usub 1005 space size in udiv 1006 d 2
  | AEnd => usub 1005 space size
  | AOffset z => if (0 <=? z)%Z then Ok (Z.to_N z) else let* d := usub 1005 space size in Ok (d - Z.to_N (- z))
  end.

Definition align_eqb (a b : align) : bool :=
  match a, b with
  | AStart, AStart | ACenter, ACenter | AEnd, AEnd | AExpand, AExpand | AShrink, AShrink => true
  | AOffset x, AOffset y => Z.eqb x y
  | _, _ => false
  end.

(* ---------- leaves ---------- *)
Definition str_cells (chars : list N) : list ccell := map (fun ch => mkCell face0 (KChar ch)) chars.

(* no run over these cells ever moves the cursor further right than this, whatever the width *)
Definition text_bound (vc : vctx) (cells : list ccell) : nat :=
  fold_right (fun c a => match classify (v_r vc) (c_kind c) with LSized _ w => w + a | LTab => 8 + a | _ => a end)%nat
             0%nat (expand (v_r vc) cells).

(* Text::layout / str::layout: measured with max.width, then clamped.  The available width enters
   the measuring run capped by text_bound: LayoutProofs.text_size_cap shows that this is the size
   measured with max.width itself (the cap only keeps the unary numbers of the run small). *)
Definition text_layout_v (vc : vctx) (cells : list ccell) (wraps : bool) (c : ct) : outcome ltree :=
  let '(h, w) := text_size (v_r vc) cells wraps (N.to_nat (N.min (c_maxw c) (N.of_nat (text_bound vc cells)))) in
  leaf_clamped c (N.of_nat h) (N.of_nat w).

(* Image::size_cells *)
Definition round_up (a b : N) : N := if a mod b =? 0 then a / b else a / b + 1.
Definition image_cells (vc : vctx) (ph pw : N) : N * N :=
  if (ppc_h vc =? 0) || (ppc_w vc =? 0) || (ph =? 0) || (pw =? 0) then (0, 0)
  else (round_up ph (ppc_h vc), round_up pw (ppc_w vc)).

(* ---------- Flex (src/view/flex.rs:349-456, as repaired) ---------- *)
(* a child seen by flex_layout: how to lay it out, its flex factor, its alignment *)
Definition lchild : Type := ((ct -> outcome ltree) * option positive * align)%type.

Definition ct_loosen (c : ct) : ct := mkCt 0 0 (c_maxh c) (c_maxw c).

(* Axis::constraint(ct, min, max) *)
Definition axis_ct (d : axis) (c : ct) (mn mx : N) : ct :=
  match d with
  | Hor => mkCt (c_minh c) mn (c_maxh c) mx
  | Ver => mkCt mn (c_minw c) mx (c_maxw c)
  end.

(* first pass: non-flex children are laid out, flex children get a default node *)
Record fl1 := mkFl1 { f1_trees : list ltree; f1_nonflex : N; f1_minor : N; f1_total : N }.

Definition flex_pass1 (d : axis) (cl : ct) (acc : outcome fl1) (ch : lchild) : outcome fl1 :=
  let* a := acc in
  let '(lay, fl, _) := ch in
  match fl with
  | None =>
      let* t := lay cl in
      Ok (mkFl1 (f1_trees a ++ [t]) (sat_addN (f1_nonflex a) (major d (l_hh t) (l_ww t)))
                (N.max (f1_minor a) (minor d (l_hh t) (l_ww t))) (f1_total a))
  | Some f => Ok (mkFl1 (f1_trees a ++ [lnode0]) (f1_nonflex a) (f1_minor a) (f1_total a + Npos f))
  end.

(* exact value of round(remain * f_idx / (f_idx + f_idx+1 + ...)) for positive rational factors *)
Definition exact_share (factors : list positive) (idx : nat) (remain : N) : N :=
  let f := Npos (nth idx factors 1%positive) in
  let total := fold_right (fun p a => Npos p + a) 0 (skipn idx factors) in
  (2 * remain * f + total) / (2 * total).

Record fl2 := mkFl2 { f2_trees : list ltree; f2_remain : N; f2_flex : N; f2_minor : N; f2_idx : nat }.

Definition flex_pass2 (share : nat -> N -> N) (d : axis) (cl : ct) (acc : outcome fl2) (cht : lchild * ltree) : outcome fl2 :=
  let* a := acc in
  let '((lay, fl, _), t0) := cht in
  match fl with
  | None => Ok (mkFl2 (f2_trees a ++ [t0]) (f2_remain a) (f2_flex a) (f2_minor a) (f2_idx a))
  | Some _ =>
      (* as repaired: the share is capped by the remaining space *)
      let cmax := N.min (share (f2_idx a) (f2_remain a)) (f2_remain a) in
      if cmax =? 0 then Ok (mkFl2 (f2_trees a ++ [t0]) (f2_remain a) (f2_flex a) (f2_minor a) (S (f2_idx a)))
      else
        let* t := lay (axis_ct d cl 0 cmax) in
        let mj := major d (l_hh t) (l_ww t) in
        (* as repaired: saturating_sub; a child may exceed its share (Frame, ScrollBar) *)
        Ok (mkFl2 (f2_trees a ++ [t]) (f2_remain a - mj) (sat_addN (f2_flex a) mj)
                  (N.max (f2_minor a) (minor d (l_hh t) (l_ww t))) (S (f2_idx a)))
  end.

Definition flex_spaces (j : justify) (unused n : N) : outcome (N * N) :=
  if unused =? 0 then Ok (0, 0)
  else
    match j with
    | JStart => Ok (0, 0)
    | JCenter => let* s := udiv 1006 unused 2 in Ok (s, 0)
    | JEnd => Ok (unused, 0)
    | JBetween =>
        if n <=? 1 then Ok (0, unused)
        else let* m := usub 1007 n 1 in let* s := udiv 1008 unused m in Ok (0, s)
    | JEvenly => let* s := udiv 1008 unused (n + 1) in Ok (s, s)
    | JAround =>
        (* fix: children.len().max(1) *)
        let* space := udiv 1008 unused (N.max n 1) in let* h := udiv 1006 space 2 in Ok (h, space)
    end.

Definition flex_place (d : axis) (mn between : N) (acc : list ltree * N) (cht : lchild * ltree) : list ltree * N :=
  let '(done, off) := acc in
  let '((_, _, al), t) := cht in
  let '(r, c) := from_axes d off (align_pos al (minor d (l_hh t) (l_ww t)) mn) in
  (done ++ [set_pos t r c], sat_addN (sat_addN off (major d (l_hh t) (l_ww t))) between).

(* the placing step with Align::align as coded; LayoutProofs.flex_place_chk_ok: it is flex_place *)
Definition flex_place_chk (d : axis) (mn between : N) (acc : outcome (list ltree * N)) (cht : lchild * ltree)
  : outcome (list ltree * N) :=
  let* a := acc in
  let '((_, _, al), t) := cht in
  let* p := align_chk al (minor d (l_hh t) (l_ww t)) mn in
  let '(r, c) := from_axes d (snd a) p in
  Ok (fst a ++ [set_pos t r c], sat_addN (sat_addN (snd a) (major d (l_hh t) (l_ww t))) between).

Definition flex_factors (cs : list lchild) : list positive :=
  flat_map (fun ch : lchild => match snd (fst ch) with Some f => [f] | None => [] end) cs.

Definition flex_layout (share : list positive -> nat -> N -> N) (d : axis) (j : justify) (c : ct) (cs : list lchild) : outcome ltree :=
  let cl := ct_loosen c in
  let* p1 := fold_left (flex_pass1 d cl) cs (Ok (mkFl1 [] 0 (minor d (c_minh c) (c_minw c)) 0)) in
  let remain := major d (c_maxh c) (c_maxw c) - f1_nonflex p1 in
  let* p2 :=
    if (0 <? remain) && (0 <? f1_total p1) then
      fold_left (flex_pass2 (share (flex_factors cs)) d cl) (combine cs (f1_trees p1)) (Ok (mkFl2 [] remain 0 (f1_minor p1) 0%nat))
    else Ok (mkFl2 (f1_trees p1) remain 0 (f1_minor p1) 0%nat) in
  let unused := major d (c_maxh c) (c_maxw c) - sat_addN (f1_nonflex p1) (f2_flex p2) in
  let* sp := flex_spaces j unused (N.of_nat (length cs)) in
  let* pl := fold_left (flex_place_chk d (f2_minor p2) (snd sp)) (combine cs (f2_trees p2)) (Ok ([], fst sp)) in
  let '(placed, off) := pl in
  let '(h, w) := from_axes d off (f2_minor p2) in
  let* hw := ct_clamp c h w in
  Ok (LNode 0 0 (fst hw) (snd hw) DNone placed).

(* ---------- Container (src/view/container.rs:171-254, margins added saturating as repaired) ---------- *)
Definition container_layout (lay : ct -> outcome ltree) (av ah : align) (m : margins) (sz_h sz_w : N) (c : ct)
  : outcome ltree :=
  let* ch := if sz_h =? 0 then Ok (c_maxh c) else clampN sz_h (c_minh c) (c_maxh c) in
  let* cw := if sz_w =? 0 then Ok (c_maxw c) else clampN sz_w (c_minw c) (c_maxw c) in
  let mh := ch - m_top m - m_bottom m in
  let mw := cw - m_left m - m_right m in
  let cc := mkCt (if align_eqb av AExpand then mh else 0) (if align_eqb ah AExpand then mw else 0) mh mw in
  let* t := lay cc in
  let* pr := align_chk av (l_hh t) mh in
  let* pc := align_chk ah (l_ww t) mw in
  let t' := set_pos t (sat_addN pr (m_top m)) (sat_addN pc (m_left m)) in
  let* ch' := if align_eqb av AShrink
              then clampN (sat_addN (sat_addN (l_hh t) (m_top m)) (m_bottom m)) (c_minh c) (c_maxh c) else Ok ch in
  let* cw' := if align_eqb ah AShrink
              then clampN (sat_addN (sat_addN (l_ww t) (m_left m)) (m_right m)) (c_minw c) (c_maxw c) else Ok cw in
  Ok (LNode 0 0 ch' cw' DNone [t']).

(* ---------- View::layout ---------- *)
Fixpoint layout (vc : vctx) (v : vtree) (c : ct) {struct v} : outcome ltree :=
  match v with
  | VText cells wraps => text_layout_v vc cells wraps c
  | VStr chars => text_layout_v vc (str_cells chars) true c
  | VFlex d j cs =>
      flex_layout (v_share vc) d j c
        (map (fun ch : fchild => match ch with (v', fl, _, al) => (layout vc v', fl, al) end) cs)
  | VContainer child _ av ah m sz_h sz_w => container_layout (layout vc child) av ah m sz_h sz_w c
  | VFrame child _ =>
      if has_glyphs (v_r vc) then
        let c' := mkCt (c_minh c - 2) (c_minw c - 2) (c_maxh c - 2) (c_maxw c - 2) in
        let* t := layout vc child c' in
        Ok (LNode 0 0 (sat_addN (l_hh t) 2) (sat_addN (l_ww t) 2) DNone [set_pos t 1 1])
      else layout vc child c
  | VScrollBar d _ _ _ _ =>
      let mj := major d (c_maxh c) (c_maxw c) in
      let mn := N.max (minor d (c_minh c) (c_minw c)) 1 in
      let '(h, w) := from_axes d mj 1 in
      let* p := usub 1009 mn 1 in
      let '(r, cc) := from_axes d 0 p in
      Ok (LNode r cc h w DNone [])
  | VTag tag child =>
      let* t := layout vc child c in
      Ok (LNode 0 0 (l_hh t) (l_ww t) (DTag tag) [t])
  | VNone => Ok lnode0
  | VDynamic build =>
      (* as repaired: the generated view gets a child node *)
      let* t := layout vc (build c) c in
      Ok (LNode 0 0 (l_hh t) (l_ww t) (DCt c) [t])
  | VFill _ => Ok (leaf (c_maxh c) (c_maxw c))
  | VUnit => Ok (leaf (c_maxh c) (c_maxw c))
  | VImage _ ph pw => let '(h, w) := image_cells vc ph pw in leaf_clamped c h w
  | VGlyph _ gh gw fb =>
      if has_glyphs (v_r vc) then leaf_clamped c (N.of_nat gh) (N.of_nat gw)
      else text_layout_v vc (str_cells fb) true c
  | VProbe _ ph pw => leaf_clamped c ph pw
  | VSurface h w _ => leaf_clamped c h w
  | VImageAscii ih iw _ => leaf_clamped c (ih / 2 + ih mod 2) iw
  | VRef None => Ok lnode0            (* the layout node is left as it was created *)
  | VRef (Some v') =>
      (* as repaired: the cached view gets a child node *)
      let* t := layout vc v' c in
      Ok (LNode 0 0 (l_hh t) (l_ww t) DRef [t])
  end.

(* ---------- rendering ---------- *)
(* Layout::apply_to (as repaired: end = pos saturating_add size), selectors resolved by
   ViewBounds for Range<usize> *)
Definition apply_to (sh : shape) (t : ltree) : shape :=
  Shape.view sh (resolve (sh_height sh) (Rng (Z.of_N (l_row t)) (Z.of_N (sat_addN (l_row t) (l_hh t)))))
          (resolve (sh_width sh) (Rng (Z.of_N (l_col t)) (Z.of_N (sat_addN (l_col t) (l_ww t))))).

(* what a rendering pass carries: the backing slice and the log of probe calls *)
Record rst := mkR { r_data : list ccell; r_log : list (N * shape) }.

(* log entries of library leaves: LEAF_TAG + kind code (text 1, str 2, scroll bar 6, fill 10, image 12,
   glyph 13, surface 15, half-block image 16); probes log their own id *)
Definition LEAF_TAG : N := 1000000.
Definition logged (s : rst) (d : list ccell) (k : N) (sub : shape) : rst := mkR d (r_log s ++ [(LEAF_TAG + k, sub)]).

Definition of_opt {A} (site : N) (o : option A) : outcome A :=
  match o with Some x => Ok x | None => Panic site end.

(* TerminalSurfaceExt::erase *)
Definition erase (sh : shape) (d : list ccell) (f : face) : outcome (list ccell) :=
  of_opt 1010 (fill_with sh d (fun _ _ old => mkCell (overlay (c_face old) f) (KChar 32))).

Definition fill_cells (sh : shape) (d : list ccell) (x : ccell) : outcome (list ccell) :=
  of_opt 1011 (fill sh d x).

Definition face_is_default (f : face) : bool := face_eqb f face0.

(* writer-based leaves: every cell put, results ignored *)
Definition write_cells (vc : vctx) (sh : shape) (d : list ccell) (wraps : bool) (cells : list ccell)
  : outcome (list ccell) :=
  match put_cells (v_r vc) (set_wraps (writer_new sh d) wraps) cells with
  | Ok st => Ok (w_data st)
  | Err e => Err e
  | Panic s => Panic s
  | OutOfFuel => OutOfFuel
  end.

(* fragment_index *)
Definition fragment_index (i size : nat) : nat := if (i =? 0)%nat then 0%nat else if (i + 1 <? size)%nat then 1%nat else 2%nat.

(* an image that is none of the images of the case's tables (a crop of one of them) *)
Definition OTHER_IMAGE : N := 999.

Definition frame_cell (frag : nat -> N) (color : N) (w h c r : nat) (old : ccell) : ccell :=
  if (fragment_index c w =? 1)%nat && (fragment_index r h =? 1)%nat
  then mkCell (mkFace None (Some color) 0) (KChar 32)
  else mkCell face0 (KImage (frag (fragment_index c w + 3 * fragment_index r h)%nat) 1 1).

(* ScrollBar::render: size / offset of the thumb for fractions off_num/den, vis_num/den *)
Definition round_div (a b : N) : N := (2 * a + b) / (2 * b).   (* round half up of a / b, b > 0 *)

Definition scroll_thumb (mj off_num vis_num den : N) : N * N :=
  (* size = (major * visible).clamp(1, major).round() ; offset = ((major - size) * offset).round(),
     both cast with `as usize` (NaN -> 0, +inf -> usize::MAX).  den = 0 is
     ScrollBarPosition::from_counts with total = 0: the fractions are NaN (0/0) or +inf (n/0). *)
  if den =? 0 then
    let size := if vis_num =? 0 then 0 else mj in
    (size, if (off_num =? 0) || (mj - size =? 0) then 0 else UMAX)
  else
    let size := if mj * vis_num <? den then 1 else if den * mj <? mj * vis_num then mj else round_div (mj * vis_num) den in
    (size, round_div ((mj - size) * off_num) den).

Definition rchild : Type := ((ltree -> shape -> rst -> outcome rst) * option face)%type.

Definition flex_render_step (d : axis) (sub : shape) (acc : outcome rst) (ct' : rchild * ltree) : outcome rst :=
  let* s := acc in
  let '((ren, fc), t) := ct' in
  if (l_hh t =? 0) || (l_ww t =? 0) then Ok s
  else
    let* s1 :=
      match fc with
      | None => Ok s
      | Some f =>
          let area :=
            match d with
            | Hor => Shape.view sub (resolve (sh_height sub) Full)
                              (resolve (sh_width sub) (Rng (Z.of_N (l_col t)) (Z.of_N (sat_addN (l_col t) (l_ww t)))))
            | Ver => Shape.view sub (resolve (sh_height sub) (Rng (Z.of_N (l_row t)) (Z.of_N (sat_addN (l_row t) (l_hh t)))))
                              (resolve (sh_width sub) Full)
            end in
          let* d' := erase area (r_data s) f in Ok (mkR d' (r_log s))
      end in
    ren t sub s1.

Fixpoint render (vc : vctx) (v : vtree) (t : ltree) (sh : shape) (s : rst) {struct v} : outcome rst :=
  match v with
  | VText cells wraps =>
      let* d := write_cells vc (apply_to sh t) (r_data s) wraps cells in Ok (logged s d 1 (apply_to sh t))
  | VStr chars =>
      let* d := write_cells vc (apply_to sh t) (r_data s) true (str_cells chars) in Ok (logged s d 2 (apply_to sh t))
  | VFlex d _ cs =>
      let sub := apply_to sh t in
      fold_left (flex_render_step d sub)
        (combine (map (fun ch : fchild => match ch with (v', _, fc, _) => (render vc v', fc) end) cs) (l_kids t))
        (Ok s)
  | VContainer child fc _ _ _ _ _ =>
      let sub := apply_to sh t in
      let* d := if face_is_default fc then Ok (r_data s) else erase sub (r_data s) fc in
      match l_kids t with
      | k :: _ => render vc child k sub (mkR d (r_log s))
      | [] => Err 1
      end
  | VFrame child color =>
      if has_glyphs (v_r vc) then
        let sub := apply_to sh t in
        let* d := of_opt 1012 (fill_with sub (r_data s)
                                 (fun r c old => frame_cell (v_frag vc) color (sh_width sub) (sh_height sub) c r old)) in
        match l_kids t with
        | k :: _ => render vc child k sub (mkR d (r_log s))
        | [] => Err 1
        end
      else render vc child t sh s
  | VScrollBar d fc off_num vis_num den =>
      let mj := major d (l_hh t) (l_ww t) in
      if mj =? 0 then Ok s
      else
        let '(size, offset) := scroll_thumb mj off_num vis_num den in
        let fg := mkCell (mkFace None (f_fg fc) 0) (KChar 32) in
        let bg := mkCell (mkFace None (f_bg fc) 0) (KChar 32) in
        (* the loop over 0..major stops at the first put that reports "out of space"; the cells are
           one column wide, so no more than area + 1 of them are ever put *)
        let sub := apply_to sh t in
        let n := N.min mj (N.of_nat (sh_height sub * sh_width sub + 1)) in
        let cells := map (fun i => if (N.of_nat i <? offset) || (sat_addN offset size <=? N.of_nat i) then bg else fg)
                         (seq 0 (N.to_nat n)) in
        let* d := write_cells vc sub (r_data s) true cells in Ok (logged s d 6 sub)
  | VTag _ child =>
      let sub := apply_to sh t in
      match l_kids t with
      | k :: _ => render vc child k sub s
      | [] => Err 1
      end
  | VNone => Ok s
  | VDynamic build =>
      match l_data t, l_kids t with
      | DCt c, k :: _ => render vc (build c) k (apply_to sh t) s
      | _, _ => Err 1
      end
  | VFill color =>
      let* d := fill_cells (apply_to sh t) (r_data s) (mkCell (mkFace None (Some color) 0) (KChar 32)) in
      Ok (logged s d 10 (apply_to sh t))
  | VUnit => Ok s
  | VImage id ph pw =>
      let sub := apply_to sh t in
      match get sub (r_data s) 0 0 with
      | Some old =>
          (* Image::crop returns the same image (same data, same shape) iff nothing is cut off;
             an image with an empty dimension never compares equal to its crop *)
          let whole := (0 <? ph) && (0 <? pw) &&
                       (ph <=? N.of_nat (sh_height sub) * ppc_h vc) && (pw <=? N.of_nat (sh_width sub) * ppc_w vc) in
          let '(h, w) := image_cells vc (N.min ph (N.of_nat (sh_height sub) * ppc_h vc))
                                        (N.min pw (N.of_nat (sh_width sub) * ppc_w vc)) in
          let cell := mkCell (c_face old) (KImage (if whole then id else OTHER_IMAGE) (N.to_nat h) (N.to_nat w)) in
          Ok (logged s (list_upd (r_data s) (offset sub 0 0) cell) 12 sub)
      | None => Ok (logged s (r_data s) 12 sub)
      end
  | VGlyph id gh gw fb =>
      let sub := apply_to sh t in
      if has_glyphs (v_r vc) then
        match get sub (r_data s) 0 0 with
        | Some old => Ok (logged s (list_upd (r_data s) (offset sub 0 0) (mkCell (c_face old) (KGlyph id gh gw fb))) 13 sub)
        | None => Ok (logged s (r_data s) 13 sub)
        end
      else
        let* d := write_cells vc sub (r_data s) true (str_cells fb) in Ok (logged s d 13 sub)
  | VProbe id _ _ =>
      let sub := apply_to sh t in
      let* d := fill_cells sub (r_data s) (mkCell face0 (KChar (61440 + id))) in
      Ok (mkR d (r_log s ++ [(id, sub)]))
  | VSurface h w c =>
      (* dst.view_mut(..height, ..width).fill_with(|pos, dst| dst.overlay(src[pos])) *)
      let sub := apply_to sh t in
      let hh := N.min (N.of_nat (sh_height sub)) h in
      let ww := N.min (N.of_nat (sh_width sub)) w in
      let area := Shape.view sub (resolve (sh_height sub) (To (Z.of_N hh))) (resolve (sh_width sub) (To (Z.of_N ww))) in
      let* d := of_opt 1013 (fill_with area (r_data s) (fun _ _ old => cell_overlay old c)) in
      Ok (logged s d 15 sub)
  | VImageAscii ih iw color =>
      let sub := apply_to sh t in
      let px := fun (r c : nat) => if (N.of_nat r <? ih)%N && (N.of_nat c <? iw)%N then Some color else None in
      let* d := of_opt 1014 (fill_with sub (r_data s)
                               (fun r c _ => mkCell (mkFace (px (2 * r)%nat c) (px (2 * r + 1)%nat c) 0) (KChar 9600))) in
      Ok (logged s d 16 sub)
  | VRef None => Ok s
  | VRef (Some v') =>
      match l_data t with
      | DRef => match l_kids t with
                | k :: _ => render vc v' k (apply_to sh t) s
                | [] => Err 1
                end
      | _ => Ok s
      end
  end.

(* ---------- FindPath (src/view/layout.rs:230-260) ---------- *)
(* the chain of child indices followed from the root for a position; the root itself is
   always yielded, whatever the position *)
Fixpoint find_child (kids : list ltree) (i : nat) (r c : N) : option (nat * ltree) :=
  match kids with
  | [] => None
  | k :: rest =>
      if (l_col k <=? c) && (c <? sat_addN (l_col k) (l_ww k)) && (l_row k <=? r) && (r <? sat_addN (l_row k) (l_hh k))
      then Some (i, k) else find_child rest (S i) r c
  end.

Fixpoint find_path (fuel : nat) (t : ltree) (r c : N) : list nat :=
  match fuel with
  | O => []
  | S f =>
      match find_child (l_kids t) 0 r c with
      | Some (i, k) => i :: find_path f k (r - l_row k) (c - l_col k)
      | None => []
      end
  end.

(* the same with the subtractions of FindPath::next (src/view/layout.rs:245-246) checked;
   PaintProofs.find_path_chk_ok: they never underflow, the result is find_path *)
Fixpoint find_path_chk (fuel : nat) (t : ltree) (r c : N) : outcome (list nat) :=
  match fuel with
  | O => Ok []
  | S f =>
      match find_child (l_kids t) 0 r c with
      | Some (i, k) =>
          let* r' := usub 1010 r (l_row k) in
          let* c' := usub 1010 c (l_col k) in
          let* rest := find_path_chk f k r' c' in
          Ok (i :: rest)
      | None => Ok []
      end
  end.

Fixpoint depth (t : ltree) : nat :=
  match t with LNode _ _ _ _ _ kids => S (fold_right (fun k a => Nat.max (depth k) a) 0%nat kids) end.
