(* C11 -- kitty graphics output transmits exactly the image; draw and erase stay paired.
   Statements only; each is closed by a lemma proved in Image/Kitty{Parse,Proofs,History,Check,Pigeon}.v.
   Counted: the 15 Theorems.  Audited, not counted: the 7 Lemmas (C11_term_step,
   C11_once_between_errors_by_content, C11_pairing_corner_refuted, C11_pid_pigeonhole,
   C11_same_content_same_id, C11_before_fix_refuted, C11_id_collision_resolved) and the
   non-vacuity Examples at the end.  Open known finding: pid-corner (the last two positions
   share the largest placement id).  Fixed in the crate: placement id 0 (82493c7+adbe35d), image
   id 0 (ce05ea8), empty image placed (10e9b17), two contents sharing an id (c7a01ef).

   Reading guide.  `draw`, `erase`, `handle`, `step`, `run` (Image/Kitty.v) are the model of
   KittyImageHandler; the bytes they produce are tied to the implementation by the
   correspondence check.  `parse_stream`, `b64_decode`, `store_run`, `tstore` (Image/KittySpec.v)
   are the terminal side, written from the protocol document: a parser for the escape codes and
   a store of transmitted images and placements that records protocol errors (`t_errs`).
   `image_wf img`: channel values are bytes and the shape is a window of the backing vector
   (C07's representation relation: any root / crop / transposed view); `nonempty img`:
   width and height are not zero.  `pix_bytes img` = the RGBA bytes of `img.iter()`.
   `lockstep st s ops`: the terminal reads the bytes of every call of a history; every call comes
   with a flag `lost`: if the call delivers an error response for id, the terminal has lost image
   id before it (genuine error, lost = true) or still holds it (spurious error) (`pre_store`).
   `Inv strict st s`: the invariant between handler and terminal; its last clause (every placement
   names an image the handler counts as transmitted) is claimed for strict = true only, i.e. when
   every error response was genuine. *)
From Coq Require Import List Arith NArith Bool Lia.
From SNT Require Import Surface.Shape Surface.ShapeProofs Image.Kitty Image.KittySpec
  Image.KittyParse Image.KittyProofs Image.KittyHistory Corr.C11Corr Image.KittyCheck
  Image.Fnv Image.KittyPigeon.
Import ListNotations.
Local Open Scope N_scope.

(* ------------------------------------------------------------------------------------------ *)
(* (payload) For every well-formed image with at least one pixel (any size, any window of any
   backing vector, any pixel values) that the handler has not transmitted yet, the bytes of one
   draw are exactly: the chunk commands `tx`, then one placement command; every chunk is at most
   4096 bytes, non-empty and a multiple of four; m=1 on every chunk but the last, m=0 on the
   last; the reassembled payload decodes (RFC 4648) to the image's RGBA bytes, whose number is
   width*height*4; and a terminal that reads the chunk commands stores, under the image id,
   exactly (s = width, v = height, those bytes).  Unbounded in the image size. *)
Theorem C11_payload : forall (img : image) (hash : N) (pos : N * N) (st : kitty),
  image_wf img -> nonempty img -> ids_range (k_ids st) -> lookup (image_id st hash) (k_imgs st) = None ->
  let id := image_id st hash in
  let q := qval st in
  let chs := tx_chunks img in
  let tx := chunk_items true id (im_height img) (im_width img) q chs in
  parse_stream (fst (draw st img hash pos)) = Some (tx ++ [put_item id (placement_id pos) q]) /\
  chs <> [] /\
  Forall (fun c => (0 < length c <= 4096)%nat /\ (length c mod 4 = 0)%nat) chs /\
  map item_more tx = repeat (Some 1) (length chs - 1) ++ [Some 0] /\
  b64_decode (concat chs) = Some (pix_bytes img) /\
  N.of_nat (length (pix_bytes img)) = im_width img * im_height img * 4 /\
  (forall s, t_pending s = None ->
     store_run s tx = store_add_image id (mkTimage (im_width img) (im_height img) (pix_bytes img)) s).
Proof. exact payload_thm. Qed.

(* `pix_bytes img` is by definition `flat_map rgba_bytes (im_pixels img)`; the pixels are the cells of
   the window in row-major order:
   positions h w = (0,0), (0,1), ..., (0,w-1), (1,0), ... *)
Theorem C11_row_major : forall img : image, image_wf img ->
  map Some (im_pixels img) =
  map (fun p => nth_error (im_data img) (offset (im_shape img) (fst p) (snd p)))
      (positions (sh_height (im_shape img)) (sh_width (im_shape img))).
Proof. exact pixels_row_major. Qed.

(* an image without pixels: nothing at all is written (no transmission, no placement) *)
Theorem C11_empty : forall (img : image) (hash : N) (pos : N * N) (st : kitty),
  ~ nonempty img -> draw st img hash pos = ([], st).
Proof. intros img hash pos st. apply draw_empty. Qed.

(* every call writes a well-formed sequence of escape codes: the independent parser reads the
   bytes of any draw / erase / handle call back as the commands `step_items` *)
Theorem C11_bytes_parse : forall (st : kitty) (o : op),
  cache_wf st -> op_wf o ->
  parse_stream (fst (fst (step st o))) = Some (step_items st o).
Proof. exact step_bytes_parse. Qed.

(* hence the terminal side of a call (term_step, which would record error 99 for unparsable bytes)
   is the store run over those commands *)
Lemma C11_term_step : forall (lost : bool) (st : kitty) (s : tstore) (o : op),
  cache_wf st -> op_wf o ->
  term_step lost st s o = store_run (pre_store lost o s) (step_items st o).
Proof. exact term_step_items. Qed.

(* ------------------------------------------------------------------------------------------ *)
(* (once, between error responses) For every history of draw / erase / handle calls on a new handler (quiet or not), with
   the terminal reading every byte: the terminal never reports a protocol error -- in particular
   no placement of an image it does not hold (ENOENT), no bad chunk, no payload of the wrong
   size --, no chunked transmission is left open, every placement it holds names an image it
   holds, and (once_scan) a call transmits at most one image, and never an id whose pixels were
   transmitted since the last error response naming that id.  Invariant over histories.  The error
   responses may be genuine or spurious in any mix (the flag paired with each call). *)
Theorem C11_once_between_errors : forall (quiet : bool) (ops : list (op * bool)),
  Forall (fun ol => op_wf (fst ol)) ops ->
  let trace := lockstep (kitty_new quiet) store0 ops in
  Forall (fun s' => t_errs s' = [] /\ t_pending s' = None /\ places_valid s') trace /\
  once_scan [] (combine (map (fun ol => err_of (fst ol)) ops) (map sent_ids trace)) = true.
Proof.
  intros quiet ops H. apply (history_ok false ops (kitty_new quiet) store0 (inv_init false quiet)).
  apply Forall_forall. intros ol Hin. rewrite Forall_forall in H. split; [exact (H ol Hin)|discriminate].
Qed.

(* the same with the hash argument of every call being the content hash of its image (Image/Fnv.v),
   so that "id" above is a function of the content: equal contents share it (C11_same_content_same_id),
   different contents get different ids (C11_ids_distinct) unless their full 64-bit hashes collide.  NOT claimed: "at most once per
   handler lifetime" -- after an error response naming the id the pixels are sent again, by design. *)
Lemma C11_once_between_errors_by_content : forall (quiet : bool) (uops : list (uop * bool)),
  Forall (fun ul => uop_wf (fst ul)) uops ->
  let ops := map (fun ul => (with_hash (fst ul), snd ul)) uops in
  let trace := lockstep (kitty_new quiet) store0 ops in
  Forall (fun s' => t_errs s' = [] /\ t_pending s' = None /\ places_valid s') trace /\
  once_scan [] (combine (map (fun ol => err_of (fst ol)) ops) (map sent_ids trace)) = true.
Proof. exact history_ok_hashed. Qed.

(* the invariant behind it: what the handler counts as transmitted is held by the terminal pixel
   for pixel, and every placement on the terminal names such an image *)
Theorem C11_invariant : forall (strict lost : bool) (st : kitty) (s : tstore) (o : op),
  (strict = true -> lost = true) -> Inv strict st s -> op_wf o ->
  Inv strict (snd (step st o)) (term_step lost st s o).
Proof. intros strict lost st s o Hsl HI Hw. exact (proj1 (step_ok strict lost st s o Hsl HI Hw)). Qed.

(* ------------------------------------------------------------------------------------------ *)
(* (pairing) identifiers fit the protocol's range 1..4294967295 (never 0 = "unspecified") *)
Theorem C11_id_range : forall (st : kitty) (hash : N) (pos : N * N), ids_range (k_ids st) ->
  1 <= image_id st hash <= 4294967295 /\ 1 <= placement_id pos <= 4294967295 /\
  ids_range (k_ids (note_id st hash)).
Proof.
  intros st hash pos H. split; [apply image_id_range, H|]. split; [apply placement_id_range|].
  apply ids_note_range, H.
Qed.

(* two contents never share an id, a content keeps its id: in an id table that is in order (ids_ok:
   valid ids, one entry per content hash, no id twice, fewer than 2^32 - 1 entries) a content hash that
   is new gets an id no other entry holds, and the table stays in order *)
Theorem C11_ids_distinct : forall (st : kitty) (hash : N),
  ids_ok (k_ids st) -> N.of_nat (S (length (k_ids st))) < 4294967295 ->
  ids_ok (k_ids (note_id st hash)) /\
  lookup hash (k_ids (note_id st hash)) = Some (image_id st hash) /\
  (forall h i, lookup h (k_ids st) = Some i -> lookup h (k_ids (note_id st hash)) = Some i) /\
  (forall h1 h2 i, lookup h1 (k_ids (note_id st hash)) = Some i -> lookup h2 (k_ids (note_id st hash)) = Some i ->
     h1 = h2).
Proof.
  intros st hash Hok Hroom. cbn [note_id k_ids].
  assert (Hok' : ids_ok (ids_note (k_ids st) hash)) by (apply ids_note_ok; [exact Hok|exact Hroom]).
  split; [exact Hok'|]. split; [apply lookup_note_same|]. split.
  - intros h i Hl. apply lookup_note_kept, Hl.
  - intros h1 h2 i H1 H2. exact (ids_ok_inj _ h1 h2 i Hok' H1 H2).
Qed.

(* the same over whole histories, and for ids that are assigned while nothing is transmitted under them:
   the handler keeps the id table k_ids (hash -> id, never shrinks) apart from the set k_imgs of images
   it counts as transmitted (emptied by error responses, not filled by erase).  For every history on a
   new handler, with arbitrary hash values on every call (any hash function, any coincidence of the
   derived ids hash mod 2^32-1 + 1) and genuine error responses, at the end: (1) no two hashes hold
   one id, transmitted or not; (2) every image counted as transmitted is filed under the id of its own
   hash and the terminal holds exactly its pixels under that id; (3) every placement on the terminal
   names an id under which such an image is filed -- so every placement shows the pixels of the one
   content its id belongs to. *)
Theorem C11_live_contents_distinct_ids : forall (quiet : bool) (ops : list op),
  Forall op_wf ops -> N.of_nat (length ops) < 4294967295 ->
  let fin := final_pair (kitty_new quiet) store0 (map (fun o => (o, true)) ops) in
  let st := fst fin in let s := snd fin in
  (forall h1 h2 i, lookup h1 (k_ids st) = Some i -> lookup h2 (k_ids st) = Some i -> h1 = h2) /\
  (forall id img hash, lookup id (k_imgs st) = Some (img, hash) ->
     lookup hash (k_ids st) = Some id /\ img_lookup id (t_images s) = Some (content_of img)) /\
  (forall p, In p (t_places s) -> exists img hash, lookup (place_id p) (k_imgs st) = Some (img, hash)).
Proof. exact live_contents_distinct. Qed.

(* for coordinates below 65536 the position is recovered from the placement id and distinct
   positions have distinct ids -- except that the very last position (65535,65535) shares the id
   of (65534,65535), see C11_pairing_corner_refuted and C11_pid_pigeonhole *)
Theorem C11_pairing_ids : forall p1 p2 : N * N, in_dom p1 -> in_dom p2 ->
  (p1 <> (65535, 65535) -> placement_to_pos (placement_id p1) = p1) /\
  (placement_id p1 = placement_id p2 ->
   p1 = p2 \/ (p1 = (65534, 65535) /\ p2 = (65535, 65535)) \/ (p1 = (65535, 65535) /\ p2 = (65534, 65535))).
Proof.
  intros p1 p2 H1 H2. split; [apply placement_inverse, H1|apply placement_inj; assumption].
Qed.

(* draw(img, pos) creates exactly the placement (image_id, placement_id pos) on the terminal; when
   it had to transmit the pixels the terminal drops, with the old data, the old placements of that
   id (there are none unless a spurious error response made the handler forget the image); it
   touches no other placement.  erase(img, Some pos) removes exactly that placement; erase(img, None)
   removes exactly the placements of the image *)
Theorem C11_pairing_draw : forall (strict lost : bool) (st : kitty) (s : tstore) (img : image) (hash : N) (pos : N * N),
  Inv strict st s -> image_wf img -> nonempty img ->
  places_of (term_step lost st s (OpDraw img hash pos)) =
  (image_id st hash, placement_id pos)
    :: filter (fun x => negb (pl_eqb x (image_id st hash, placement_id pos)))
         (if cached st hash then places_of s
          else filter (fun x => negb (fst x =? image_id st hash)) (places_of s)).
Proof. exact draw_places_gen. Qed.

(* with genuine error responses only, a draw touches nothing but its own placement *)
Theorem C11_pairing_draw_strict : forall (lost : bool) (st : kitty) (s : tstore) (img : image) (hash : N) (pos : N * N),
  Inv true st s -> image_wf img -> nonempty img ->
  places_of (term_step lost st s (OpDraw img hash pos)) =
  (image_id st hash, placement_id pos)
    :: filter (fun x => negb (pl_eqb x (image_id st hash, placement_id pos))) (places_of s).
Proof. exact draw_places. Qed.

Theorem C11_pairing_erase : forall (strict lost : bool) (st : kitty) (s : tstore) (img : image) (hash : N) (pos : option (N * N)),
  Inv strict st s -> image_wf img ->
  places_of (term_step lost st s (OpErase img hash pos)) =
  match pos with
  | Some p => filter (fun x => negb (pl_eqb x (image_id st hash, placement_id p))) (places_of s)
  | None => filter (fun x => negb (fst x =? image_id st hash)) (places_of s)
  end.
Proof. exact erase_places. Qed.

(* hence: erasing at pos removes what drawing at pos created, keeps every other placement, in
   particular those of the same image drawn at any other position *)
Theorem C11_pairing : forall (strict lost : bool) (st : kitty) (s : tstore) (img : image) (hash : N) (pos : N * N),
  Inv strict st s -> image_wf img -> in_dom pos ->
  let s' := term_step lost st s (OpErase img hash (Some pos)) in
  ~ In (image_id st hash, placement_id pos) (places_of s') /\
  (forall x, In x (places_of s) -> x <> (image_id st hash, placement_id pos) -> In x (places_of s')) /\
  (forall pos', in_dom pos' -> pos' <> pos ->
     ~ (pos = (65534, 65535) /\ pos' = (65535, 65535)) -> ~ (pos = (65535, 65535) /\ pos' = (65534, 65535)) ->
     In (image_id st hash, placement_id pos') (places_of s) ->
     In (image_id st hash, placement_id pos') (places_of s')).
Proof. exact erase_exact. Qed.

(* known finding (class pid-corner): the last two positions share the largest placement id.  There
   are 2^32 positions with coordinates below 65536 and only 2^32 - 1 valid ids, so some pair has to. *)
Lemma C11_pairing_corner_refuted : exists p1 p2 : N * N,
  in_dom p1 /\ in_dom p2 /\ p1 <> p2 /\ placement_id p1 = placement_id p2.
Proof.
  exists (65534, 65535), (65535, 65535). repeat split; try reflexivity. discriminate.
Qed.

(* the collision is forced: whatever numbering of positions by valid ids one picks, two distinct
   positions with coordinates below 65536 get the same id (2^32 positions, 2^32 - 1 ids) *)
Lemma C11_pid_pigeonhole : forall f : N * N -> N,
  (forall p, in_dom p -> 1 <= f p <= 4294967295) ->
  exists p1 p2, in_dom p1 /\ in_dom p2 /\ p1 <> p2 /\ f p1 = f p2.
Proof. exact pid_pigeonhole. Qed.

(* same content -> same id: the model of Surface::hash (Image/Fnv.v: fnv-1a over height, width and
   the pixels in row-major order; compared with the crate's value on every case) reads nothing but
   height, width and pixel bytes -- not the backing vector, offsets or strides *)
Lemma C11_same_content_same_id : forall (st : kitty) (img1 img2 : image),
  im_height img1 = im_height img2 -> im_width img1 = im_width img2 -> pix_bytes img1 = pix_bytes img2 ->
  image_id st (surface_hash img1) = image_id st (surface_hash img2).
Proof. intros st img1 img2 Hh Hw Hp. f_equal. exact (same_content_same_hash img1 img2 Hh Hw Hp). Qed.

(* the two identifier defects of the unfixed code, on the model side (formulas before the fix:
   id = hash mod 4294967295, placement id = row mod 65536 + (col mod 65536) * 65536): the 1x1 image
   RGBA(178,12,127,104) had image id 0 and position (0,0) had placement id 0 = "unspecified" *)
Lemma C11_before_fix_refuted :
  surface_hash (mkImage [(178, 12, 127, 104)] (of_size 1 1)) mod 4294967295 = 0 /\
  (fst (0, 0) mod 65536) + (snd (0, 0) mod 65536) * 65536 = 0.
Proof. vm_compute. split; reflexivity. Qed.

(* ------------------------------------------------------------------------------------------ *)
(* (all of it, through the predicate of the check)  `c11_code` is the property predicate that the
   correspondence check evaluates on the IMPLEMENTATION's bytes (Image/KittySpec.v check_history:
   parse every call, run the terminal store, no protocol error, content <-> id bijection, transmit
   exactly when not transmitted since the last error response and then exactly the expected
   pixels with s, v, placements = old + {(id, pid)}, pid <> 0, (id, position) <-> pid functional
   and injective, erase removes exactly that placement, a re-transmitted image is re-placed where
   draw had put it).  The model satisfies it on every case outside the known class: any images (well
   formed; content index and 64-bit content hash determine each other, i.e. no two contents of the case
   collide in the full fnv hash), any history of draw / erase / handle calls shorter than the number
   of image ids, positions with coordinates below 65536 other than the last one, which shares its
   placement id (class pid-corner, C11_pairing_corner_refuted). *)
Theorem C11_model_meets_predicate_outside_known_classes :
  forall (quiet : bool) (imgs : list c11_img) (contents : list content) (ops : list c11_op),
  (forall img h c, In (img, h, c) imgs -> image_wf img /\ nth_error contents c = Some (content_rec img)) ->
  (forall i1 h1 c1 i2 h2 c2, In (i1, h1, c1) imgs -> In (i2, h2, c2) imgs -> (c1 = c2 <-> h1 = h2)) ->
  Forall (op_ok imgs) ops ->
  N.of_nat (length ops) < 4294967295 ->
  c11_code (Case quiet imgs contents ops (c11_model (Case quiet imgs contents ops []))) = 0.
Proof. exact model_meets_predicate. Qed.

(* the former finding id-collision (fixed in the crate by c7a01ef): the two 1x1 images below start from
   the same hash-derived id 3679365279; the second one drawn is now given the next free id, its own
   pixels are transmitted, and the history passes the predicate *)
Definition col_a : image := mkImage [(1, 238, 32, 255)] (of_size 1 1).
Definition col_b : image := mkImage [(20, 45, 240, 128)] (of_size 1 1).
Lemma C11_id_collision_resolved :
  pix_bytes col_a <> pix_bytes col_b /\
  image_id_base (surface_hash col_a) = image_id_base (surface_hash col_b) /\
  (let st := snd (draw (kitty_new false) col_a (surface_hash col_a) (1, 1)) in
   image_id st (surface_hash col_a) = 3679365279 /\ image_id st (surface_hash col_b) = 3679365280 /\
   option_map (@length item) (parse_stream (fst (draw st col_b (surface_hash col_b) (2, 2)))) = Some 2%nat) /\
  (let imgs : list c11_img := [(col_a, surface_hash col_a, 0%nat); (col_b, surface_hash col_b, 1%nat)] in
   let contents := [content_rec col_a; content_rec col_b] in
   let ops := [CDraw 0 (1, 1); CDraw 1 (2, 2); CErase 1 (Some (1, 1)); CErase 0 (Some (2, 2))] in
   c11_code (Case false imgs contents ops (c11_model (Case false imgs contents ops []))) = 0).
Proof. vm_compute. repeat split; try reflexivity. discriminate. Qed.

(* ------------------------------------------------------------------------------------------ *)
Check C11_payload : forall (img : image) (hash : N) (pos : N * N) (st : kitty),
  image_wf img -> nonempty img -> ids_range (k_ids st) -> lookup (image_id st hash) (k_imgs st) = None ->
  let id := image_id st hash in
  let q := qval st in
  let chs := tx_chunks img in
  let tx := chunk_items true id (im_height img) (im_width img) q chs in
  parse_stream (fst (draw st img hash pos)) = Some (tx ++ [put_item id (placement_id pos) q]) /\
  chs <> [] /\
  Forall (fun c => (0 < length c <= 4096)%nat /\ (length c mod 4 = 0)%nat) chs /\
  map item_more tx = repeat (Some 1) (length chs - 1) ++ [Some 0] /\
  b64_decode (concat chs) = Some (pix_bytes img) /\
  N.of_nat (length (pix_bytes img)) = im_width img * im_height img * 4 /\
  (forall s, t_pending s = None ->
     store_run s tx = store_add_image id (mkTimage (im_width img) (im_height img) (pix_bytes img)) s).
Check C11_once_between_errors : forall (quiet : bool) (ops : list (op * bool)),
  Forall (fun ol => op_wf (fst ol)) ops ->
  let trace := lockstep (kitty_new quiet) store0 ops in
  Forall (fun s' => t_errs s' = [] /\ t_pending s' = None /\ places_valid s') trace /\
  once_scan [] (combine (map (fun ol => err_of (fst ol)) ops) (map sent_ids trace)) = true.
Check C11_pairing : forall (strict lost : bool) (st : kitty) (s : tstore) (img : image) (hash : N) (pos : N * N),
  Inv strict st s -> image_wf img -> in_dom pos ->
  let s' := term_step lost st s (OpErase img hash (Some pos)) in
  ~ In (image_id st hash, placement_id pos) (places_of s') /\
  (forall x, In x (places_of s) -> x <> (image_id st hash, placement_id pos) -> In x (places_of s')) /\
  (forall pos', in_dom pos' -> pos' <> pos ->
     ~ (pos = (65534, 65535) /\ pos' = (65535, 65535)) -> ~ (pos = (65535, 65535) /\ pos' = (65534, 65535)) ->
     In (image_id st hash, placement_id pos') (places_of s) ->
     In (image_id st hash, placement_id pos') (places_of s')).

Check C11_model_meets_predicate_outside_known_classes :
  forall (quiet : bool) (imgs : list c11_img) (contents : list content) (ops : list c11_op),
  (forall img h c, In (img, h, c) imgs -> image_wf img /\ nth_error contents c = Some (content_rec img)) ->
  (forall i1 h1 c1 i2 h2 c2, In (i1, h1, c1) imgs -> In (i2, h2, c2) imgs -> (c1 = c2 <-> h1 = h2)) ->
  Forall (op_ok imgs) ops ->
  N.of_nat (length ops) < 4294967295 ->
  c11_code (Case quiet imgs contents ops (c11_model (Case quiet imgs contents ops []))) = 0.

(* ------------------------------------------------------------------------------------------ *)
(* non-vacuity *)
Definition ex_img : image :=
  mkImage [(0,0,0,0); (1,2,3,4); (5,6,7,8); (9,9,9,9); (1,1,1,1); (2,2,2,2)] (of_size 2 3).
(* the middle column of ex_img as a 2x1 strided view *)
Definition ex_view : image :=
  mkImage (im_data ex_img) (view (im_shape ex_img) (Some (0, 2)%nat) (Some (1, 2)%nat)).
Definition ex_hash : N := 8213134086453151428.

Example C11_wf_nonvacuous : image_wf ex_img /\ nonempty ex_img /\ image_wf ex_view /\ nonempty ex_view /\
  pix_bytes ex_view = [1; 2; 3; 4; 1; 1; 1; 1].
Proof.
  assert (Hd : Forall rgba_ok (im_data ex_img))
    by (repeat constructor; reflexivity).
  repeat split; try discriminate; try exact Hd.
  - exists 2%nat, 3%nat, (win_root 2 3). split; [apply rep_root|cbn; auto].
  - exists 2%nat, 3%nat, (win_view (win_root 2 3) (Some (0, 2)%nat) (Some (1, 2)%nat)).
    split; [|cbn; auto]. apply rep_view; [apply rep_root|cbn; auto with arith..].
Qed.

(* one draw of ex_img on a new handler: one chunk with m=0, then the placement; decoded payload = pixels *)
Example C11_payload_nonvacuous :
  parse_stream (fst (draw (kitty_new false) ex_img ex_hash (5, 7))) =
    Some [IGfx (kvs_first 900477109 2 3 0 0) (hd [] (tx_chunks ex_img));
          put_item 900477109 458758 0] /\
  option_map (@length N) (b64_decode (concat (tx_chunks ex_img))) = Some 24%nat.
Proof. vm_compute. split; reflexivity. Qed.

(* a 769-pixel image: 3076 bytes, 4104 base64 characters, two chunks of 4096 and 8 bytes, m = 1 then 0 *)
Definition ex_two_chunks : image := mkImage (repeat (7, 8, 9, 10) 769) (of_size 769 1).
Example C11_payload_two_chunks_nonvacuous :
  map (@length N) (tx_chunks ex_two_chunks) = [4096; 8]%nat /\
  map item_more (tx_items 5 0 ex_two_chunks) = [Some 1; Some 0] /\
  option_map (@length N) (b64_decode (concat (tx_chunks ex_two_chunks))) = Some 3076%nat /\
  option_map (@length item)
    (parse_stream (fst (draw (kitty_new false) ex_two_chunks 4 (0, 0)))) = Some 3%nat.
Proof. vm_compute. repeat split; reflexivity. Qed.

(* a history: draw twice, error response, draw again -> transmitted, not, re-transmitted, not *)
Example C11_once_nonvacuous :
  let ops := map (fun o => (o, true))
             [OpDraw ex_img ex_hash (0, 0); OpDraw ex_img ex_hash (5, 7);
              OpEvent (EvKitty 900477109 (Some 458758) true); OpDraw ex_view 77 (5, 7);
              OpErase ex_img ex_hash (Some (0, 0)); OpDraw ex_img ex_hash (1, 1)] in
  map sent_ids (lockstep (kitty_new true) store0 ops) = [[900477109]; []; [900477109]; [78]; []; []] /\
  map places_of (lockstep (kitty_new true) store0 ops) =
    [[(900477109, 1)];
     [(900477109, 458758); (900477109, 1)];
     [(900477109, 458758)];
     [(78, 458758); (900477109, 458758)];
     [(78, 458758); (900477109, 458758)];
     [(900477109, 65538); (78, 458758); (900477109, 458758)]].
Proof. vm_compute. split; reflexivity. Qed.

(* spurious error responses (the terminal still holds image and placements): the handler sends the
   pixels again, the terminal replaces the image and with it drops its older placements *)
Example C11_spurious_errors_nonvacuous :
  let ops := [(OpDraw ex_img ex_hash (0, 0), true); (OpDraw ex_img ex_hash (5, 7), true);
              (OpEvent (EvKitty 900477109 (Some 458758) true), false);
              (OpEvent (EvKitty 900477109 None true), false); (OpDraw ex_img ex_hash (1, 1), true)] in
  map sent_ids (lockstep (kitty_new true) store0 ops) = [[900477109]; []; [900477109]; []; [900477109]] /\
  map places_of (lockstep (kitty_new true) store0 ops) =
    [[(900477109, 1)]; [(900477109, 458758); (900477109, 1)]; [(900477109, 458758)];
     [(900477109, 458758)]; [(900477109, 65538)]].
Proof. vm_compute. split; reflexivity. Qed.

(* a case meeting the hypotheses of C11_model_meets_predicate_outside_known_classes: two images (one a strided view),
   draws, erases, an error response with and without placement, an OK response, another event *)
Example C11_model_meets_predicate_nonvacuous :
  let imgs : list c11_img := [(ex_img, ex_hash, 0%nat); (ex_view, 77, 1%nat)] in
  let contents := [content_rec ex_img; content_rec ex_view] in
  let ops := [CDraw 0 (0, 0); CDraw 1 (0, 0); CDraw 0 (5, 7); CErase 0 (Some (0, 0));
              CResp 900477109 (Some 458758) true true; CResp 78 None true false; CDraw 1 (65535, 65534);
              CResp 78 None false true; COther; CErase 1 None] in
  (forall img h c, In (img, h, c) imgs -> image_wf img /\ nth_error contents c = Some (content_rec img)) /\
  (forall i1 h1 c1 i2 h2 c2, In (i1, h1, c1) imgs -> In (i2, h2, c2) imgs -> (c1 = c2 <-> h1 = h2)) /\
  Forall (op_ok imgs) ops /\
  length (c11_model (Case true imgs contents ops [])) = 10%nat.
Proof.
  destruct C11_wf_nonvacuous as (W1 & _ & W2 & _ & _).
  cbv zeta. split; [|split; [|split]].
  - intros img h c Hin. destruct Hin as [E|[E|[]]]; inversion E; subst; split; try assumption; reflexivity.
  - intros i1 h1 c1 i2 h2 c2 H1 H2.
    destruct H1 as [E1|[E1|[]]], H2 as [E2|[E2|[]]]; inversion E1; inversion E2; subst;
      split; intros X; try reflexivity; try discriminate X; vm_compute in X; discriminate X.
  - repeat constructor; unfold pos_ok, in_dom; cbn [fst snd length]; repeat split; try lia; try discriminate.
  - vm_compute. reflexivity.
Qed.

(* the hypotheses of C11_bytes_parse, C11_invariant and the pairing theorems are met by a new handler
   and an empty terminal, for any well-formed call *)
Example C11_invariant_nonvacuous :
  Inv true (kitty_new false) store0 /\ cache_wf (kitty_new false) /\ ids_ok (k_ids (kitty_new false)) /\
  op_wf (OpDraw ex_img ex_hash (1, 1)) /\ in_dom (1, 1) /\
  parse_stream (fst (fst (step (kitty_new false) (OpErase ex_img ex_hash (Some (1, 1)))))) =
    Some [del_item 900477109 (Some 65538)].
Proof.
  destruct C11_wf_nonvacuous as (W1 & _).
  split; [apply inv_init|]. split; [intros id img hash H; discriminate|].
  split; [constructor; cbn [kitty_new k_ids map length];
          [intros h i H; discriminate|constructor|constructor|reflexivity]|].
  split; [exact W1|]. split; [split; reflexivity|]. vm_compute. reflexivity.
Qed.

(* ids that are assigned while nothing is transmitted under them: two hashes with the same derived id
   (41 and 41 + 4294967295).  erase(a) before any draw gives a the id 42 with an empty transmitted set;
   b then gets 43, not 42; a later draw(a) transmits a under 42 (two commands: data, placement).  The
   same after draw(a) and an error response without placement. *)
Example C11_ids_vs_transmitted_nonvacuous :
  let a := mkImage [(1, 2, 3, 4)] (of_size 1 1) in
  let b := mkImage [(5, 6, 7, 8)] (of_size 1 1) in
  let ha := 41 in let hb := 41 + 4294967295 in
  image_id_base ha = image_id_base hb /\
  (let st1 := snd (step (kitty_new false) (OpErase a ha (Some (2, 3)))) in
   k_imgs st1 = [] /\ image_id st1 ha = 42 /\
   let st2 := snd (step st1 (OpDraw b hb (0, 0))) in
   image_id st2 hb = 43 /\ map fst (k_imgs st2) = [43] /\
   option_map (@length item) (parse_stream (fst (fst (step st2 (OpDraw a ha (2, 3)))))) = Some 2%nat) /\
  (let st1 := snd (step (kitty_new false) (OpDraw a ha (1, 1))) in
   let st2 := snd (step st1 (OpEvent (EvKitty 42 None true))) in
   k_imgs st2 = [] /\ k_ids st2 = [(ha, 42)] /\
   let st3 := snd (step st2 (OpDraw b hb (4, 4))) in
   image_id st3 hb = 43 /\ image_id st3 ha = 42 /\ map fst (k_imgs st3) = [43]).
Proof. vm_compute. repeat split; reflexivity. Qed.
