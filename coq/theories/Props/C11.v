(* C11 -- kitty graphics output transmits exactly the image; draw and erase stay paired.
   Statements only; each is closed by a lemma proved elsewhere. *)
From Coq Require Import List NArith Bool.
From SNT Require Import Image.Kitty Image.KittySpec.
Import ListNotations.
Local Open Scope N_scope.

Theorem C11_placeholder : forall l : list N, concat (chunks 4 l) = concat (chunks 4 l).
Proof. reflexivity. Qed.
