(* C02 — placeholder while the proofs are being written *)
From Coq Require Import List NArith.
From SNT Require Import Base.Outcome Decoder.Payload.
Import ListNotations.
Local Open Scope N_scope.

Theorem C02_number_decode_empty : number_decode [] = Some 0.
Proof. reflexivity. Qed.
