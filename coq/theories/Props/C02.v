(* C02 — input decoding is total: no byte stream can crash it or yield malformed events.
   Statements only; proofs in Decoder/{PayloadProofs,TermSizeProofs,TermcapProofs,EventsProofs,
   EventsTheorems}.v on top of the generic tokeniser theorems of C03.

   Counted (18 Theorems): C02_total_event/_command, C02_run_no_panic_event/_command,
   C02_payload_no_panic(_command), C02_utf8_decoder, C02_utf8_decoder_chunking, C02_chars_scalar,
   C02_numbers, C02_parameter_values, C02_cursor_position, C02_numeric_fields, C02_modified_keys,
   C02_mouse_protocol, C02_mouse_unnamed, C02_spans_in_order(_command).
   Audited but not counted: the reflection Lemmas event_certs / command_certs / utf8_cert,
   C02_calls_accepted(_command), C02_utf8_decoder_exhausted (definitional), C02_tables,
   C02_old_code_refuted (the pre-fix bodies), and the Examples.

   The automata, the order of the registered matchers (ids 0..14), the DecMode code lists and the
   palette tables are the ones regenerated from the source for this run (Gen/ProdDFA.v,
   Decoder/ProdTabs.v); the shape certificates below are recomputed and re-checked by the kernel
   against them (vm_compute), so a grammar edit that lets a too-short / odd-field / differently pieced
   sequence reach a payload decoder breaks `*_certs` and nothing else.  Spec decisions (bit sets,
   clamping, overlong forms, whole-number codes) are listed in design/C02.md. *)
From Coq Require Import List NArith Arith Bool.
From SNT Require Import Base.Outcome Automata.DfaData Automata.DfaDataProofs Automata.Tokenizer
  Automata.TokenizerRun Automata.TokenizerMunch Automata.TokenizerTheorems Automata.Reach Automata.ReachProofs
  Decoder.Payload Decoder.PayloadProofs Decoder.PayloadOld Decoder.TermSizeProofs Decoder.TermcapProofs Decoder.Events
  Decoder.EventsProofs Decoder.EventsTheorems Gen.ProdDFA Decoder.ProdTabs.
Import ListNotations.
Local Open Scope N_scope.

(* ------------------------------------------------------------------------- *)
(* shape certificates, by reflection on the regenerated tables *)

Definition search_fuel : nat := Nat.pow 2 20.
Definition ev_VL : cert := Eval vm_compute in find_cert event_dfa len_step 0 search_fuel.
Definition ev_VT : cert := Eval vm_compute in find_cert event_dfa ts_step ts_m0 search_fuel.
Definition cmd_VL : cert := Eval vm_compute in find_cert command_dfa len_step 0 search_fuel.
Definition cmd_VT : cert := Eval vm_compute in find_cert command_dfa ts_step ts_m0 search_fuel.
Definition ev_VC : cert := Eval vm_compute in find_cert event_dfa tc_step 0 search_fuel.
Definition cmd_VC : cert := Eval vm_compute in find_cert command_dfa tc_step 0 search_fuel.
Definition u8_V : cert := Eval vm_compute in find_cert utf8_dfa len_step 0 search_fuel.

Lemma event_certs : certs_ok event_dfa event_matcher_ids prod_tabs ev_VL ev_VT ev_VC = true.
Proof. vm_compute. reflexivity. Qed.
Lemma command_certs : certs_ok command_dfa command_matcher_ids prod_tabs cmd_VL cmd_VT cmd_VC = true.
Proof. vm_compute. reflexivity. Qed.
Lemma utf8_cert : u8_cert_ok utf8_dfa u8_V = true.
Proof. vm_compute. reflexivity. Qed.

Definition ev_payload := payload_at event_matcher_ids prod_tabs.
Definition cmd_payload := payload_at command_matcher_ids prod_tabs.

(* ------------------------------------------------------------------------- *)
(* TTYEventDecoder / TTYCommandDecoder, any byte string, any partition into reads (empty reads
   allowed): the fuelled loops terminate with Ok, the events are the leftmost-longest tokens,
   no event is the result of a panic, raw events are non-empty, and a further decode on an
   empty reader returns None. *)
Theorem C02_total_event : forall (chunks : list (list N)) (fuel : nat),
  (length (concat chunks) + 3 <= fuel)%nat ->
  exists s',
    tty_feed event_dfa ev_payload fuel (t_init event_dfa) chunks
      = Ok (fst (t_munch event_dfa ev_payload (concat chunks)), s') /\
    sbuf s' = snd (t_munch event_dfa ev_payload (concat chunks)) /\
    tty_decode event_dfa ev_payload s' [] = Ok (s', None, []) /\
    Forall (fun t => match t with TItem it _ => no_panic it | TRaw sp => sp <> [] end)
           (fst (t_munch event_dfa ev_payload (concat chunks))).
Proof. exact (tty_total event_dfa event_matcher_ids prod_tabs ev_VL ev_VT ev_VC event_certs). Qed.

Theorem C02_total_command : forall (chunks : list (list N)) (fuel : nat),
  (length (concat chunks) + 3 <= fuel)%nat ->
  exists s',
    tty_feed command_dfa cmd_payload fuel (t_init command_dfa) chunks
      = Ok (fst (t_munch command_dfa cmd_payload (concat chunks)), s') /\
    sbuf s' = snd (t_munch command_dfa cmd_payload (concat chunks)) /\
    tty_decode command_dfa cmd_payload s' [] = Ok (s', None, []) /\
    Forall (fun t => match t with TItem it _ => no_panic it | TRaw sp => sp <> [] end)
           (fst (t_munch command_dfa cmd_payload (concat chunks))).
Proof. exact (tty_total command_dfa command_matcher_ids prod_tabs cmd_VL cmd_VT cmd_VC command_certs). Qed.

(* run level: the decoder in which a panicking payload decoder aborts the run at the byte where
   the code calls it (Decoder/Events.v `_c` loops: every accepting state reached calls its decoder,
   also for candidates that a longer match replaces) never panics and is exhausted at the end *)
Theorem C02_run_no_panic_event : forall (chunks : list (list N)) (fuel : nat),
  (length (concat chunks) + 3 <= fuel)%nat ->
  exists s',
    tty_feed_c event_dfa ev_payload fuel (t_init event_dfa) chunks
      = Ok (fst (t_munch event_dfa ev_payload (concat chunks)), s') /\
    tty_decode_c event_dfa ev_payload s' [] = Ok (s', None, []).
Proof. exact (tty_total_checked event_dfa event_matcher_ids prod_tabs ev_VL ev_VT ev_VC event_certs). Qed.

Theorem C02_run_no_panic_command : forall (chunks : list (list N)) (fuel : nat),
  (length (concat chunks) + 3 <= fuel)%nat ->
  exists s',
    tty_feed_c command_dfa cmd_payload fuel (t_init command_dfa) chunks
      = Ok (fst (t_munch command_dfa cmd_payload (concat chunks)), s') /\
    tty_decode_c command_dfa cmd_payload s' [] = Ok (s', None, []).
Proof. exact (tty_total_checked command_dfa command_matcher_ids prod_tabs cmd_VL cmd_VT cmd_VC command_certs). Qed.

(* every call of a payload decoder — including those whose result is replaced by a longer
   match — is made on a string the automaton accepts (C02_calls_accepted), and on such strings
   no payload decoder panics: no slice or index out of range, no arithmetic overflow, no
   hex_decode pair[1], no untagged accepting state, no matcher index out of range *)
Theorem C02_payload_no_panic : forall w q,
  run N (d_start event_dfa) (d_delta event_dfa) w = Some q ->
  d_accepting event_dfa q = true ->
  forall site, item_of ev_payload event_dfa q w <> Some (IPanic site).
Proof. exact (item_no_panic event_dfa event_matcher_ids prod_tabs ev_VL ev_VT ev_VC event_certs). Qed.

Theorem C02_payload_no_panic_command : forall w q,
  run N (d_start command_dfa) (d_delta command_dfa) w = Some q ->
  d_accepting command_dfa q = true ->
  forall site, item_of cmd_payload command_dfa q w <> Some (IPanic site).
Proof. exact (item_no_panic command_dfa command_matcher_ids prod_tabs cmd_VL cmd_VT cmd_VC command_certs). Qed.

Lemma C02_calls_accepted : forall (s : st N pitem) b q' w,
  Inv N pitem (d_start event_dfa) (d_delta event_dfa) (d_accepting event_dfa) (d_terminal event_dfa)
      (item_of ev_payload event_dfa) s ->
  call_of event_dfa s b = Some (q', w) ->
  run N (d_start event_dfa) (d_delta event_dfa) w = Some q' /\ d_accepting event_dfa q' = true.
Proof. exact (call_accepted event_dfa event_matcher_ids prod_tabs). Qed.

Lemma C02_calls_accepted_command : forall (s : st N pitem) b q' w,
  Inv N pitem (d_start command_dfa) (d_delta command_dfa) (d_accepting command_dfa) (d_terminal command_dfa)
      (item_of cmd_payload command_dfa) s ->
  call_of command_dfa s b = Some (q', w) ->
  run N (d_start command_dfa) (d_delta command_dfa) w = Some q' /\ d_accepting command_dfa q' = true.
Proof. exact (call_accepted command_dfa command_matcher_ids prod_tabs). Qed.

(* Utf8Decoder: never overruns its 4-byte buffer, terminates, yields only scalar values *)
Theorem C02_utf8_decoder : forall chunks : list (list N),
  exists xs s', u8_feed utf8_dfa (u8_init utf8_dfa) chunks = Ok (xs, s') /\
                Forall (fun x => match x with UChar c => scalar_ok c = true | UErr => True end) xs.
Proof.
  intros chunks. apply (u8_feed_total utf8_dfa u8_V utf8_cert). apply (u8_init_inv utf8_dfa u8_V utf8_cert).
Qed.

(* ... its output does not depend on how the bytes are cut into reads, and a decode on an empty
   reader returns Ok(None) in every state *)
Theorem C02_utf8_decoder_chunking : forall chunks : list (list N),
  u8_feed utf8_dfa (u8_init utf8_dfa) chunks = u8_feed utf8_dfa (u8_init utf8_dfa) [concat chunks].
Proof.
  intros chunks. apply (u8_feed_chunking utf8_dfa u8_V utf8_cert). apply (u8_init_inv utf8_dfa u8_V utf8_cert).
Qed.

Lemma C02_utf8_decoder_exhausted : forall s : u8st, u8_decode utf8_dfa s [] = Ok (s, None, []).
Proof. reflexivity. Qed.

(* characters are Unicode scalar values *)
Theorem C02_chars_scalar :
  (forall data c, dec_utf8 data = Ok (RSome (PChar c)) -> scalar_ok c = true) /\
  (forall code c, keyboard_key code = Some (5, c) -> scalar_ok c = true) /\
  (forall data text, dec_paste data = Ok (RSome (PPaste text)) -> utf8_valid text = true).
Proof. exact (conj dec_utf8_scalar (conj keyboard_key_scalar dec_paste_valid)). Qed.

(* numeric parameters: the unbounded decimal value of the digits, clamped to usize::MAX; never a
   wrapped value, never a panic; anything that is not a digit string is not a number *)
Theorem C02_numbers : forall l : list N,
  (forallb is_digit l = true -> number_decode l = Some (N.min (dec l) usize_max)) /\
  (forallb is_digit l = false -> number_decode l = None).
Proof. intros l. split; [apply number_decode_digits|apply number_decode_nondigit]. Qed.

(* every field that comes out of a parameter list is such a value *)
Theorem C02_parameter_values : forall data sep n,
  In n (numbers_decode data sep) ->
  exists piece, In piece (split_on sep data) /\ forallb is_digit piece = true /\
                n = N.min (dec piece) usize_max.
Proof. exact numbers_decode_values. Qed.

(* one-based coordinates: the reported position is (parameter - 1), a zero parameter is unrecognised *)
Theorem C02_cursor_position : forall data row col,
  dec_cursor data = Ok (RSome (PCursor row col)) ->
  exists body rest, mid data 2 1 = Ok body /\ numbers_decode body 59 = (row + 1) :: (col + 1) :: rest.
Proof. exact dec_cursor_spec. Qed.

(* the same for every other decoder with numeric fields: each field is an element of a parameter
   list of the sequence (hence, by C02_parameter_values / C02_numbers, the clamped unbounded decimal
   value of its digits), minus one for the one-based mouse coordinates; function-key numbers are an
   offset of the key code; modifier sets are the nine known bits of (m - 1) *)
Theorem C02_numeric_fields :
  (forall data name mode row col, dec_mouse data = Ok (RSome (PMouse name mode row col)) ->
     exists body e rest last,
       mid data 3 1 = Ok body /\ numbers_decode body 59 = e :: (col + 1) :: (row + 1) :: rest /\
       index data (length data - 1) = Ok last /\
       mode = (let m := N.land (N.land (N.shiftr e 2) 7) 511 in if last =? 77 then N.lor m 256 else m)) /\
  (forall data a b c d, dec_termsize data = Ok (RSome (PSize a b c d)) ->
     exists p0 cell pix more cb pb r1 r2,
       split_on 27 data = p0 :: cell :: pix :: more /\
       mid cell 3 1 = Ok cb /\ numbers_decode cb 59 = a :: b :: r1 /\
       mid pix 3 1 = Ok pb /\ numbers_decode pb 59 = c :: d :: r2) /\
  (forall data n, dec_kitty_keyboard data = Ok (RSome (PKeyLevel n)) ->
     exists rest, mid data 2 1 = Ok (63 :: rest) /\ number_decode rest = Some n) /\
  (forall data kind arg mode, dec_kitty_keyboard data = Ok (RSome (PKey kind arg mode)) ->
     exists body codes fields,
       mid data 2 1 = Ok body /\ split_on 59 body = codes :: fields /\
       keyboard_key (match numbers_decode codes 58 with c :: _ => c | [] => 1 end) = Some (kind, arg) /\
       mode = match fields with
              | [] => 0
              | modes :: _ => match numbers_decode modes 58 with
                              | m :: _ => if 1 <? m then N.land (m - 1) 511 else 0
                              | [] => 0
                              end
              end) /\
  (forall code kind arg, keyboard_key code = Some (kind, arg) ->
     (kind = 0 /\ code = 27) \/ (kind = 1 /\ code = 13) \/ (kind = 2 /\ code = 9) \/ (kind = 3 /\ code = 127) \/
     (kind = 4 /\ 57376 <= code <= 57398 /\ arg = code - 57376 + 13) \/
     (kind = 5 /\ arg = code /\ scalar_ok code = true)) /\
  (forall data l, dec_devattrs data = Ok (RSome (PDevAttrs l)) ->
     exists body, mid data 3 1 = Ok body /\ l = to_set (filter (fun v => 0 <? v) (numbers_decode body 59))) /\
  (forall data id pl err, dec_kitty_image data = Ok (RSome (PKitty id pl err)) ->
     exists body, mid data 3 2 = Ok body /\
       let kvs := key_value_decode 44 (fst (split_first 59 body)) in
       (id = 0 \/ exists v, In ([105], v) kvs /\ number_decode v = Some id) /\
       (pl = None \/ exists v n, In ([112], v) kvs /\ number_decode v = Some n /\ pl = Some n)) /\
  (forall data name idx c r, dec_osc data = Ok r -> (r = RSome (PColor name idx c) \/ r = RExt (PColor name idx c)) ->
     exists last body a0 args,
       index data (length data - 1) = Ok last /\
       (if last =? 7 then mid data 2 1 else mid data 2 2) = Ok body /\
       split_on 59 body = a0 :: args /\
       ((name = 0 /\ idx = 0 /\ number_decode a0 = Some 10) \/
        (name = 1 /\ idx = 0 /\ number_decode a0 = Some 11) \/
        (name = 2 /\ number_decode a0 = Some 4 /\ exists a1 rest, args = a1 :: rest /\ number_decode a1 = Some idx))) /\
  (forall tb data m st, dec_decmode tb data = Ok (RSome (PDecMode m st)) ->
     exists body rest, mid data 3 2 = Ok body /\ numbers_decode body 59 = m :: st :: rest /\
                       existsb (N.eqb m) (dt_modes tb) = true /\ existsb (N.eqb st) (dt_statuses tb) = true).
Proof.
  exact (conj dec_mouse_spec (conj dec_termsize_spec (conj dec_keylevel_spec (conj dec_key_spec
        (conj keyboard_key_spec (conj dec_devattrs_spec (conj dec_kitty_image_spec (conj dec_osc_spec dec_decmode_spec)))))))).
Qed.

(* legacy cursor / editing / function keys with a modifier parameter (ModifiedKeyMatcher, CSI code ; m
   final): the modifier set is the parameter minus one, at most 255 (a zero parameter or a larger set
   makes the sequence unrecognised: nothing is masked away), the key is named by the final byte and code *)
Theorem C02_modified_keys : forall data kind arg mode,
  dec_modkey data = Ok (RSome (PKey kind arg mode)) ->
  exists body code rest last,
    mid data 2 1 = Ok body /\ numbers_decode body 59 = code :: (mode + 1) :: rest /\ mode <= 255 /\
    index data (length data - 1) = Ok last /\
    (if last =? 126 then tilde_key code else if code =? 1 then final_key last else None) = Some (kind, arg).
Proof. exact dec_modkey_spec. Qed.

Example C02_modified_keys_nonvacuous :
  dec_modkey [27; 91; 49; 53; 59; 50; 126] = Ok (RSome (PKey 4 5 1)) /\          (* ESC[15;2~ = shift+F5 *)
  dec_modkey [27; 91; 49; 59; 57; 65] = Ok (RSome (PKey 15 0 8)) /\              (* ESC[1;9A = super+Up *)
  dec_modkey [27; 91; 49; 59; 50; 53; 55; 65] = Ok RNone /\                      (* ESC[1;257A: set 256 *)
  dec_modkey [27; 91; 49; 59; 48; 65] = Ok RNone /\                              (* ESC[1;0A *)
  dec_modkey [27; 91; 57; 59; 50; 126] = Ok RNone.                               (* ESC[9;2~: no such key *)
Proof. vm_compute. repeat split; reflexivity. Qed.

(* SGR mouse reports: button name and modifier set in the arithmetic of the protocol (low two bits =
   button, +4 shift, +8 alt, +16 ctrl, +64 wheel; final `M` = press).  A button has a name unless
   bit 7 is set (buttons 8..11) or it is the horizontal wheel (codes 66 / 67 + modifiers): such a
   report is unrecognised (second theorem), it is never given the name of another button. *)
Theorem C02_mouse_protocol : forall data name mode row col,
  dec_mouse data = Ok (RSome (PMouse name mode row col)) ->
  exists body e rest last,
    mid data 3 1 = Ok body /\ numbers_decode body 59 = e :: (col + 1) :: (row + 1) :: rest /\
    index data (length data - 1) = Ok last /\
    mouse_named e = true /\
    mode = (e / 4) mod 8 + (if last =? 77 then 256 else 0) /\
    name = (let button := e mod 4 in
            if N.testbit e 6
            then (if button =? 0 then 4 else 5)
            else if button =? 3 then 3 else button).
Proof. exact dec_mouse_protocol. Qed.

Theorem C02_mouse_unnamed : forall data body e c r rest last,
  mid data 3 1 = Ok body -> numbers_decode body 59 = e :: c :: r :: rest ->
  index data (length data - 1) = Ok last ->
  mouse_named e = false -> dec_mouse data = Ok RNone.
Proof. exact dec_mouse_unnamed. Qed.

(* unrecognised input surfaces as raw events whose bytes occur in the input in order: all spans,
   recognised or raw, followed by the pending bytes, are the input *)
Theorem C02_spans_in_order : forall s : list N,
  concat (map span (fst (t_munch event_dfa ev_payload s))) ++ snd (t_munch event_dfa ev_payload s) = s.
Proof.
  exact (munch_concat N pitem (d_start event_dfa) (d_delta event_dfa) (d_accepting event_dfa)
           (d_terminal event_dfa) (item_of ev_payload event_dfa)).
Qed.

Theorem C02_spans_in_order_command : forall s : list N,
  concat (map span (fst (t_munch command_dfa cmd_payload s))) ++ snd (t_munch command_dfa cmd_payload s) = s.
Proof.
  exact (munch_concat N pitem (d_start command_dfa) (d_delta command_dfa) (d_accepting command_dfa)
           (d_terminal command_dfa) (item_of cmd_payload command_dfa)).
Qed.

(* every accepting state of both automata is tagged (decoder.rs:257-261 `expect`), and the payload
   decoders sit where the model's dispatch expects them *)
Lemma C02_tables :
  tagged_ok event_dfa = true /\ tagged_ok command_dfa = true /\
  event_matcher_ids = [0; 1; 2; 3; 4; 5; 6; 7; 8; 9; 10; 11; 12; 13; 14] /\ command_matcher_ids = [4; 12].
Proof. vm_compute. repeat split; reflexivity. Qed.

(* ------------------------------------------------------------------------- *)
(* how the property failed before the fixes: each old body panics on a string that the
   production automaton accepts with the tag of its matcher *)

Definition accepted_by (i : N) (w : list N) : bool :=
  match run N (d_start event_dfa) (d_delta event_dfa) w with
  | Some q => d_accepting event_dfa q
              && match d_tag event_dfa q with Some (false, j) => i =? j | _ => false end
  | None => false
  end.

Lemma C02_old_code_refuted :
  (* ESC [ 0 ; 0 R *)
  (accepted_by 1 [27; 91; 48; 59; 48; 82] = true /\ is_panic (dec_cursor_old [27; 91; 48; 59; 48; 82]) = true) /\
  (* ESC [ < 0 ; 0 ; 0 M *)
  (accepted_by 7 [27; 91; 60; 48; 59; 48; 59; 48; 77] = true /\ is_panic (dec_mouse_old [27; 91; 60; 48; 59; 48; 59; 48; 77]) = true) /\
  (* ESC [ u *)
  (accepted_by 6 [27; 91; 117] = true /\ is_panic (dec_kitty_keyboard_old [27; 91; 117]) = true) /\
  (* twenty digits, even twenty zeros: ESC [ ? 00000000000000000000 u *)
  (accepted_by 6 ([27; 91; 63] ++ repeat 48 20 ++ [117]) = true /\ is_panic (number_decode_old (repeat 48 20)) = true) /\
  (* ED A0 80 (surrogate), F4 90 80 80 and F7 BF BF BF (above U+10FFFF) *)
  (accepted_by 12 [237; 160; 128] = true /\ is_panic (utf8_decode_old [237; 160; 128]) = true) /\
  (accepted_by 12 [244; 144; 128; 128] = true /\ is_panic (utf8_decode_old [244; 144; 128; 128]) = true) /\
  (accepted_by 12 [247; 191; 191; 191] = true /\ is_panic (utf8_decode_old [247; 191; 191; 191]) = true).
Proof. vm_compute. repeat split; reflexivity. Qed.

(* ------------------------------------------------------------------------- *)
Check C02_total_event : forall (chunks : list (list N)) (fuel : nat),
  (length (concat chunks) + 3 <= fuel)%nat ->
  exists s',
    tty_feed event_dfa ev_payload fuel (t_init event_dfa) chunks
      = Ok (fst (t_munch event_dfa ev_payload (concat chunks)), s') /\
    sbuf s' = snd (t_munch event_dfa ev_payload (concat chunks)) /\
    tty_decode event_dfa ev_payload s' [] = Ok (s', None, []) /\
    Forall (fun t => match t with TItem it _ => no_panic it | TRaw sp => sp <> [] end)
           (fst (t_munch event_dfa ev_payload (concat chunks))).
Check C02_utf8_decoder : forall chunks : list (list N),
  exists xs s', u8_feed utf8_dfa (u8_init utf8_dfa) chunks = Ok (xs, s') /\
                Forall (fun x => match x with UChar c => scalar_ok c = true | UErr => True end) xs.

(* non-vacuity: the fixed bodies on the old witnesses, and a stream mixing them *)
Definition ex_events (chunks : list (list N)) : list (tok pitem) :=
  match tty_feed event_dfa ev_payload 200 (t_init event_dfa) chunks with Ok (ts, _) => ts | _ => [] end.

Example C02_fixed_witnesses :
  dec_cursor [27; 91; 48; 59; 48; 82] = Ok RNone /\
  dec_mouse [27; 91; 60; 48; 59; 48; 59; 48; 77] = Ok RNone /\
  dec_kitty_keyboard [27; 91; 117] = Ok (RSome (PKey 5 0 0)) /\
  number_decode (repeat 57 20) = Some usize_max /\
  dec_utf8 [237; 160; 128] = Ok RNone /\ dec_utf8 [244; 144; 128; 128] = Ok RNone /\
  dec_utf8 [240; 159; 144; 177] = Ok (RSome (PChar 128049)).
Proof. vm_compute. repeat split; reflexivity. Qed.

(* overlong encodings (named in the property's quantifier): the automaton checks the SHAPE of a
   sequence only, so `C0 9B` is decoded like the two-byte form it has, to U+001B.  The property asks
   that every produced character be a scalar value (it is, by C02_chars_scalar), not that overlong
   forms be rejected; the strict validator (`utf8_valid`, std's from_utf8) is used for pasted text. *)
Example C02_overlong_example :
  dec_utf8 [192; 155] = Ok (RSome (PChar 27)) /\ scalar_ok 27 = true /\ utf8_valid [192; 155] = false /\
  dec_utf8 [224; 128; 128] = Ok (RSome (PChar 0)).
Proof. vm_compute. repeat split; reflexivity. Qed.

(* non-vacuity of the implications: each hypothesis is met by a real sequence *)
Example C02_numeric_fields_nonvacuous :
  dec_mouse [27; 91; 60; 54; 53; 59; 49; 52; 50; 59; 51; 48; 77] = Ok (RSome (PMouse 5 256 29 141)) /\   (* ESC[<65;142;30M *)
  dec_termsize [27; 91; 56; 59; 50; 52; 59; 56; 48; 116; 27; 91; 52; 59; 54; 48; 48; 59; 56; 48; 48; 116]
    = Ok (RSome (PSize 24 80 600 800)) /\
  dec_kitty_keyboard [27; 91; 63; 53; 117] = Ok (RSome (PKeyLevel 5)) /\                                   (* ESC[?5u *)
  dec_kitty_keyboard [27; 91; 53; 55; 51; 55; 54; 59; 53; 117] = Ok (RSome (PKey 4 13 4)) /\               (* ESC[57376;5u = ctrl+F13 *)
  dec_devattrs [27; 91; 63; 54; 50; 59; 52; 99] = Ok (RSome (PDevAttrs [4; 62])) /\                        (* ESC[?62;4c *)
  dec_kitty_image [27; 95; 71; 105; 61; 51; 49; 44; 112; 61; 49; 49; 59; 79; 75; 27; 92]
    = Ok (RSome (PKitty 31 (Some 11) false)) /\                                                            (* ESC_Gi=31,p=11;OK ESC\ *)
  dec_osc [27; 93; 52; 59; 49; 50; 59; 114; 103; 98; 58; 102; 102; 47; 48; 47; 56; 48; 7]
    = Ok (RSome (PColor 2 12 (Some (255, 0, 128)))) /\                                                     (* ESC]4;12;rgb:ff/0/80 BEL *)
  dec_decmode (mk_dtabs [25; 2026] [0; 1; 2] [] [] []) [27; 91; 63; 50; 48; 50; 54; 59; 50; 36; 121]
    = Ok (RSome (PDecMode 2026 2)) /\                                                                      (* ESC[?2026;2$y *)
  dec_cursor [27; 91; 57; 55; 59; 49; 53; 82] = Ok (RSome (PCursor 96 14)).                                 (* ESC[97;15R *)
Proof. vm_compute. repeat split; reflexivity. Qed.

Example C02_mouse_unnamed_nonvacuous :                                                                     (* ESC[<66;1;1M *)
  mouse_named 66 = false /\ mouse_named 128 = false /\ mouse_named 65 = true /\
  dec_mouse [27; 91; 60; 54; 54; 59; 49; 59; 49; 77] = Ok RNone.
Proof. vm_compute. repeat split; reflexivity. Qed.

Example C02_payload_no_panic_nonvacuous :
  (* `ESC P 1 + r 41 = 42 ESC \` drives the event automaton to an accepting state of the XTGETTCAP matcher *)
  match run N (d_start event_dfa) (d_delta event_dfa) [27; 80; 49; 43; 114; 52; 49; 61; 52; 50; 27; 92] with
  | Some q => d_accepting event_dfa q = true /\ d_tag event_dfa q = Some (false, 10)
  | None => False
  end.
Proof. vm_compute. split; reflexivity. Qed.

Example C02_stream_example :
  ex_events [[27; 91; 48; 59]; [48; 82; 237; 160]; [128; 27; 91; 57; 55; 59; 49; 53; 82]] =
  [ TRaw [27; 91; 48; 59; 48; 82];
    TRaw [237; 160; 128];
    TItem (ISure (PCursor 96 14)) [27; 91; 57; 55; 59; 49; 53; 82] ].
Proof. vm_compute. reflexivity. Qed.
