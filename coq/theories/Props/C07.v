(* C07 — surface views are exact, non-aliasing windows onto their parent.
   Statements only.  H x W is the root surface (backing vector of at least
   H*W elements); a chain is any finite list of view(rows, cols) / transpose
   operations with arbitrary signed, inclusive/exclusive/open selectors.
   Counted: the 12 Theorems.  Audited, not counted: Lemma
   C07_insert_index_at_or_beyond_usize_max, Example C07_example.
   Restricted domain: root height, width <= i64::MAX where a chain is built
   (C07_chain_denotes_window, C07_is_empty); the other theorems hold for every
   represented shape (Rep). *)
From Coq Require Import List Arith Bool ZArith NArith.
From SNT Require Import Surface.Bounds Surface.Shape Surface.ShapeProofs Surface.ShapeOpsProofs.
Import ListNotations.

(* the shape computed by the code for any chain represents the window that the
   same operations (selectors resolved by Python slicing) cut out of a plain matrix *)
Theorem C07_chain_denotes_window : forall (H W : nat) (ops : list vop),
  (Z.of_nat (Nat.max H W) <= i64_max)%Z ->
  forallb op_in ops = true ->
  Rep H W (apply_chain (of_size H W) ops) (win_chain (win_root H W) ops).
Proof.
  intros H W ops Hm Hin. apply rep_chain; auto. apply rep_root.
Qed.

(* every cell of a represented shape lies inside the buffer and distinct positions
   have distinct offsets (the obligation behind the unsafe block of SurfaceMutIter) *)
Theorem C07_offsets_in_bounds_and_injective : forall (H W : nat) (sh : shape) (w : window),
  Rep H W sh w ->
  (forall r c, r < sh_height sh -> c < sh_width sh -> offset sh r c < H * W) /\
  (forall r c r' c', r < sh_height sh -> c < sh_width sh -> r' < sh_height sh -> c' < sh_width sh ->
     offset sh r c = offset sh r' c' -> r = r' /\ c = c').
Proof. exact rep_good. Qed.

(* an offset is the row-major index of the window coordinate in the root matrix *)
Theorem C07_offset_is_window_coordinate : forall (H W : nat) (sh : shape) (w : window) (r c : nat),
  Rep H W sh w -> r < w_h w -> c < w_w w ->
  offset sh r c = root_index W (win_coord w r c) /\
  fst (win_coord w r c) < H /\ snd (win_coord w r c) < W.
Proof. exact rep_offset. Qed.

(* indexing: the matrix element inside the window, absent outside *)
Theorem C07_get : forall (A : Type) (H W : nat) (sh : shape) (w : window) (data : list A) (r c : nat),
  Rep H W sh w -> H * W <= length data ->
  get sh data r c =
  if (r <? w_h w) && (c <? w_w w) then nth_error data (root_index W (win_coord w r c)) else None.
Proof. intros A H W sh w data r c Hrep Hlen. exact (get_spec H W sh w data Hrep Hlen r c). Qed.

(* iteration: exactly height x width items, the window's cells in row-major order *)
Theorem C07_iter : forall (A : Type) (H W : nat) (sh : shape) (w : window) (data : list A),
  Rep H W sh w -> H * W <= length data ->
  map Some (iter sh data) =
    map (fun p => nth_error data (offset sh (fst p) (snd p))) (positions (sh_height sh) (sh_width sh)) /\
  length (iter sh data) = sh_height sh * sh_width sh.
Proof.
  intros A H W sh w data Hrep Hlen. split.
  - exact (iter_spec H W sh w data Hrep Hlen).
  - exact (iter_length H W sh w data Hrep Hlen).
Qed.

(* mutable iteration hands out exactly the window's cells, in row-major order (hence never two
   references to one cell, nor one outside the buffer) *)
Theorem C07_iter_mut_no_alias : forall (A : Type) (H W : nat) (sh : shape) (w : window) (data : list A),
  Rep H W sh w -> H * W <= length data ->
  mut_offsets sh (length data) =
    map (fun p => offset sh (fst p) (snd p)) (positions (sh_height sh) (sh_width sh)) /\
  NoDup (mut_offsets sh (length data)) /\
  Forall (fun o => o < length data) (mut_offsets sh (length data)) /\
  length (mut_offsets sh (length data)) = sh_height sh * sh_width sh.
Proof.
  intros A H W sh w data Hrep Hlen. split.
  - exact (mut_offsets_spec H W sh w data Hrep Hlen).
  - exact (mut_offsets_safe H W sh w data Hrep Hlen).
Qed.

(* the iterator as a state machine: after any sequence of next / nth calls an iterator is at some index k
   (k = number of items passed over).  There it yields the k-th cell of the window in row-major order
   (nothing from height*width on), reports that cell's position ((height, 0) at the end), and the mutable
   iterator hands out the reference to exactly that cell *)
Theorem C07_iterator_at_index : forall (A : Type) (H W : nat) (sh : shape) (w : window) (data : list A) (k : nat),
  Rep H W sh w -> H * W <= length data ->
  let ps := positions (sh_height sh) (sh_width sh) in
  iter_at sh data k = match nth_error ps k with
                      | Some p => nth_error data (offset sh (fst p) (snd p))
                      | None => None
                      end /\
  iter_position sh k = nth k ps (sh_height sh, 0) /\
  mut_at sh (length data) k = option_map (fun p => offset sh (fst p) (snd p)) (nth_error ps k).
Proof. intros A H W sh w data k Hrep Hlen. exact (iterator_at_index H W sh w data Hrep Hlen k). Qed.

(* with_position() on an iterator that has already passed over k items (every k): the position iterator
   yields exactly the cells k, k+1, .. of the window, each once, in row-major order, each with its own
   position; for iter_mut the references handed out are those of exactly these cells *)
Theorem C07_with_position_continues : forall (A : Type) (H W : nat) (sh : shape) (w : window) (data : list A) (k : nat),
  Rep H W sh w -> H * W <= length data ->
  let rest := skipn k (positions (sh_height sh) (sh_width sh)) in
  map (fun e => (fst e, Some (snd e))) (pos_iter_after sh data k) =
    map (fun p => (p, nth_error data (offset sh (fst p) (snd p)))) rest /\
  mut_pos_after sh (length data) k = map (fun p => (p, offset sh (fst p) (snd p))) rest.
Proof. intros A H W sh w data k Hrep Hlen. exact (with_position_continues H W sh w data Hrep Hlen k). Qed.

(* is_empty (start >= end) says exactly "the window has no cell", for every chain-built shape *)
Theorem C07_is_empty : forall (H W : nat) (ops : list vop),
  (Z.of_nat (Nat.max H W) <= i64_max)%Z -> forallb op_in ops = true ->
  let sh := apply_chain (of_size H W) ops in
  is_empty sh = (sh_height sh =? 0) || (sh_width sh =? 0).
Proof. exact is_empty_spec. Qed.

(* fill / fill_with / clear: no panic, every window cell rewritten with f(pos, old),
   every element of the backing vector outside the window unchanged *)
Theorem C07_fill_touches_exactly_the_window :
  forall (A : Type) (H W : nat) (sh : shape) (w : window) (data : list A) (f : nat -> nat -> A -> A),
  Rep H W sh w -> H * W <= length data ->
  exists d', fill_with sh data f = Some d' /\ length d' = length data /\
    (forall r c, r < sh_height sh -> c < sh_width sh ->
       nth_error d' (offset sh r c) = option_map (f r c) (nth_error data (offset sh r c))) /\
    (forall k, (forall r c, r < sh_height sh -> c < sh_width sh -> offset sh r c <> k) ->
       nth_error d' k = nth_error data k).
Proof. intros A H W sh w data f Hrep Hlen. exact (fill_with_spec H W sh w data Hrep Hlen f). Qed.

(* map / to_owned: no panic, exactly height x width items, f applied to the window's
   cells in row-major order *)
Theorem C07_map_reads_exactly_the_window :
  forall (A B : Type) (H W : nat) (sh : shape) (w : window) (data : list A) (f : nat -> nat -> A -> B),
  Rep H W sh w -> H * W <= length data ->
  exists t, map_surf sh data f = Some t /\
    length t = sh_height sh * sh_width sh /\
    map Some t = map (fun p => option_map (f (fst p) (snd p)) (nth_error data (offset sh (fst p) (snd p))))
                     (positions (sh_height sh) (sh_width sh)).
Proof. intros A B H W sh w data f Hrep Hlen. exact (map_spec H W sh w data Hrep Hlen f). Qed.

(* insert(pos, items) with the index arithmetic pos.row * width + pos.col done in usize (insert_at):
   while that index is below usize::MAX there is no panic; item i lands in the window cell with row-major
   index pos.row*width + pos.col + i while that index is inside the window (excess items are
   dropped), every other element of the backing vector is unchanged.  From usize::MAX on see the
   Lemma C07_insert_index_at_or_beyond_usize_max below (audited, not counted). *)
Theorem C07_insert_writes_only_window_cells_upto_usize :
  forall (A : Type) (H W : nat) (sh : shape) (w : window) (data : list A) (r c : N) (items : list A),
  Rep H W sh w -> H * W <= length data ->
  (r * N.of_nat (sh_width sh) + c < 18446744073709551615)%N ->
  let start := N.to_nat r * sh_width sh + N.to_nat c in
  let cells := map (fun p => offset sh (fst p) (snd p)) (positions (sh_height sh) (sh_width sh)) in
  exists d', insert_at sh data r c items = Some d' /\ length d' = length data /\
    (forall i o x, nth_error cells (start + i) = Some o -> nth_error items i = Some x ->
                   nth_error d' o = Some x) /\
    (forall k, (forall i, i < length items -> nth_error cells (start + i) <> Some k) ->
               nth_error d' k = nth_error data k).
Proof.
  intros A H W sh w data r c items Hrep Hlen Hb. rewrite (insert_at_small sh data r c items Hb).
  exact (insert_spec H W sh w data Hrep Hlen (N.to_nat r) (N.to_nat c) items).
Qed.

(* beyond: no window has such a position; the debug build panics before anything is written, except
   that nothing happens at exactly usize::MAX with no item to write (Lemma: the case split of insert_at) *)
Lemma C07_insert_index_at_or_beyond_usize_max :
  forall (A : Type) (sh : shape) (data : list A) (r c : N) (items : list A),
  (18446744073709551615 <= r * N.of_nat (sh_width sh) + c)%N ->
  insert_at sh data r c items = None \/ insert_at sh data r c items = Some data.
Proof. intros A sh data r c items Hb. exact (insert_at_beyond sh data r c items Hb). Qed.

(* non-vacuity: the chain of test_chains (10x10, view(.., ..), view(1..-1, ..), view(.., 1..-1))
   and a transposed one; both satisfy the hypotheses *)
Example C07_example :
  let ops := [OpView Full Full; OpView (Rng 1 (-1)) Full; OpT; OpView (From 2) (RngI 1 (-2))] in
  forallb op_in ops = true /\
  apply_chain (of_size 10 10) ops = mkShape 22 89 6 8 1 10 /\
  win_chain (win_root 10 10) ops = mkWin 2 2 8 6 true.
Proof. vm_compute. repeat split; reflexivity. Qed.
