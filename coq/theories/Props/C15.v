(* C15 — compiled automata accept exactly the language of the expression that
   built them.  Statements only. *)
From Coq Require Import List NArith Bool.
From SNT Require Import Base.Outcome Automata.Regex Automata.NFA Automata.Build Automata.Compile.
Import ListNotations.
Local Open Scope N_scope.

(* the in-place `optional` of the original code is unsound: (a+ b)? accepts "a" *)
Theorem C15_optional_inplace_refuted :
  exists e s, (let* d := compile_default (build_v0 e) in dfa_matches d s) = Ok true /\ matcher e s = false.
Proof. exists (Opt (Seq [Plus (Lit [97]); Lit [98]])), [97]. vm_compute. split; reflexivity. Qed.
