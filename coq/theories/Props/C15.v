(* C15 — compiled automata accept exactly the language of the expression that
   built them.  Statements only.
   Counted (Theorem, 9 here + 3 in Props/C15Prod.v): C15_build, C15_compile,
   C15_compile_total, C15_main, C15_main_unconditional, C15_terminal_dead,
   C15_tags_reachable, C15_tags, C15_tags_tagged_choice; C15_production_event /
   _command / _utf8.
   Audited, not counted (Lemma): C15_build_wf, C15_build_keys, C15_matcher,
   C15_isempty, C15_compile_fast, C15_tags_specs_agree,
   C15_optional_inplace_refuted; Examples: *_nonvacuous.
   Restrictions: DFA stepping theorems assume byte symbols (`bytes s`);
   C15_compile assumes `keys_ok n`, C15_compile_total also `wf n` (both hold of
   every `build e`); C15_tags_tagged_choice is the property's reading of tags
   (tagged alternatives of a choice), C15_tags describes this construction for
   tags anywhere.  See design/C15.md. *)
From Coq Require Import List NArith Bool Lia.
From SNT Require Automata.PathLemmas.
From SNT Require Import Base.Outcome Automata.Regex Automata.NFA Automata.Build Automata.Compile
  Automata.BuildLeaves Automata.BuildProofs Automata.CompileSpec Automata.CompileProofs Automata.BuildKeys
  Automata.C15Main Automata.RegexProofs Automata.CompileTotal Automata.CompileFast Automata.CompileFastProofs
  Automata.TagSpec.
Import ListNotations.
Local Open Scope N_scope.

(* The NFA built by the public combinators for an expression has a path from its
   start state to its stop state labelled s exactly when the expression matches
   s: every expression (arbitrary nesting), every string. *)
Theorem C15_build : forall (e : regex) (s : list N),
  accepts (build e) s <-> matches e s.
Proof. exact build_accepts. Qed.

(* Supporting facts are `Lemma`s (not counted as obligations of the property): properties of the
   specification side, of the model alone, or a pin of the repaired defect. *)

(* it is well formed (start, stop and every edge target exist) and starts at 0 *)
Lemma C15_build_wf : forall e : regex, wf (build e) /\ start (build e) = 0%nat.
Proof. intros e. split; [apply build_wf|apply build_start]. Qed.

Check C15_build : forall (e : regex) (s : list N), accepts (build e) s <-> matches e s.

(* NFA::compile and DFA stepping, for ANY NFA whose edge lists are maps (keys_ok;
   true of every built NFA, C15_build_keys): whenever compile returns (it is
   modelled with fuel), stepping the DFA through any byte string never panics
   and
   - reports a dead transition (None) exactly when no NFA state is reachable
     by the string, otherwise ends in a state k such that
   - k is accepting iff the NFA's stop state is reachable by the string,
   - the tags of k are exactly the tags of the NFA states reachable by it,
   - k is terminal only if every byte has no transition from k, and then no
     extension of the string reaches any NFA state.
   RS n s z : NFA state z is reachable from the start state by s. *)
Theorem C15_compile : forall (fuel cf : nat) (n : nfa) (d : dfa),
  keys_ok n -> compile fuel cf n = Ok d ->
  forall s, bytes s ->
    exists r, transition_many d (dstart d) s = Ok r /\
      match r with
      | None => forall z, ~ RS n s z
      | Some k =>
          exists i, info d k = Ok i /\
            (exists z, RS n s z) /\
            (accepting i = true <-> RS n s (stop n)) /\
            (forall t, In t (dtags i) <-> exists q, RS n s q /\ has_tag n q t) /\
            (terminal i = true ->
               (forall c, (c < 256)%N -> transition d k c = Ok None) /\
               (forall c w z, ~ RS n (s ++ c :: w) z))
      end.
Proof. exact compile_correct. Qed.

Lemma C15_build_keys : forall e : regex, keys_ok (build e).
Proof. exact build_keys. Qed.

(* The property: the DFA compiled from the NFA built for any expression accepts a
   byte string iff the expression matches it; DFA::matches returns (no panic). *)
Theorem C15_main : forall (e : regex) (fuel cf : nat) (d : dfa),
  compile fuel cf (build e) = Ok d ->
  forall s, bytes s ->
    exists b, dfa_matches d s = Ok b /\ (b = true <-> matches e s).
Proof. exact main_matches. Qed.

(* compile terminates without panic on every well-formed NFA (the model carries
   fuel; some fuel always suffices), so the statement above is not vacuous:
   for every expression there is a compiled DFA and it decides the expression *)
Theorem C15_compile_total : forall n : nfa, wf n -> keys_ok n ->
  exists fuel cf d, compile fuel cf n = Ok d.
Proof. exact compile_total. Qed.

Theorem C15_main_unconditional : forall e : regex,
  exists fuel cf d, compile fuel cf (build e) = Ok d /\
    forall s, bytes s -> exists b, dfa_matches d s = Ok b /\ (b = true <-> matches e s).
Proof. exact main_unconditional. Qed.

(* terminal only if no byte can extend the match; a dead transition only if no
   extension can match *)
Theorem C15_terminal_dead : forall (e : regex) (fuel cf : nat) (d : dfa),
  compile fuel cf (build e) = Ok d ->
  forall s, bytes s ->
    exists r, transition_many d (dstart d) s = Ok r /\
      match r with
      | None => forall w, ~ matches e (s ++ w)
      | Some k => exists i, info d k = Ok i /\
                    (accepting i = true <-> matches e s) /\
                    (terminal i = true -> forall c w, ~ matches e (s ++ c :: w))
      end.
Proof. exact main_terminal_dead. Qed.

(* Tags, general law (every expression, tags in any position): the tags reported
   after a string are the tags of the NFA states of `build e` reachable by it
   (a tag sits on the stop state of the sub-automaton it was put on). *)
Theorem C15_tags_reachable : forall (e : regex) (fuel cf : nat) (d : dfa),
  compile fuel cf (build e) = Ok d ->
  forall s k, bytes s -> transition_many d (dstart d) s = Ok (Some k) ->
    exists i, info d k = Ok i /\
      forall t, In t (dtags i) <-> exists q, RS (build e) s q /\ has_tag (build e) q t.
Proof. exact main_tags_reachable. Qed.

(* Tags at the level of the expression, GENERAL law: every expression, tags in
   arbitrary positions (below Seq / Opt / Plus / Many, tags below tags).  The tags
   reported after a string s are exactly the t for which some (t, r) of `tex e`
   has r matching s (tag_law_spec; Automata/TagSpec.v).  `tex` follows where
   tags live: a tag sits on the stop state of the automaton it was put on; Plus
   and the last operand of Seq share their stop state with the result (so an
   outer tag overwrites an inner one there), Choice / Opt / Many allocate a fresh
   untagged stop state; a tagged sub-expression e' in context contributes
   (t, prefix-context . e'). *)
Theorem C15_tags : forall (e : regex) (fuel cf : nat) (d : dfa),
  compile fuel cf (build e) = Ok d ->
  forall s k, bytes s -> transition_many d (dstart d) s = Ok (Some k) ->
    exists i, info d k = Ok i /\ forall t, In t (dtags i) <-> tag_law_spec e s t.
Proof. exact main_tags_general. Qed.

(* the two specifications coincide on the tagged-choice shape *)
Lemma C15_tags_specs_agree : forall e : regex, tagwf e = true ->
  forall s t, tag_law_spec e s t <-> tag_spec e s t.
Proof. exact tex_tagalts. Qed.

(* The special case of the tagged-choice shape `tagwf` (the decoder's automata),
   in the words of the property: the tags of the alternatives that match. *)
Theorem C15_tags_tagged_choice : forall (e : regex) (fuel cf : nat) (d : dfa),
  tagwf e = true -> compile fuel cf (build e) = Ok d ->
  forall s k, bytes s -> transition_many d (dstart d) s = Ok (Some k) ->
    exists i, info d k = Ok i /\ forall t, In t (dtags i) <-> tag_spec e s t.
Proof. exact main_tags. Qed.

(* the reference matcher used as property predicate by the correspondence check
   decides the denotation *)
Lemma C15_matcher : forall (s : list N) (e : regex), matcher e s = true <-> matches e s.
Proof. exact matcher_correct. Qed.

Lemma C15_isempty : forall e : regex,
  (isempty e = true -> forall s, ~ matches e s) /\ (isempty e = false -> exists s, matches e s).
Proof. exact isempty_correct. Qed.

(* The efficient rendering used to evaluate the model under vm_compute (binary
   NFA state ids, positive-map lookup) is the reference model: equal results for
   every NFA and every fuel, including Panic / OutOfFuel. *)
Lemma C15_compile_fast : forall (fuel cf : nat) (n : nfa),
  compile_fast fuel cf n = compile fuel cf n.
Proof. exact compile_fast_eq. Qed.

Check C15_main : forall (e : regex) (fuel cf : nat) (d : dfa),
  compile fuel cf (build e) = Ok d ->
  forall s, bytes s -> exists b, dfa_matches d s = Ok b /\ (b = true <-> matches e s).

(* the in-place `optional` of the original code is unsound: (a+ b)? accepts "a" *)
Lemma C15_optional_inplace_refuted :
  exists e s, (let* d := compile_default (build_v0 e) in dfa_matches d s) = Ok true /\ matcher e s = false.
Proof. exists (Opt (Seq [Plus (Lit [97]); Lit [98]])), [97]. vm_compute. split; reflexivity. Qed.

(* tags below Seq / Opt / Plus and a tag overwriting another one (3 by 2: Plus
   shares its stop state with its operand); the DFA and the expression-level
   specification evaluated side by side *)
Example C15_tags_general_nonvacuous :
  let e := Seq [Tag 1 (Lit [97]); Opt (Tag 2 (Plus (Tag 3 (Lit [98])))); Many (Tag 4 (Lit [99]))] in
  let spec s := fold_left (fun acc a => if matcher (snd a) s then nins (fst a) acc else acc) (tex e) [] in
  let impl s := let* d := compile_default (build e) in
                let* r := transition_many d (dstart d) s in
                match r with Some k => let* i := info d k in Ok (dtags i) | None => Ok [] end in
  (impl [97], impl [97; 98], impl [97; 98; 98], impl [97; 99], impl [97; 98; 99; 99])
  = (Ok [1], Ok [2], Ok [2], Ok [4], Ok [4]) /\
  (spec [97], spec [97; 98], spec [97; 98; 98], spec [97; 99], spec [97; 98; 99; 99])
  = ([1], [2], [2], [4], [4]).
Proof. vm_compute. split; reflexivity. Qed.

Example C15_tags_nonvacuous :
  let e := Choice [Tag 1 (Lit [97; 98; 99]); Tag 2 (Lit [97; 98; 100]); Tag 3 (Seq [Lit [97]; Many (Pred [98; 99])])] in
  tagwf e = true /\
  (let* d := compile_default (build e) in
   let* r := transition_many d (dstart d) [97; 98; 99] in
   match r with Some k => let* i := info d k in Ok (dtags i) | None => Ok [] end) = Ok [1; 3].
Proof. vm_compute. split; reflexivity. Qed.

(* C15_compile on an NFA that is not the image of `build` (hand written: two
   ways to state 1, an epsilon edge, a tag on the stop state), showing the three
   branches: a terminal state, a dead transition, a live non-terminal state *)
Definition hand_nfa : nfa :=
  mknfa 0 1 [ mkst [(97, 1%nat)] [2%nat] None; mkst [] [] (Some 7); mkst [(98, 1%nat); (99, 2%nat)] [] None ].

Example C15_compile_nonvacuous :
  keys_ok hand_nfa /\
  exists d, compile_default hand_nfa = Ok d /\
    (* "a": accepting, terminal, tag 7 *)
    (let* r := transition_many d (dstart d) [97] in
     match r with Some k => let* i := info d k in Ok (accepting i, terminal i, dtags i) | None => Ok (false, false, []) end)
      = Ok (true, true, [7]) /\
    (* "ab": dead *)
    transition_many d (dstart d) [97; 98] = Ok None /\
    (* "c": live, not accepting, not terminal *)
    (let* r := transition_many d (dstart d) [99] in
     match r with Some k => let* i := info d k in Ok (accepting i, terminal i, dtags i) | None => Ok (true, true, []) end)
      = Ok (false, false, []).
Proof.
  split.
  - unfold keys_ok, hand_nfa. cbn. repeat constructor; cbn; intuition discriminate.
  - eexists. split; [vm_compute; reflexivity|]. vm_compute. repeat split; reflexivity.
Qed.

(* C15_compile_total on an NFA outside the image of build: its hypotheses hold of hand_nfa and
   a concrete fuel is exhibited *)
Example C15_compile_total_nonvacuous :
  wf hand_nfa /\ keys_ok hand_nfa /\ exists d, compile 10 100 hand_nfa = Ok d.
Proof.
  split; [|split].
  - unfold wf, size, hand_nfa. cbn [start stop states length]. split; [lia|]. split; [lia|].
    intros q l q' H. unfold nstep in H. cbn [states] in H.
    repeat (apply PathLemmas.gstep_cons in H; destruct H as [[_ H] | H];
            [destruct l; cbn in H; intuition (try discriminate; try congruence);
             match goal with E : (_, _) = (_, _) |- _ => inversion E; subst; lia | E : _ = q' |- _ => subst; lia end|]).
    apply PathLemmas.gstep_nil in H. contradiction.
  - unfold keys_ok, hand_nfa. cbn. repeat constructor; cbn; intuition discriminate.
  - eexists. vm_compute. reflexivity.
Qed.

Example C15_nonvacuous :
  (let* d := compile_default (build (Opt (Seq [Plus (Lit [97]); Lit [98]]))) in dfa_matches d [97]) = Ok false /\
  (let* d := compile_default (build (Opt (Seq [Plus (Lit [97]); Lit [98]]))) in dfa_matches d [97; 97; 98]) = Ok true /\
  matcher (Opt (Seq [Plus (Lit [97]); Lit [98]])) [97; 97; 98] = true.
Proof. vm_compute. repeat split; reflexivity. Qed.
