(* C15 — compiled automata accept exactly the language of the expression that
   built them.  Statements only. *)
From Coq Require Import List NArith Bool.
From SNT Require Import Base.Outcome Automata.Regex Automata.NFA Automata.Build Automata.Compile
  Automata.BuildLeaves Automata.BuildProofs.
Import ListNotations.
Local Open Scope N_scope.

(* The NFA built by the public combinators for an expression has a path from its
   start state to its stop state labelled s exactly when the expression matches
   s: every expression (arbitrary nesting), every string. *)
Theorem C15_build : forall (e : regex) (s : list N),
  accepts (build e) s <-> matches e s.
Proof. exact build_accepts. Qed.

(* it is well formed (start, stop and every edge target exist) and starts at 0 *)
Theorem C15_build_wf : forall e : regex, wf (build e) /\ start (build e) = 0%nat.
Proof. intros e. split; [apply build_wf|apply build_start]. Qed.

Check C15_build : forall (e : regex) (s : list N), accepts (build e) s <-> matches e s.

(* the in-place `optional` of the original code is unsound: (a+ b)? accepts "a" *)
Theorem C15_optional_inplace_refuted :
  exists e s, (let* d := compile_default (build_v0 e) in dfa_matches d s) = Ok true /\ matcher e s = false.
Proof. exists (Opt (Seq [Plus (Lit [97]); Lit [98]])), [97]. vm_compute. split; reflexivity. Qed.

Example C15_nonvacuous :
  (let* d := compile_default (build (Opt (Seq [Plus (Lit [97]); Lit [98]]))) in dfa_matches d [97]) = Ok false /\
  (let* d := compile_default (build (Opt (Seq [Plus (Lit [97]); Lit [98]]))) in dfa_matches d [97; 97; 98]) = Ok true /\
  matcher (Opt (Seq [Plus (Lit [97]); Lit [98]])) [97; 97; 98] = true.
Proof. vm_compute. repeat split; reflexivity. Qed.
