(* C08 — row/column range arguments resolve with Python-style slice semantics.
   Statements only.  view_bounds = model of the code (Surface/Bounds.v, i128 arithmetic as in the
   crate since fix 3c25d1b); py_slice = the specification over unbounded Z.
   Counted: the 6 Theorems.  Audited, not counted: Example C08_examples, the Check pin.
   Domain: every usize axis length, 64-bit target. *)
From Coq Require Import ZArith Bool.
From SNT Require Import Surface.Bounds Surface.BoundsProofs.
Local Open Scope Z_scope.

(* every axis length (any usize value, also beyond i64::MAX), every selector form, every integer
   type, every bound value of that type *)
Theorem C08_python_slice : forall (t : ity) (s : sel) (n : Z),
  0 <= n <= usize_max -> sel_in t s = true ->
  view_bounds t s n = py_slice n s.
Proof. exact view_bounds_py_usize. Qed.

(* hence, about the code's model itself: the answer is absent or a non-empty interval inside the axis *)
Theorem C08_range_model : forall (t : ity) (s : sel) (n a b : Z),
  0 <= n <= usize_max -> sel_in t s = true -> view_bounds t s n = Some (a, b) -> 0 <= a /\ a < b /\ b <= n.
Proof. exact view_bounds_range. Qed.

(* the specification, characterised element by element: py_slice n s is the interval of exactly the
   indices k that the selector selects in Python's reading (negative bounds count from the end,
   `a..b` holds norm a <= k < norm b, `a..=b` holds norm a <= k <= norm b), None when there is none *)
Theorem C08_spec_by_membership : forall (n : Z) (s : sel) (k : Z), 0 <= n ->
  (selects n s k <-> match py_slice n s with Some (a, b) => a <= k < b | None => False end).
Proof. exact py_slice_member. Qed.

(* the answer is None or a non-empty interval inside the axis *)
Theorem C08_range : forall (n : Z) (s : sel) (a b : Z),
  0 <= n -> py_slice n s = Some (a, b) -> 0 <= a /\ a < b /\ b <= n.
Proof. exact py_slice_range. Qed.

(* a single index selects nothing exactly when it is outside [-n, n) *)
Theorem C08_index_absent : forall n i : Z,
  0 <= n -> (py_slice n (Idx i) = None <-> (i < - n \/ n <= i)).
Proof. exact py_slice_none_idx. Qed.

(* the result does not depend on the integer type the selector is written in *)
Theorem C08_type_independent : forall (t1 t2 : ity) (s : sel) (n : Z),
  0 <= n <= usize_max -> sel_in t1 s = true -> sel_in t2 s = true ->
  view_bounds t1 s n = view_bounds t2 s n.
Proof. exact view_bounds_type_independent_usize. Qed.

Check C08_python_slice : forall (t : ity) (s : sel) (n : Z),
  0 <= n <= usize_max -> sel_in t s = true -> view_bounds t s n = py_slice n s.

(* non-vacuity and the former failing inputs, now as theorems about the model *)
Example C08_examples :
  view_bounds I64 (ToI (-11)) 10 = None /\
  view_bounds Usize (From 18446744073709551615) 10 = None /\
  view_bounds Usize (Rng 0 18446744073709551615) 10 = Some (0, 10) /\
  view_bounds I64 (Rng 0 9223372036854775807) 10 = Some (0, 10) /\
  view_bounds I8 (Idx 100) 300 = Some (100, 101) /\
  view_bounds I8 (Idx 0) 128 = Some (0, 1) /\
  view_bounds I32 (Rng (-5) 8) 10 = Some (5, 8) /\
  view_bounds I32 (ToI (-1)) 10 = Some (0, 10) /\
  sel_in I8 (Idx 100) = true /\
  (* axes longer than i64::MAX (the inputs of the former finding axis-beyond-i64max) *)
  view_bounds Usize Full 18446744073709551615 = Some (0, 18446744073709551615) /\
  view_bounds I64 (Idx 9223372036854775807) 18446744073709551615 = Some (9223372036854775807, 9223372036854775808) /\
  view_bounds U64 (Idx 9223372036854775807) 18446744073709551615 = Some (9223372036854775807, 9223372036854775808) /\
  view_bounds I64 (Idx (-1)) 18446744073709551615 = Some (18446744073709551614, 18446744073709551615).
Proof. vm_compute. repeat split; reflexivity. Qed.
