(* C12 — sixel output decodes to the quantised image (placeholder while proofs are built). *)
From Coq Require Import List NArith Bool.
From SNT Require Import Base.Outcome Image.KDTree Image.Sixel.
Import ListNotations.

Example C12_smoke : dec 1203%N = [49; 50; 48; 51]%N.
Proof. vm_compute. reflexivity. Qed.
