(* C12 - sixel output decodes to the quantised image, exact when colours fit the palette.
   Statements only; proofs in Image/Sixel{Interp,Strip,Body,Picture,Final,Cache,FastProofs,View}.v.
   Counted theorems (8): C12_roundtrip, C12_decode_upto_2p56px, C12_exact_upto_2p56px,
   C12_distinct_at_resolution, C12_channel_scaling, C12_crop_reads_view, C12_repeat_while_cached,
   C12_repeat_refuted_after_eviction.  Lemmas (audited, not counted): C12_decode_view,
   C12_cache_repeat, C12_checked_predicates.  Examples: C12_repeat_nonvacuous, C12_nonvacuous,
   C12_decode_view_nonvacuous.
   Restrictions: height >= 6, width >= 1, at most 2^56 pixels (src_ok); exactness needs <= 256
   colours at 0..100 resolution and no sub-sampling; identical bytes on a repeated draw only while
   the entry is cached.  The scaling tables and constants come from Gen/TabSixel.v (and the
   accumulator widths from Gen/TabOctree.v), regenerated from the source on every run, so every
   theorem below is re-checked against them. *)
From Coq Require Import List NArith Bool Lia.
From SNT Require Import Base.Outcome Image.KDTree Image.Octree Image.Quantize Image.Sixel Image.SixelDraw
     Image.SixelBody Image.SixelPicture Image.SixelFinal Image.SixelCache Image.SixelFast Image.SixelFastProofs Image.SixelView Surface.Shape
     Gen.TabSixel.
Import ListNotations.
Local Open Scope N_scope.

(* Encoder / reference-interpreter round trip, for EVERY palette, EVERY index image
   (any width, any height, entries below the palette size), EVERY skip and repeat
   threshold and EVERY iteration order of the colour strips (any enumeration of the
   colours present in each band): the bytes are one well-formed sequence
   ESC P q ... ESC \ that the interpreter decodes to a picture of the declared size
   whose painted pixels are exactly the pixels of the image, each with the colour of
   its palette register (channels at 0..100). *)
Theorem C12_roundtrip : forall shift_min repeat_min scale pal q w orders,
  (forall x, scale x <= 100) ->
  Forall (fun row => length row = w) q ->
  Forall (Forall (fun c => c < N.of_nat (length pal))) q ->
  Forall2 (fun o b => order_ok o b = true) orders (bands (length q) q) ->
  exists bytes pic,
    encode shift_min repeat_min 63 scale pal q w orders = Ok bytes /\
    sixel_decode bytes = Some pic /\
    p_width pic = N.of_nat w /\ p_height pic = N.of_nat (length q) /\
    p_regs pic = regs_of scale 0 pal [] /\
    (forall x y v, In (x, y, v) (p_events pic) ->
       exists row c, nth_error q (N.to_nat y) = Some row /\ nth_error row (N.to_nat x) = Some c /\
                     v = reg_color scale pal c) /\
    (forall xn yn row, nth_error q yn = Some row -> (xn < w)%nat ->
       exists v, In (N.of_nat xn, N.of_nat yn, v) (p_events pic)).
Proof. exact sixel_roundtrip. Qed.

(* SixelImageHandler::draw (first draw of an image): for every image of height >= 6
   and width >= 1 (any pixel values; transparent pixels enter through their composited
   colour) and every iteration order, the output decodes to a picture of size
   w x (h - h mod 6), every pixel painted with its quantised colour, none outside, at
   most 256 registers (picture_ok), the palette having at most 256 entries. *)
Theorem C12_decode_upto_2p56px : forall (rows : list (list spx)) (w : nat),
  src_ok rows w ->
  exists pal q,
    quantize (sixel_eff rows) sixel_palette_size sixel_dither = Ok (pal, q) /\
    (length pal <= 256)%nat /\
    forall orders, orders_ok q orders = true ->
    exists bytes pic,
      sixel_draw rows orders = Ok bytes /\ sixel_decode bytes = Some pic /\
      picture_ok (N.of_nat w) (N.of_nat (height6 rows)) pic = true /\
      forall xn yn, (xn < w)%nat -> (yn < height6 rows)%nat ->
        exists c p, nth_error (nth yn q []) xn = Some c /\ nth_error pal (N.to_nat c) = Some p /\
                    pixel_at (p_events pic) (N.of_nat xn) (N.of_nat yn) = Some (map3 scale p).
Proof. exact draw_decodes. Qed.

(* Cropped views.  An Image is (buffer, Shape); Image::crop keeps the buffer and takes
   Shape::view.  What the code reads at (r, c) of the cropped image, buffer[shape.offset(r, c)]
   (C07's model Surface/Shape.v: view, offset, get; lemmas rep_root, rep_view, rep_offset), is
   entry (r, c) of the window `view_rows parent (Some (r0, r1, c0, c1))`, wherever the window
   lies in its parent. *)
Theorem C12_crop_reads_view : forall (parent : list (list spx)) (H W r0 r1 c0 c1 r c : nat),
  length parent = H -> Forall (fun row => length row = W) parent ->
  (r0 < r1 <= H)%nat -> (c0 < c1 <= W)%nat -> (r < r1 - r0)%nat -> (c < c1 - c0)%nat ->
  Shape.get (Shape.view (Shape.of_size H W) (Some (r0, r1)) (Some (c0, c1))) (concat parent) r c
  = match nth_error (view_rows parent (Some (r0, r1, c0, c1))) r with
    | Some row => nth_error row c
    | None => None
    end.
Proof. exact crop_is_view_rows. Qed.

(* ... so the draw theorems apply to the window (an instance of C12_decode_upto_2p56px:
   picture_ok of the window's picture; auxiliary, not counted) *)
Lemma C12_decode_view : forall (parent : list (list spx)) crop (w : nat),
  src_ok (view_rows parent crop) w ->
  exists pal q,
    quantize (sixel_eff (view_rows parent crop)) sixel_palette_size sixel_dither = Ok (pal, q) /\
    (length pal <= 256)%nat /\
    forall orders, orders_ok q orders = true ->
    exists bytes pic,
      sixel_draw (view_rows parent crop) orders = Ok bytes /\ sixel_decode bytes = Some pic /\
      picture_ok (N.of_nat w) (N.of_nat (height6 (view_rows parent crop))) pic = true.
Proof. exact draw_decodes_view. Qed.

(* At most 256 distinct colours (below the subsampling threshold): the decoded picture
   equals the source at sixel's 0..100 resolution, pixel for pixel. *)
Theorem C12_exact_upto_2p56px : forall (rows : list (list spx)) (w : nat),
  src_ok rows w ->
  distinct_colors (sixel_eff rows) <= 256 -> sample_of (sixel_eff rows) sixel_palette_size < 2 ->
  exists pal q,
    quantize (sixel_eff rows) sixel_palette_size sixel_dither = Ok (pal, q) /\
    forall orders, orders_ok q orders = true ->
    exists bytes pic,
      sixel_draw rows orders = Ok bytes /\ sixel_decode bytes = Some pic /\
      forall xn yn p, (xn < w)%nat -> (yn < height6 rows)%nat -> src_px rows xn yn = Some p ->
        pixel_at (p_events pic) (N.of_nat xn) (N.of_nat yn) = Some (src100 p).
Proof. exact draw_exact. Qed.

(* the hypothesis of C12_exact_upto_2p56px is the property's "at most 256 distinct colours at
   sixel's 0-100 channel resolution" *)
Theorem C12_distinct_at_resolution : forall rows w,
  src_ok rows w -> distinct_colors (sixel_eff rows) = distinct100 rows.
Proof. exact distinct100_eff. Qed.

(* the tables: what is written for a channel is round(100 x / 255), also after the
   reduction applied before quantisation; values never exceed 100 *)
Theorem C12_channel_scaling : forall x, x < 256 ->
  scale (pre x) = spec100 x /\ scale x <= 100 /\ pre x < 256 /\
  sixel_band = 6%nat /\ sixel_code_offset = 63 /\ sixel_palette_size <= 256.
Proof. exact channel_scaling. Qed.

Definition ex_rows_def : list (list spx) :=
  [[Opaque (255, 0, 0); Opaque (0, 0, 255)]; [Opaque (255, 0, 0); Opaque (255, 0, 0)];
   [Opaque (0, 0, 255); Opaque (0, 0, 255)]; [Opaque (255, 0, 0); Opaque (0, 0, 255)];
   [Opaque (255, 0, 0); Opaque (0, 0, 255)]; [Opaque (255, 0, 0); Opaque (0, 0, 255)];
   [Opaque (9, 9, 9); Transp (1, 2, 3) 7 (4, 5, 6)]].

(* Repeated draws on one handler (`handler_run`: the LRU cache model with the regenerated
   IMAGE_CACHE_SIZE, keyed by content hash, fresh encodings by sixel_draw under each draw's
   own hash-map order): while everything drawn fits the cache, a later draw of an image
   (same key) returns exactly the bytes of its first draw, whatever order a fresh encoding
   would use now.  Assumes the key identifies the view's content (64-bit FNV hash).
   The hypothesis `total <= sixel_cache_limit` is essential: see the refutation below. *)
Theorem C12_repeat_while_cached : forall (ds : list draw_req) i j key rows oi rows' oj b,
  total (map cache_req ds) <= sixel_cache_limit ->
  nth_error ds i = Some (key, rows, oi) -> sixel_draw rows oi = Ok b -> b <> [] ->
  (forall i' d, (i' < i)%nat -> nth_error ds i' = Some d -> fst (fst d) <> key) ->
  (i < j)%nat -> nth_error ds j = Some (key, rows', oj) ->
  nth_error (handler_run ds) i = Some b /\ nth_error (handler_run ds) j = Some b.
Proof. exact repeat_draw. Qed.

(* "drawing the same image again emits identical bytes" is FALSE once its entry has been evicted:
   the image is encoded again, under whatever hash-map order that draw has.  (The real limit
   is 128 MB of sixel text on one handler; the correspondence forces evictions through the
   verif-hooks size override and observes exactly this.) *)
Theorem C12_repeat_refuted_after_eviction :
  exists limit ds,
    nth_error ds 0 = Some (1, Some [1; 2; 3]) /\ nth_error ds 2 = Some (1, Some [9]) /\
    nth_error (hrun limit ([], 0) ds) 0 = Some [1; 2; 3] /\
    nth_error (hrun limit ([], 0) ds) 2 = Some [9].
Proof. exists 4, [(1, Some [1; 2; 3]); (2, Some [4; 5; 6]); (1, Some [9])]. vm_compute. repeat split; reflexivity. Qed.

(* (auxiliary) the cache alone, for any limit: hits return the first bytes while the draws fit *)
Lemma C12_cache_repeat : forall limit ds key b i j fresh,
  total ds <= limit ->
  nth_error ds i = Some (key, Some b) ->
  (forall i', (i' < i)%nat -> forall f, nth_error ds i' <> Some (key, f)) ->
  (i < j)%nat -> nth_error ds j = Some (key, fresh) ->
  nth_error (hrun limit ([], 0) ds) i = Some b /\ nth_error (hrun limit ([], 0) ds) j = Some b.
Proof. exact second_draw_identical. Qed.

Example C12_repeat_nonvacuous :
  handler_run [(7, ex_rows_def, [[0; 1]]); (9, [], []); (7, ex_rows_def, [[1; 0]])]
  = match sixel_draw ex_rows_def [[0; 1]] with Ok b => [b; []; b] | _ => [] end /\
  sixel_draw ex_rows_def [[0; 1]] <> sixel_draw ex_rows_def [[1; 0]].
Proof. split; [vm_compute; reflexivity|vm_compute; discriminate]. Qed.

(* The predicates the correspondence evaluates on the implementation's bytes (map-based,
   O(n log n)) are the predicates of the theorems above. *)
(* auxiliary, about the specification predicates only *)
Lemma C12_checked_predicates : forall w h p,
  picture_ok_fast w h p = picture_ok w h p /\
  (forall expected, picture_ok_fast w h p = true ->
     Forall (fun r => N.of_nat (length r) = w) expected ->
     picture_eq_fast w expected p = picture_eq expected p) /\
  (forall rows, distinct100_fast rows = distinct100 rows).
Proof. intros w h p. destruct (fast_predicates w h p) as [A B]. repeat split; [exact A|exact B|exact distinct100_fast_eq]. Qed.

Check C12_decode_upto_2p56px : forall (rows : list (list spx)) (w : nat), src_ok rows w ->
  exists pal q, quantize (sixel_eff rows) sixel_palette_size sixel_dither = Ok (pal, q) /\
    (length pal <= 256)%nat /\
    forall orders, orders_ok q orders = true ->
    exists bytes pic, sixel_draw rows orders = Ok bytes /\ sixel_decode bytes = Some pic /\
      picture_ok (N.of_nat w) (N.of_nat (height6 rows)) pic = true /\
      forall xn yn, (xn < w)%nat -> (yn < height6 rows)%nat ->
        exists c p, nth_error (nth yn q []) xn = Some c /\ nth_error pal (N.to_nat c) = Some p /\
                    pixel_at (p_events pic) (N.of_nat xn) (N.of_nat yn) = Some (map3 scale p).

(* non-vacuity: a 13 x 6 image (two bands, the 13th row is cut), three colours, runs of five
   equal sixels (the `!5` form), skips, a transparent pixel in a visible row; two different
   strip orders give different bytes and the same picture *)
Definition R : spx := Opaque (255, 0, 0).
Definition B : spx := Opaque (0, 0, 255).
Definition T : spx := Transp (1, 2, 3) 7 (4, 5, 6).
Definition ex_rows : list (list spx) :=
  [[R; R; R; R; R; B]; [R; R; R; R; R; B]; [B; B; B; B; B; B]; [R; T; R; R; R; B]; [R; R; R; R; R; B];
   [R; R; R; R; R; R]; [B; B; B; B; B; R]; [B; B; B; B; B; R]; [B; B; B; B; B; R]; [B; B; B; B; B; R];
   [B; B; B; B; B; R]; [B; B; B; B; B; T]; [R; B; R; B; R; B]].

Example C12_nonvacuous :
  src_ok ex_rows 6 /\
  (forall o, In o [[[0; 1; 2]; [1; 0; 2]]; [[2; 1; 0]; [0; 2; 1]]] ->
     match quantize (sixel_eff ex_rows) sixel_palette_size sixel_dither, sixel_draw ex_rows o with
     | Ok (pal, q), Ok bytes =>
         orders_ok q o &&
         match sixel_decode bytes with
         | Some p => picture_ok 6 12 p && picture_eq (sixel_src100 ex_rows) p
         | None => false
         end
     | _, _ => false
     end = true) /\
  sixel_draw ex_rows [[0; 1; 2]; [1; 0; 2]] <> sixel_draw ex_rows [[2; 1; 0]; [0; 2; 1]] /\
  (* the first strip of the first order: colour 0 = the transparent pixel's composite, one sixel in column 1 *)
  (exists rest, sixel_draw ex_rows [[0; 1; 2]; [1; 0; 2]] = Ok rest /\
                existsb (fun b => b =? 33) rest = true).       (* a `!` repeat introducer occurs *)
Proof.
  split; [|split; [|split]].
  - repeat split; try (cbn; lia); try (apply N.leb_le; vm_compute; reflexivity); repeat constructor.
  - intros o [<-|[<-|[]]]; vm_compute; reflexivity.
  - vm_compute. discriminate.
  - eexists. split; [vm_compute; reflexivity|vm_compute; reflexivity].
Qed.

(* a crop that does not start at the origin: rows 1..13, columns 1..5 of the 13 x 6 image below *)
Example C12_decode_view_nonvacuous :
  src_ok (view_rows ex_rows (Some (1, 13, 1, 5))%nat) 4 /\
  view_rows ex_rows (Some (1, 13, 1, 5))%nat <> firstn 12 (map (firstn 4) ex_rows) /\
  match sixel_draw (view_rows ex_rows (Some (1, 13, 1, 5))%nat) [[2; 0; 1]; [2; 1]] with
  | Ok bytes => match sixel_decode bytes with
                | Some p => picture_ok 4 12 p && picture_eq (sixel_src100 (view_rows ex_rows (Some (1, 13, 1, 5))%nat)) p
                | None => false
                end
  | _ => false
  end = true.
Proof.
  split; [|split].
  - repeat split; try (cbn; lia); try (apply N.leb_le; vm_compute; reflexivity); repeat constructor.
  - vm_compute. discriminate.
  - vm_compute. reflexivity.
Qed.

