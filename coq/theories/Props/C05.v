(* C05 — encoded commands mean exactly what was commanded.  Statements only. *)
From Coq Require Import List NArith ZArith Bool.
From SNT Require Import Base.Outcome Encoder.Decimal Encoder.Utf8 Encoder.Encode Encoder.VT Encoder.Denote.
Import ListNotations.
Local Open Scope N_scope.

Theorem C05_placeholder : forall pal cp, encode pal pal cp Reset = Ok [27; 99].
Proof. reflexivity. Qed.
