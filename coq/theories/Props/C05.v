(* C05 — encoded commands mean exactly what was commanded to a VT/xterm
   interpreter; self-contained sequences; encoding never panics.
   Statements only; proofs are in Encoder/EncodeMeaning.v and below it.

   Reading guide
     encode pal256 gray4 caps cmd   model of TTYEncoder::encode (Encoder/Encode.v), tied to the code by
                                    the correspondence run and by regenerated tables (Gen/TabEncoder.v, TabColor.v)
     vt_ops bytes                   what an independent UTF-8-mode ECMA-48 / xterm parser + interpreter
                                    (Encoder/VT.v, written from the standards) does with the bytes
     denote pal256 gray4 caps cmd   the short meaning of the command (Encoder/Denote.v)
     vt_complete bytes              the parser is back in its initial state after the bytes
     cmd_ok cmd                     the domain of the property: machine-integer ranges, byte-valued colour
                                    channels, titles without control characters, Char of any scalar value (controls:
                                    Denote.v decisions D8, D10)
     pal256 / gray4                 the palette index / grey level chosen for a colour under the reduced
                                    depths: any functions (which entry is chosen is property C20)

   FINAL STATE.  Counted (Theorem, 17): C05_meaning, C05_face_exact, C05_face_reduced, C05_facemodify_reduced,
   C05_selfcontained, C05_stream_after_complete_prefix, C05_stream_one_encoder, C05_failed_write_harmless,
   C05_parser_concat, C05_nopanic,
   C05_nopanic_with_reduction, C05_char_introducer_refuted_before_fix, C05_decmodes, and the composition with C01:
   C05_C01_bytes, C05_C01_list, C05_C01_history_bytes, C05_C01_history_final.  Audited, not counted (Example):
   C05_meaning_nonvacuous, C05_char_introducer_witnesses, C05_reduced_selfcontained_nonvacuous,
   C05_one_encoder_nonvacuous, C05_failed_write_nonvacuous, C05_refuted_before_fixes, C05_C01_nonvacuous.  Spec decisions D1-D10: Encoder/Denote.v.
   Defects fixed in the crate: dc2484b 99cef6a 79f9e06 bdc3281 3326eaa c4fb555 4d6dbe2 cdeff57 73d8d1c; none open. *)
From Coq Require Import List NArith ZArith Bool.
From SNT Require Import Base.Outcome Encoder.Decimal Encoder.Utf8 Encoder.Encode Encoder.EncodeStream Encoder.EncodeOrig Encoder.VT
  Encoder.VTProofs Encoder.Denote Encoder.EncodeProofs Encoder.EncodeMeaning Encoder.Color256 Encoder.EncodeC20 Encoder.Term.
From SNT Require Render.Cell Render.Screen Render.Frame Render.Spec Render.HistoryProofs Encoder.ScreenSem Encoder.ScreenSemProofs.
Import ListNotations.
Local Open Scope N_scope.

(* 1. MEANING: all commands, all parameter values in range, every capability set. *)
Theorem C05_meaning :
  forall (pal256 gray4 : rgba -> N), (forall c, pal256 c < 256) ->
  forall (cp : caps) (c : cmd), cmd_ok c = true ->
  exists bs, encode pal256 gray4 cp c = Ok bs /\ vt_ops bs = denote pal256 gray4 cp c.
Proof. exact c05_meaning_thm. Qed.

(* 2. FACE, true colour: from ANY prior rendition the terminal ends with exactly
      the face: its five flags, its underline style, its two colours (channel
      values unchanged), nothing else (no faint / invisible, default underline colour). *)
Theorem C05_face_exact :
  forall (pal256 gray4 : rgba -> N), (forall c, pal256 c < 256) ->
  forall (glyphs kitty : bool) (f : face), cmd_ok (Face f) = true ->
  exists bs t, encode pal256 gray4 (mkCaps TrueColor glyphs kitty) (Face f) = Ok bs /\
    vt_ops bs = [OSgr t] /\ t_bad t = false /\
    forall prior : rendition, rt_apply t prior = face_rendition f.
Proof. exact c05_face_exact_thm. Qed.

(* 3. REDUCED DEPTHS select one palette entry per colour, for every role.
      Face: foreground and background each become CIdx of ONE entry (pal256 c under
      EightBit, the system colour of the grey level under Gray) or stay default; the
      underline colour is the default one. *)
Theorem C05_face_reduced :
  forall (pal256 gray4 : rgba -> N), (forall c, pal256 c < 256) ->
  forall (cp : caps) (f : face), cmd_ok (Face f) = true -> cp_depth cp <> TrueColor ->
  exists bs t, encode pal256 gray4 cp (Face f) = Ok bs /\ vt_ops bs = [OSgr t] /\
    forall prior,
      r_fg (rt_apply t prior) = reduced_colour pal256 gray4 (cp_depth cp) (f_fg f) /\
      r_bg (rt_apply t prior) = reduced_colour pal256 gray4 (cp_depth cp) (f_bg f) /\
      r_ulc (rt_apply t prior) = CDefault.
Proof. exact c05_face_reduced_thm. Qed.

(*    FaceModify: every NAMED colour (fg, bg, underline) becomes one entry, an unnamed one is
      untouched (or reset); under Gray the underline colour is dropped -- the encoder sends
      nothing for it, which the specification records as "no grey rendering of an underline
      colour" (Denote.colour_of). *)
Theorem C05_facemodify_reduced :
  forall (pal256 gray4 : rgba -> N), (forall c, pal256 c < 256) ->
  forall (cp : caps) (m : facemod), cmd_ok (FaceModify m) = true -> cp_depth cp <> TrueColor ->
  exists bs, encode pal256 gray4 cp (FaceModify m) = Ok bs /\
    let t := fm_trans pal256 gray4 (cp_depth cp) m in
    let base := if fm_reset m then rt_reset else rt_id in
    let idx (c : option rgba) := option_map (fun c => CIdx (reduced_entry pal256 gray4 (cp_depth cp) c)) c in
    vt_ops bs = (if rtrans_is_id t then [] else [OSgr t]) /\
    t_fg t = over (idx (fm_fg m)) (t_fg base) /\
    t_bg t = over (idx (fm_bg m)) (t_bg base) /\
    t_ulc t = match cp_depth cp with Gray => t_ulc base | _ => over (idx (fm_ucolor m)) (t_ulc base) end.
Proof. exact c05_facemodify_reduced_thm. Qed.

(* 4. SELF-CONTAINED: after every command the parser is in its initial state ... *)
Theorem C05_selfcontained :
  forall (pal256 gray4 : rgba -> N), (forall c, pal256 c < 256) ->
  forall (cp : caps) (c : cmd), cmd_ok c = true -> is_raw c = false ->
  exists bs, encode pal256 gray4 cp c = Ok bs /\ vt_complete bs = true.
Proof. exact c05_selfcontained_thm. Qed.

(*    ... so a stream of commands parses back into the same operations whatever preceded
      it, PROVIDED what preceded is itself complete (vt_complete pre): after a dangling
      ESC / unterminated string no encoding could help. *)
Theorem C05_stream_after_complete_prefix :
  forall (pal256 gray4 : rgba -> N), (forall c, pal256 c < 256) ->
  forall (cp : caps) (cs : list cmd),
  forallb cmd_ok cs = true -> forallb (fun c => negb (is_raw c)) cs = true ->
  exists bs, encode_stream pal256 gray4 cp cs = Ok bs /\
    forall pre, vt_complete pre = true ->
      vt_ops (pre ++ bs) = vt_ops pre ++ flat_map (denote pal256 gray4 cp) cs.
Proof. exact c05_stream_thm. Qed.

(*    ONE ENCODER OBJECT.  NOTE: this theorem is about the MODEL and close to definitional -- the model
      of TTYEncoder carries no memo because the code has none (`chunks_clear s = []` mirrors
      `self.chunks.clear()`); what it contributes is the explicit statement that the encoder's output is
      a function of (caps, command) alone, from ANY scratch-buffer content, which the correspondence run
      (repeat streams through one real encoder) then tests against the code.  A memo added to the code
      is caught by that run, not by this theorem.
      encode_stream_st threads the only mutable state a TTYEncoder has (the
      scratch chunk buffer; no memo of what was sent before) through a list of commands.  From ANY
      state of that buffer the output is the concatenation of the self-contained per-command
      encodings; after any complete prefix it is read back as the commands' operations, and it
      takes the terminal (Encoder/Term.v: keyboard level per screen, DEC modes, rendition, margins,
      title, log of everything else) from ANY state t to the state the denotations lead to. *)
Theorem C05_stream_one_encoder :
  forall (pal256 gray4 : rgba -> N), (forall c, pal256 c < 256) ->
  forall (cp : caps) (cs : list cmd) (s : enc_state),
  forallb cmd_ok cs = true -> forallb (fun c => negb (is_raw c)) cs = true ->
  exists bs s',
    encode_stream_st pal256 gray4 cp s cs = Ok (bs, s') /\
    encode_stream pal256 gray4 cp cs = Ok bs /\
    forall pre, vt_complete pre = true ->
      vt_ops (pre ++ bs) = vt_ops pre ++ flat_map (denote pal256 gray4 cp) cs /\
      forall t : tstate,
        run_ops t (vt_ops (pre ++ bs)) = run_ops (run_ops t (vt_ops pre)) (flat_map (denote pal256 gray4 cp) cs).
Proof. exact c05_stream_one_encoder_thm. Qed.

(*    A FAILING WRITER.  encode_stw runs one call of `encode` on a writer that accepts k more bytes and
      then returns io errors (None = healthy): what reaches the output is the first k bytes of the
      command's encoding, the call returns Ok exactly when all of it fitted, and -- whatever the failed
      call left in the scratch buffer (an SGR arm that fails before its drain completed leaves its
      parameters there) -- every later command on the same object encodes as on a fresh encoder,
      because both SGR arms clear the buffer first (`self.chunks.clear()`, asserted by the translator). *)
Theorem C05_failed_write_harmless :
  forall (pal256 gray4 : rgba -> N) (cp : caps) (s : enc_state) (c : cmd) (b : budget),
  exists e ok s' b' bs,
    encode_stw pal256 gray4 cp s c b = Ok (e, ok, s', b') /\
    encode pal256 gray4 cp c = Ok bs /\
    e = delivered b bs /\ ok = accepts b (length bs) /\
    forall later : list cmd,
      exists out s'', encode_stream_st pal256 gray4 cp s' later = Ok (out, s'') /\
                      encode_stream pal256 gray4 cp later = Ok out.
Proof. exact c05_failed_write_harmless_thm. Qed.

(*    (the general fact behind it, about the parser alone) *)
Theorem C05_parser_concat :
  forall a b, vt_complete a = true -> vt_parse (a ++ b) = vt_parse a ++ vt_parse b.
Proof. exact vt_parse_app. Qed.

(* 5. NO PANIC: the model (checked arithmetic) has no failing path for ANY
      command value, in or out of the domain of the meaning theorem.  Here the palette
      index / grey level are PARAMETERS, so the reduced-depth code is not inside this
      statement; C05_nopanic_with_reduction below closes that. *)
Theorem C05_nopanic :
  forall (pal256 gray4 : rgba -> N) (cp : caps) (c : cmd), is_ok (encode pal256 gray4 cp c) = true.
Proof. exact encode_total. Qed.

(* 5a. NO PANIC with the colour reduction of C20 inside the model: encode_c20 runs the
       EightBit arm with explicit panic sites (CUBE[..], GREYS[..] indexing; nearest's
       `len - 1`), over the regenerated tables.  Not modelled: f32 evaluation
       (partial_cmp().unwrap() cannot fail on the finite values involved); the
       c20sweep run (every 3rd colour as an extra hook of this check, all 2^24 colours in C20's check)
       encodes the colours under every depth and reports a panic as a violation. *)
Theorem C05_nopanic_with_reduction :
  forall (cp : caps) (c : cmd), is_ok (encode_c20 cp c) = true.
Proof. exact encode_c20_total. Qed.

(* 5b. FIXED DEFECT (crate commit 73d8d1c): before the fix `Char(c)` for the seven characters that
       open a control sequence or string (ESC, and C1 DCS SOS CSI OSC PM APC) wrote the bare
       character: NOT self-contained, the parser was left inside an escape sequence.  (Since the
       fix they are written as U+FFFD and are inside C05_meaning: decision D10.) *)
Theorem C05_char_introducer_refuted_before_fix :
  forall c : N, char_introducer c = true ->
  exists bs, encode_orig (Char c) = Ok bs /\ vt_complete bs = false.
Proof. exact char_introducer_refuted_before_fix. Qed.

(* 6. the DEC mode numbers in the source (regenerated every run) are xterm's *)
Theorem C05_decmodes : forall m, decmode_code m = decmode_xterm m.
Proof. exact decmode_code_xterm. Qed.

Check C05_meaning :
  forall (pal256 gray4 : rgba -> N), (forall c, pal256 c < 256) ->
  forall (cp : caps) (c : cmd), cmd_ok c = true ->
  exists bs, encode pal256 gray4 cp c = Ok bs /\ vt_ops bs = denote pal256 gray4 cp c.
Check C05_nopanic :
  forall (pal256 gray4 : rgba -> N) (cp : caps) (c : cmd), is_ok (encode pal256 gray4 cp c) = true.

(* ---------- non-vacuity: the domain contains the extreme values ---------- *)
Example C05_meaning_nonvacuous :
  cmd_ok (CursorTo usize_max usize_max) = true /\
  cmd_ok (CursorMove i32_min i32_min) = true /\
  cmd_ok (Scroll i32_min) = true /\
  cmd_ok (ScrollRegion 0 usize_max) = true /\
  cmd_ok (Termcap [[97; 1]; [0]]) = true /\
  cmd_ok (Title [104; 233; 8364; 128512; 59]) = true /\
  cmd_ok (Face (mkFace (Some (mkRgba 1 2 3 0)) (Some (mkRgba 255 255 255 255)) 253)) = true /\
  cmd_ok (Color (TPalette usize_max) (Some (mkRgba 1 2 3 128))) = true /\
  encode (fun _ => 16) (fun _ => 0) (mkCaps TrueColor false true) (CursorMove i32_min 1)
    = Ok [27; 91; 49; 67; 27; 91; 50; 49; 52; 55; 52; 56; 51; 54; 52; 56; 65] /\
  denote (fun _ => 16) (fun _ => 0) (mkCaps TrueColor false true) (CursorMove i32_min 1)
    = [OCuf 1; OCuu 2147483648] /\
  vt_ops [27; 91; 48; 59; 51; 56; 59; 50; 59; 49; 59; 50; 59; 51; 59; 52; 58; 51; 59; 49; 109]
    = [OSgr (mkRT (Some IBold) (Some false) (Some LCurly) (Some false) (Some false) (Some false) (Some false)
                  (Some (CRgb 1 2 3)) (Some CDefault) (Some CDefault) false)].
Proof. vm_compute. repeat split; reflexivity. Qed.

(*     ... and swallowed what follows: Char(ESC) Char('c') was a full reset, Char(U+009B) Char('2')
      Char('J') erased the screen; now every scalar value is in the domain *)
Example C05_char_introducer_witnesses :
  vt_ops (utf8_list [27; 99]) = [ORis] /\
  vt_ops (utf8_list [155; 50; 74]) = [OEd 2] /\
  encode (fun _ => 16) (fun _ => 0) (mkCaps TrueColor false false) (Char 27) = Ok [239; 191; 189] /\
  denote (fun _ => 16) (fun _ => 0) (mkCaps TrueColor false false) (Char 155) = [OPrint 65533] /\
  cmd_ok (Char 27) = true /\ cmd_ok (Char 155) = true /\
  cmd_ok (Char 127) = true /\ cmd_ok (Char 133) = true /\ cmd_ok (Char 7) = true /\ cmd_ok (Char 156) = true /\
  cmd_ok (Termcap [[]]) = true /\ cmd_ok (Termcap []) = true.
Proof. vm_compute. repeat split; reflexivity. Qed.

(* non-vacuity of the reduced-depth and self-containedness theorems: their hypotheses are met by
   faces with both colours, by modifications naming all three colours, under both reduced depths *)
Example C05_reduced_selfcontained_nonvacuous :
  let f := mkFace (Some (mkRgba 1 2 3 255)) (Some (mkRgba 200 100 0 7)) 27 in
  let m := mkFM true (Some (mkRgba 1 2 3 255)) (Some (mkRgba 9 9 9 255)) (Some UDashed) (Some (mkRgba 4 5 6 255))
                (Some false) None (Some true) None in
  cmd_ok (Face f) = true /\ cmd_ok (FaceModify m) = true /\
  cp_depth (mkCaps EightBit false true) <> TrueColor /\ cp_depth (mkCaps Gray true false) <> TrueColor /\
  is_raw (Face f) = false /\ is_raw (Title [104; 105]) = false /\ cmd_ok (Title [104; 105]) = true /\
  reduced_colour (fun _ => 99) (fun _ => 2) EightBit (f_fg f) = CIdx 99 /\
  reduced_colour (fun _ => 99) (fun _ => 2) Gray (f_bg f) = CIdx 7 /\
  t_ulc (fm_trans (fun _ => 99) (fun _ => 2) Gray m) = Some CDefault /\
  t_ulc (fm_trans (fun _ => 99) (fun _ => 2) EightBit m) = Some (CIdx 99) /\
  vt_complete [27; 93; 48; 59; 104; 105; 27; 92] = true.
Proof. vm_compute. repeat split; try reflexivity; discriminate. Qed.

(* a repeated keyboard level after a reset must be sent again: the terminal forgot it *)
Example C05_one_encoder_nonvacuous :
  encode_stream_st (fun _ => 16) (fun _ => 0) (mkCaps TrueColor false true) [[49]] [KeyboardLevel 5; Reset; KeyboardLevel 5]
    = Ok ([27; 91; 61; 53; 117; 27; 99; 27; 91; 61; 53; 117], [[49]]) /\
  ts_kbd_main (run_ops ts_dirty1 (vt_ops [27; 91; 61; 53; 117; 27; 99; 27; 91; 61; 53; 117])) = [5] /\
  ts_kbd_main (run_ops ts_dirty1 (vt_ops [27; 91; 61; 53; 117; 27; 99])) = [] /\
  same_final_state (vt_ops [27; 91; 61; 53; 117; 27; 99]) (vt_ops [27; 91; 61; 53; 117; 27; 99; 27; 91; 61; 53; 117]) = false.
Proof. vm_compute. repeat split; reflexivity. Qed.

(* a Face whose write fails after 9 bytes leaves its parameters in the scratch buffer; the next
   (empty) modification still emits nothing and a bold-only modification only `ESC[1m` *)
Example C05_failed_write_nonvacuous :
  let cp := mkCaps TrueColor false false in
  let f := mkFace (Some (mkRgba 255 0 0 255)) None 24 in
  let empty := mkFM false None None None None None None None None in
  let bold := mkFM false None None None None (Some true) None None None in
  exists s',
    encode_stw (fun _ => 16) (fun _ => 0) cp [] (Face f) (Some 9%nat)
      = Ok ([27; 91; 48; 59; 51; 56; 59; 50; 59], false, s', Some 0%nat) /\ s' <> [] /\
    encode_stream_st (fun _ => 16) (fun _ => 0) cp s' [FaceModify empty; FaceModify bold] = Ok ([27; 91; 49; 109], []).
Proof. eexists. split; [vm_compute; reflexivity|]. split; [discriminate | vm_compute; reflexivity]. Qed.

(* ---------- the code before the `fix:` commits did NOT have the property ---------- *)
Example C05_refuted_before_fixes :
  (* CursorTo / ScrollRegion at usize::MAX, CursorMove / Scroll at i32::MIN: panic *)
  is_panic (encode_orig (CursorTo usize_max 0)) = true /\
  is_panic (encode_orig (ScrollRegion 0 usize_max)) = true /\
  is_panic (encode_orig (CursorMove i32_min 0)) = true /\
  is_panic (encode_orig (Scroll i32_min)) = true /\
  (* a capability-name byte below 0x10 printed as one hex digit: a different request *)
  (exists bs, encode_orig (Termcap [[97; 1]; [67; 111]]) = Ok bs /\
     vt_ops bs <> [OXtgettcap [[97; 1]; [67; 111]]]) /\
  (* EraseChars(0) erased one character *)
  (exists bs, encode_orig (EraseChars 0) = Ok bs /\ vt_ops bs = [OEch 1]) /\
  (* a translucent colour was sent as #rrggbbaa, not an X colour specification *)
  (exists bs, encode_orig (Color (TPalette 1) (Some (mkRgba 1 2 3 128))) = Ok bs /\
     vt_ops bs = [OPalette 1 CsBad]) /\
  (* bold off was SGR 21: double underline *)
  (exists bs, encode_orig (FaceModify (mkFM false None None None None (Some false) None None None)) = Ok bs /\
     vt_ops bs = [OSgr (mkRT None None (Some LDouble) None None None None None None None false)]).
Proof.
  repeat split; try (vm_compute; reflexivity).
  - eexists. split; [reflexivity|]. vm_compute. discriminate.
  - eexists. split; [reflexivity|]. vm_compute. reflexivity.
  - eexists. split; [reflexivity|]. vm_compute. reflexivity.
  - eexists. split; [reflexivity|]. vm_compute. reflexivity.
Qed.

(* ====================================================================================== *)
(* C05 o C01                                                                              *)
(* ====================================================================================== *)
(* C05 o C01 section — the BYTES of the renderer's commands, read by the independent VT/xterm interpreter
   and run on C01's reference screen, leave the screen C01's theorems promise.  Statements only;
   proofs in Encoder/ScreenSemProofs.v.  Nothing in either development's own files changes.

   Vocabulary
     o                      C01's oracle (cw = wcwidth, fspace / ferase = look of blank / erased cells, ..)
     fval id / fid r        the Face value the renderer sends for face id / the id of a rendition
     apply_op, interp_bytes Encoder/ScreenSem.v: xterm meaning of the VT operations on C01's screen
     interp_cmd s c         run the bytes `encode caps (to_cmd c)` on screen s (image commands: C01's
                            placement semantics, their protocols are C11 / C12)
     cmd_valid c            static validity: the face of CFace is a well-formed Face whose id round
                            trips through fid, the character of CChar is printable
     exec, exec_list, show, same_display, frame, run   C01 (Render/Screen.v, Frame.v, HistoryProofs.v)

   Scope: true colour (cp_depth caps = TrueColor); under reduced depths the pen would be the
   face "up to the palette function" -- not stated here.
   What stays an ASSUMPTION shared with C01's reference terminal: the cell-writing primitives
   (put_char: a wide character takes two cells, overwriting a half orphans the other; erase_cells),
   the oracle, and the image placement model.  What is PROVED here: the bytes select these
   primitives with the right cursor position (CUP off by one, clamped), pen (the SGR sequence sets
   exactly the face from any prior rendition), character, erase count (ECH does not move the
   cursor, erases in the erase rendition of the pen), and synchronized-output brackets are
   invisible. *)

Section C05_C01.
Import Render.Cell Render.Screen Render.Frame Render.Spec Render.HistoryProofs Encoder.ScreenSem Encoder.ScreenSemProofs.
Local Close Scope N_scope.

(* 1. PER COMMAND: every renderer command that the reference terminal accepts on screen s (no
      protocol error) -- CFace, CCursorTo, CChar, CEraseChars, CSync; CImage / CImageErase by
      definition -- has bytes that do to s exactly what the command does *)
Theorem C05_C01_bytes :
  forall (o : oracle) (fval : N -> Encode.face) (fid : rendition -> N) (pal256 gray4 : rgba -> N),
  (forall c, (pal256 c < 256)%N) ->
  forall cp : caps, cp_depth cp = TrueColor ->
  forall (s : screen) (c : Screen.cmd),
  cmd_valid fval fid c = true -> err (exec o s c) = false ->
  interp_cmd o fval fid pal256 gray4 cp s c = exec o s c.
Proof. exact refine_cmd. Qed.

(* 2. COMMAND LISTS *)
Theorem C05_C01_list :
  forall (o : oracle) (fval : N -> Encode.face) (fid : rendition -> N) (pal256 gray4 : rgba -> N),
  (forall c, (pal256 c < 256)%N) ->
  forall cp : caps, cp_depth cp = TrueColor ->
  forall (l : list Screen.cmd) (s : screen),
  forallb (cmd_valid fval fid) l = true -> err (exec_list o s l) = false ->
  interp_list o fval fid pal256 gray4 cp s l = exec_list o s l.
Proof. exact refine_list. Qed.

(* 3. HISTORIES: the terminal side of any history, played through the bytes, is the terminal side
      played through the commands, whenever the latter ends without protocol error *)
Theorem C05_C01_history_bytes :
  forall (o : oracle) (fval : N -> Encode.face) (fid : rendition -> N) (pal256 gray4 : rgba -> N),
  (forall c, (pal256 c < 256)%N) ->
  forall cp : caps, cp_depth cp = TrueColor ->
  forall (ops : list Frame.op) (impl : list (list Screen.cmd)) (scr : screen),
  forallb (forallb (cmd_valid fval fid)) impl = true ->
  err (play (exec_list o) scr ops impl) = false ->
  play (interp_list o fval fid pal256 gray4 cp) scr ops impl = play (exec_list o) scr ops impl.
Proof. exact refine_play. Qed.

(* 4. COROLLARY of C01_history_final: for every history that ends in a frame of S, the screen
      obtained by INTERPRETING THE BYTES of everything the renderer issued displays show(S) *)
Theorem C05_C01_history_final :
  forall (o : oracle) (fval : N -> Encode.face) (fid : rendition -> N) (pal256 gray4 : rgba -> N),
  (forall c, (pal256 c < 256)%N) ->
  forall cp : caps, cp_depth cp = TrueColor ->
  forall h w ops s,
  oracle_ok o -> good_ops o h w ops ->
  good_surface o (fst (size_after h w ops)) (snd (size_after h w ops)) s ->
  let all_ops := ops ++ [Draw s; Frame] in
  forallb (forallb (cmd_valid fval fid)) (rrun o (rnew h w false) all_ops) = true ->
  same_display (play (interp_list o fval fid pal256 gray4 cp) (blank_screen h w) all_ops
                     (rrun o (rnew h w false) all_ops))
               (show o (fst (size_after h w ops)) (snd (size_after h w ops)) s) = true.
Proof. exact c05_c01_history_final. Qed.

(* non-vacuity: a concrete terminal (1 x 5), two faces, a wide character (U+4E16), a long blank run:
   the renderer's commands are valid, contain CFace / CCursorTo / CChar / CEraseChars, the reference
   terminal accepts them, and the screen reached through the BYTES displays show(S) *)
Definition ex_o : oracle :=
  mkoracle (fun ch => if N.eqb ch 19990%N then 2 else 1) (fun _ => (1, 1)) (fun _ _ => 0%N)
           (fun f => f) (fun f => f) (fun _ => true).
Definition ex_fval (id : N) : Encode.face :=
  if N.eqb id 1%N then mkFace (Some (mkRgba 200 30 30 255)) None 8%N else mkFace None None 0%N.
Definition ex_fid (r : rendition) : N :=
  if Term.rendition_eq_dec r (face_rendition (ex_fval 1%N)) then 1%N else 0%N.
Definition ex_surface1 : grid cell :=
  [[mkcell 1%N (KChar 97%N); mkcell 0%N (KChar 19990%N); cell_default; mkcell 1%N (KChar 98%N); cell_default]].
Definition ex_surface2 : grid cell :=
  [[cell_default; cell_default; cell_default; cell_default; cell_default]].
Definition ex_history : list Frame.op := [Draw ex_surface1; Frame; Draw ex_surface2; Frame].
Definition ex_caps : caps := mkCaps TrueColor false false.

Example C05_C01_nonvacuous :
  let impl := rrun ex_o (rnew 1 5 false) ex_history in
  forallb (forallb (cmd_valid ex_fval ex_fid)) impl = true /\
  existsb (fun c => match c with CEraseChars _ => true | _ => false end) (concat impl) = true /\
  existsb (fun c => match c with CChar 19990%N => true | _ => false end) (concat impl) = true /\
  err (play (exec_list ex_o) (blank_screen 1 5) ex_history impl) = false /\
  same_display (play (interp_list ex_o ex_fval ex_fid (fun _ => 16%N) (fun _ => 0%N) ex_caps) (blank_screen 1 5) ex_history impl)
               (show ex_o 1 5 ex_surface2) = true /\
  same_display (interp_list ex_o ex_fval ex_fid (fun _ => 16%N) (fun _ => 0%N) ex_caps (blank_screen 1 5)
                            (nth 1 impl []))
               (show ex_o 1 5 ex_surface1) = true.
Proof. vm_compute. repeat split; reflexivity. Qed.

End C05_C01.
