(* C03 — decoded events do not depend on read boundaries and follow
   leftmost-longest rules.  Statements only; each is closed by a lemma proved in
   Automata/Tokenizer{Run,Munch,Theorems}.v, Decoder/EventsTheorems.v or Decoder/PollLoop.v.

   Counted (6 Theorems here, 2 in Props/C03Prod.v): C03_chunking, C03_munch, C03_fuel,
   C03_prod_terminal, C03_public_wrappers, C03_poll_loop; C03_prod_language_event/_command.
   Audited but not counted: Lemmas about the specification alone (C03_no_loss, C03_munch_unfold,
   C03_first_stop, C03_longest_acc, C03_longest, C03_raw_span, C03_accepted_span), the instance
   C03_prod, the stated limit C03_poll_loop_handler_error, and the Examples.

   Every theorem of the first part is generic: it holds for EVERY automaton
   (state type Q, start q0, partial transition function delta, flags accepting /
   terminal — nothing is assumed about them) and EVERY payload decoder
   decode_item, every input, every partition into reads (empty reads allowed).
   The second part instantiates them at the production automata regenerated from
   src/decoder.rs on every run (Gen/ProdDFA.v), at the public wrappers and at the read
   loop of UnixTerminal::poll.  Readings of the property are listed in design/C03.md. *)
From Coq Require Import List NArith Arith Bool.
From SNT Require Import Base.Outcome Automata.DfaData Automata.DfaDataProofs
  Automata.Tokenizer Automata.TokenizerRun Automata.TokenizerMunch Automata.TokenizerTheorems
  Gen.ProdDFA Decoder.Payload Decoder.Events Decoder.EventsProofs Decoder.EventsTheorems
  Decoder.PollLoop.
Import ListNotations.

Section Generic.
  Variables Q Item : Type.
  Variable q0 : Q.
  Variable delta : Q -> N -> option Q.
  Variables accepting terminal : Q -> bool.
  Variable decode_item : Q -> list N -> option Item.

  Notation st := (st Q Item).
  Notation run := (run Q q0 delta).
  Notation dead_at := (dead_at Q q0 delta).
  Notation acc_at := (acc_at Q q0 delta accepting).
  Notation stop_at := (stop_at Q q0 delta accepting terminal).
  Notation first_stop := (first_stop Q q0 delta accepting terminal).
  Notation longest_acc := (longest_acc Q q0 delta accepting).
  Notation munch1 := (munch1 Q Item q0 delta accepting terminal decode_item).
  Notation munch := (munch Q Item q0 delta accepting terminal decode_item).
  Notation best := (best Q Item q0 delta accepting decode_item).
  Notation decode_into := (decode_into Q Item q0 delta accepting terminal decode_item).
  Notation feed := (feed Q Item q0 delta accepting terminal decode_item).

  (* Chunking independence, from ANY state the decoder can be in between two reads
     (rescheduled stack empty; buffer, automaton state and candidate arbitrary): one
     decode_into per read and one decode_into on the concatenation return the same items
     and leave the decoder in the same state. *)
  Theorem C03_chunking : forall (chunks : list (list N)) (s : st) (fuel : nat),
    sres s = [] ->
    (fuel_for s (length (concat chunks)) <= fuel)%nat ->
    exists ts s',
      feed fuel s chunks = Ok (ts, s') /\
      decode_into fuel s (concat chunks) = Ok (ts, s', []).
  Proof. exact (chunking Q Item q0 delta accepting terminal decode_item). Qed.

  (* ... and what they return is the leftmost-longest tokenisation of the stream: the items
     are `munch`'s tokens, the bytes still buffered are `munch`'s pending remainder, and the
     rest of the state (automaton state, candidate) is the function of those bytes that a
     fresh decoder would have computed. *)
  Theorem C03_munch : forall (chunks : list (list N)) (fuel : nat),
    (length (concat chunks) + 3 <= fuel)%nat ->
    exists s',
      feed fuel (init q0) chunks = Ok (fst (munch (concat chunks)), s') /\
      sbuf s' = snd (munch (concat chunks)) /\
      sres s' = [] /\ run (sbuf s') = Some (sq s') /\ scand s' = best (sbuf s').
  Proof. exact (feed_munch Q Item q0 delta accepting terminal decode_item). Qed.

  (* termination: the loops of decode / decode_into never exhaust the stated fuel, the reader
     is drained completely and nothing stays on the rescheduled stack *)
  Theorem C03_fuel : forall (s : st) (input : list N) (fuel : nat),
    (fuel_for s (length input) <= fuel)%nat ->
    exists ts s', decode_into fuel s input = Ok (ts, s', []) /\ sres s' = [].
  Proof.
    intros s input fuel H.
    destruct (fuel_enough Q Item q0 delta accepting terminal decode_item s input fuel H) as (ts & s' & A & B & _).
    exists ts, s'. split; assumption.
  Qed.

  (* none lost, duplicated or reordered *)
  Lemma C03_no_loss : forall s : list N,
    concat (map span (fst (munch s))) ++ snd (munch s) = s /\
    Forall (fun t => span t <> []) (fst (munch s)).
  Proof.
    intros s. split.
    - exact (munch_concat Q Item q0 delta accepting terminal decode_item s).
    - exact (Munch_spans_nonempty Q Item q0 delta accepting terminal decode_item _ _ _
               (munch_Munch Q Item q0 delta accepting terminal decode_item s)).
  Qed.

  (* what `munch` is: its defining equation (no fuel) and the meaning of its two searches *)
  Lemma C03_munch_unfold : forall s : list N,
    munch s =
    match munch1 s with
    | None => ([], s)
    | Some (t, k) => let '(ts, p) := munch (skipn k s) in (t :: ts, p)
    end.
  Proof. exact (munch_unfold Q Item q0 delta accepting terminal decode_item). Qed.

  Lemma C03_first_stop : forall (s : list N) (n : nat),
    first_stop s = Some n <->
    (1 <= n <= length s)%nat /\ stop_at s n = true /\ forall k, (1 <= k < n)%nat -> stop_at s k = false.
  Proof. exact (first_stop_some Q q0 delta accepting terminal). Qed.

  Lemma C03_longest_acc : forall (s : list N) (m k : nat),
    longest_acc s m = Some k <->
    (1 <= k <= m)%nat /\ acc_at s k = true /\ forall j, (k < j <= m)%nat -> acc_at s j = false.
  Proof. intros s m k. exact (longest_acc_some Q q0 delta accepting s m k). Qed.

  (* leftmost-LONGEST proper: when `terminal` states have no successor (checked for the
     production automata below), an item token is the longest recognised prefix of the whole
     remaining stream, and a raw token means no prefix of it is a recognised sequence *)
  Lemma C03_longest :
    (forall q b, terminal q = true -> delta q b = None) ->
    forall (s : list N) t k, munch1 s = Some (t, k) ->
      (acc_at s k = true -> forall j, (k < j <= length s)%nat -> acc_at s j = false) /\
      (acc_at s k = false -> forall j, (1 <= j <= length s)%nat -> acc_at s j = false).
  Proof.
    intros Ht s t k H. split.
    - exact (munch1_is_longest Q Item q0 delta accepting terminal decode_item Ht s t k H).
    - exact (munch1_raw_no_match Q Item q0 delta accepting terminal decode_item s t k H).
  Qed.

  (* what a raw token is, stated without the code's buffer logic: when no prefix of the remaining
     stream is accepted, the raw token is its LONGEST LIVE PREFIX (every proper extension is dead),
     or its first byte alone when no recognised sequence starts with that byte.  Bytes inside such a
     dead prefix are not re-tokenised: `ESC [ 1 A` on the command automaton is Raw(ESC [ 1) then `A`. *)
  Lemma C03_raw_span : forall (s : list N) t k,
    munch1 s = Some (t, k) -> acc_at s k = false ->
    t = TRaw (firstn k s) /\
    ((dead_at s k = false /\ dead_at s (S k) = true) \/ (k = 1%nat /\ dead_at s 1 = true)).
  Proof. exact (munch1_raw_span Q Item q0 delta accepting terminal decode_item). Qed.

  (* "recognised" means accepted by the automaton.  The longest accepted prefix is emitted as the item
     its payload decoder makes of it; when the decoder rejects the bytes (decode_item = None) the SAME
     span surfaces as one raw token and a shorter complete sequence is not reconsidered
     (`ESC [ 0 ; 0 R` is Raw(ESC[0;0R), not alt+[ followed by `0;0R`). *)
  Lemma C03_accepted_span : forall (s : list N) t k,
    munch1 s = Some (t, k) -> acc_at s k = true ->
    exists q, run (firstn k s) = Some q /\ accepting q = true /\
      match decode_item q (firstn k s) with
      | Some i => t = TItem i (firstn k s)
      | None => t = TRaw (firstn k s)
      end.
  Proof. exact (munch1_accepted Q Item q0 delta accepting terminal decode_item). Qed.
End Generic.

(* ------------------------------------------------------------------------- *)
(* the production automata, as regenerated from the source for this run *)

Section Prod.
  Variable Item : Type.
  Variable decode_item : N -> list N -> option Item.
  Variable d : dfa.
  Hypothesis d_is_prod : d = event_dfa \/ d = command_dfa.

  Notation pmunch := (munch N Item (d_start d) (d_delta d) (d_accepting d) (d_terminal d) decode_item).
  Notation pfeed := (feed N Item (d_start d) (d_delta d) (d_accepting d) (d_terminal d) decode_item).

  Lemma C03_prod : forall (chunks : list (list N)) (fuel : nat),
    (length (concat chunks) + 3 <= fuel)%nat ->
    exists s',
      pfeed fuel (init (d_start d)) chunks = Ok (fst (pmunch (concat chunks)), s') /\
      sbuf s' = snd (pmunch (concat chunks)) /\ sres s' = [].
  Proof.
    intros chunks fuel H.
    destruct (feed_munch N Item (d_start d) (d_delta d) (d_accepting d) (d_terminal d) decode_item chunks fuel H)
      as (s' & A & B & C & _).
    exists s'. repeat split; assumption.
  Qed.

  (* is_terminal = "no outgoing edge" in both tables, hence C03_longest applies to them *)
  Theorem C03_prod_terminal : forall q b, d_terminal d q = true -> d_delta d q b = None.
  Proof.
    destruct d_is_prod as [-> | ->]; apply terminal_ok_sound; vm_compute; reflexivity.
  Qed.
End Prod.

(* the public wrappers: TTYEventDecoder / TTYCommandDecoder = the tokeniser plus the Raw wrapper
   (an EMPTY reject would make `decode` return None and end the caller's loop early; raw spans are
   never empty, so the wrapper is transparent) with the trait's default decode_into: for any
   automaton, matcher list and tables, every partition into reads yields `munch` of the whole stream *)
Theorem C03_public_wrappers : forall (d : dfa) (ids : list N) (tb : dtabs) (chunks : list (list N)) (fuel : nat),
  (length (concat chunks) + 3 <= fuel)%nat ->
  exists s',
    tty_feed d (payload_at ids tb) fuel (t_init d) chunks
      = Ok (fst (t_munch d (payload_at ids tb) (concat chunks)), s').
Proof.
  intros d ids tb chunks fuel H. rewrite (tty_feed_eq d ids tb fuel chunks (t_init d) I).
  destruct (feed_munch N pitem (d_start d) (d_delta d) (d_accepting d) (d_terminal d)
              (item_of (payload_at ids tb) d) chunks fuel H) as (s' & A & _).
  exists s'. exact A.
Qed.

(* the read loop of UnixTerminal::poll (src/unix.rs; model Decoder/PollLoop.v): one tty read per
   chunk, `decode` until None, every event through the image handler.  As long as the handler does
   not fail on the events of the stream, what reaches the event queue over ANY sequence of reads is
   the delivery, in order, of the leftmost-longest tokens of the whole stream: nothing is lost,
   duplicated or reordered by the read boundaries. *)
Theorem C03_poll_loop : forall (d : dfa) (ids : list N) (tb : dtabs)
    (pre : tok pitem -> list (tok pitem)) (handle : tok pitem -> option bool)
    (chunks : list (list N)) (fuel : nat),
  (length (concat chunks) + 3 <= fuel)%nat ->
  forall evs,
    deliver_all pre handle (fst (t_munch d (payload_at ids tb) (concat chunks))) = Some evs ->
    exists s', poll_feed d (payload_at ids tb) pre handle fuel (t_init d) chunks [] = Ok (s', evs).
Proof.
  intros d ids tb pre handle chunks fuel Hf evs He.
  destruct (C03_public_wrappers d ids tb chunks fuel Hf) as (s' & HF).
  exists s'. exact (poll_feed_spec d (payload_at ids tb) pre handle fuel chunks _ [] _ _ HF evs He).
Qed.

(* the limit of that guarantee: `handle(..)?` — the first event on which the handler returns an error
   ends poll with that error, and the events the decoder would still produce from the rest of the read
   buffer are not delivered (the bytes were taken from the tty and live only in poll's stack buffer).
   The handlers of the crate write to the in-memory write queue only and do not fail. *)
Lemma C03_poll_loop_handler_error : forall (d : dfa) (ids : list N) (tb : dtabs)
    (pre : tok pitem -> list (tok pitem)) (handle : tok pitem -> option bool)
    fuel s buf queue ts s' rest,
  tty_decode_into d (payload_at ids tb) fuel s buf = Ok (ts, s', rest) ->
  deliver_all pre handle ts = None ->
  poll_read d (payload_at ids tb) pre handle fuel s buf queue = Err site_handler.
Proof. intros d ids tb pre handle. exact (poll_read_handler_error d (payload_at ids tb) pre handle). Qed.

(* ------------------------------------------------------------------------- *)
Check C03_chunking : forall Q Item q0 delta accepting terminal decode_item
  (chunks : list (list N)) (s : st Q Item) (fuel : nat),
  sres s = [] -> (fuel_for s (length (concat chunks)) <= fuel)%nat ->
  exists ts s',
    feed Q Item q0 delta accepting terminal decode_item fuel s chunks = Ok (ts, s') /\
    decode_into Q Item q0 delta accepting terminal decode_item fuel s (concat chunks) = Ok (ts, s', []).
Check C03_munch : forall Q Item q0 delta accepting terminal decode_item (chunks : list (list N)) (fuel : nat),
  (length (concat chunks) + 3 <= fuel)%nat ->
  exists s',
    feed Q Item q0 delta accepting terminal decode_item fuel (init q0) chunks
      = Ok (fst (munch Q Item q0 delta accepting terminal decode_item (concat chunks)), s') /\
    sbuf s' = snd (munch Q Item q0 delta accepting terminal decode_item (concat chunks)) /\
    sres s' = [] /\ run Q q0 delta (sbuf s') = Some (sq s') /\
    scand s' = best Q Item q0 delta accepting decode_item (sbuf s').
Check C03_prod_terminal : forall d, d = event_dfa \/ d = command_dfa ->
  forall q b, d_terminal d q = true -> d_delta d q b = None.

(* ------------------------------------------------------------------------- *)
(* non-vacuity, on the production event automaton (items rendered as the accepting state) *)
Local Open Scope N_scope.
Definition ex_item (q : N) (_ : list N) : option N := Some q.
Definition ex_feed := feed N N (d_start event_dfa) (d_delta event_dfa) (d_accepting event_dfa) (d_terminal event_dfa) ex_item.
Definition ex_munch := munch N N (d_start event_dfa) (d_delta event_dfa) (d_accepting event_dfa) (d_terminal event_dfa) ex_item.
Definition spans (r : outcome (list (tok N) * st N N)) : list (list N) :=
  match r with Ok (ts, _) => map span ts | _ => [] end.

(* C03_chunking from a state in the middle of a sequence: after the read `ESC [` (buffer ESC [, candidate
   alt+[), the reads `1`, `;5`, `` and `R` give what the single read `1;5R` gives *)
Example C03_chunking_nonvacuous :
  match ex_feed 10%nat (init 0) [[27; 91]] with
  | Ok (_, s) =>
      sres s = [] /\ sbuf s = [27; 91] /\ Nat.leb (fuel_for s (length (concat [[49]; [59; 53]; []; [82]]))) 20 = true /\
      spans (ex_feed 20%nat s [[49]; [59; 53]; []; [82]]) = [[27; 91; 49; 59; 53; 82]] /\
      spans (ex_feed 20%nat s [[49; 59; 53; 82]]) = [[27; 91; 49; 59; 53; 82]]
  | _ => False
  end.
Proof. vm_compute. repeat split; reflexivity. Qed.

(* C03_poll_loop with a handler that passes every event on and a loop that adds nothing: the queue after
   the reads `ESC O` and `T` is the two events of the stream *)
Example C03_poll_loop_nonvacuous :
  let payload := payload_at event_matcher_ids (mk_dtabs decmode_codes decstatus_codes dec_cube dec_greys dec_colors) in
  deliver_all (fun _ => []) (fun _ => Some false) (fst (t_munch event_dfa payload [27; 79; 84]))
    = Some (fst (t_munch event_dfa payload [27; 79; 84])) /\
  match poll_feed event_dfa payload (fun _ => []) (fun _ => Some false) 10 (t_init event_dfa) [[27; 79]; [84]] [] with
  | Ok (_, q) => map span q = [[27; 79]; [84]]
  | _ => False
  end.
Proof. vm_compute. split; reflexivity. Qed.

(* the crate's test_reschedule stream `ESC O T`, cut after `ESC O`: the longer candidates
   (ESC O P ...) fail on `T`, the longest complete one (ESC O = alt+shift+o) is emitted and `T`
   is interpreted afresh *)
Example C03_reschedule_example :
  spans (ex_feed 10%nat (init 0) [[27; 79]; [84]]) = [[27; 79]; [84]] /\
  spans (ex_feed 10%nat (init 0) [[27]; []; [79; 84]]) = [[27; 79]; [84]] /\
  map span (fst (ex_munch [27; 79; 84])) = [[27; 79]; [84]] /\
  snd (ex_munch [27; 79; 84]) = [].
Proof. vm_compute. repeat split; reflexivity. Qed.

(* `ESC [ 1 ; 5` is a live prefix of several sequences: nothing is emitted, all is pending;
   followed by `x` the longest complete prefix `ESC [` (alt+[) is emitted and `1;5x` re-read *)
Example C03_pending_example :
  fst (ex_munch [27; 91; 49; 59; 53]) = [] /\ snd (ex_munch [27; 91; 49; 59; 53]) = [27; 91; 49; 59; 53] /\
  map span (fst (ex_munch [27; 91; 49; 59; 53; 120])) = [[27; 91]; [49]; [59]; [53]; [120]].
Proof. vm_compute. repeat split; reflexivity. Qed.

(* raw fallback: a byte no sequence starts with is its own raw token; a dead multi-byte
   prefix is emitted without the killing byte *)
Example C03_raw_example :
  fst (ex_munch [128; 65]) = [TRaw [128]; TItem 2 [65]] \/ map span (fst (ex_munch [128; 65])) = [[128]; [65]].
Proof. right. vm_compute. reflexivity. Qed.
Example C03_raw_example2 :
  map span (fst (ex_munch [226; 130; 65])) = [[226; 130]; [65]] /\
  match fst (ex_munch [226; 130; 65]) with TRaw _ :: _ => True | _ => False end.
Proof. vm_compute. split; [reflexivity|exact I]. Qed.
