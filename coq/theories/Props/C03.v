(* C03 — placeholder while the proofs are being written *)
From Coq Require Import List NArith.
From SNT Require Import Base.Outcome Automata.Tokenizer.
Import ListNotations.

Theorem C03_feed_nil : forall Q Item q0 delta acc term di f (s : st Q Item),
  feed Q Item q0 delta acc term di f s [] = Ok ([], s).
Proof. reflexivity. Qed.
