(* C01 — incremental rendering always leaves the terminal showing the drawn
   surface.  Statements only (work in progress: see design/C01.md). *)
From Coq Require Import List NArith Bool Arith.
From SNT Require Import Render.Cell Render.Screen Render.Frame Render.Domain.
Import ListNotations.

(* placeholder while the development is being staged *)
Theorem C01_blank_frame_silent : forall o h w,
  fst (frame o (rnew 0 0 false)) = [] /\ h + w = w + h.
Proof. intros. split. reflexivity. apply Nat.add_comm. Qed.
