(* C01 — incremental rendering always leaves the terminal showing the drawn
   surface.  Statements only; proofs in Render/*Proofs.v.

   Vocabulary (Render/Cell.v, Screen.v, Frame.v, Domain.v, Spec.v):
     oracle        character widths, image sizes in cells, glyph -> image (external behaviour)
     rnew/rdraw/frame/rclear/rskip, op, rstep, rrun   the model of TerminalRenderer
     exec, blank_screen                                the reference terminal
     show o h w S                                      the screen a naive painter leaves for S on a blank terminal
     same_display a b                                  same cells (character, face), same placements, no error
     display_upto E a b                                the same, but a may place the placements E besides b's
     spec_run                                          "after every Frame the screen displays show(drawn surface)"
     resume_run                                        the same, suspended from the Frame of an overlapping surface to the
                                                       next Clear / Renew / Resize
     loop_model, loop_spec (Render/Loop.v)             the render loop of run_render with its output queue
     good_surface = in_domain /\ no_image_overlap      the domain of the property minus the known classes OverlapImages, OverlapWideImage
   Assumption on the oracle ([oracle_ok]): a space is one column wide, a blank in the default face is
   what an untouched terminal cell shows, and the faces the renderer erases with EraseChars
   ([erasable]) are faces whose erased cells look like printed spaces.

   Counted theorems (16): C01_show_is_denotation, C01_show_no_orphan, C01_history (main),
   C01_history_final, C01_history_resumes, C01_scratch, C01_forced, C01_forced_history, C01_clear_then_frame,
   C01_idle_frame, C01_render_loop, C01_render_loop_exact; witnesses of the known classes:
   C01_overlap_images_refuted, C01_overlap_wide_image_refuted, C01_overlap_wide_image_no_picture,
   C01_dropped_image_erase_refuted.  Outside the theorems, inside the correspondence run: aborted
   frames (op FailFrame: frame() returned Err).  Not counted: Lemmas den_not_orphan, ex_oracle_ok, ex_good and
   nine [_nonvacuous] Examples (one per theorem with hypotheses).
   Spec decision: clear(), a new renderer and a resize reset the surface being drawn. *)
From Coq Require Import List NArith Bool Arith.
From SNT Require Import Render.Cell Render.Screen Render.Frame Render.Domain Render.Spec
  Render.GridLemmas Render.ExecProofs Render.Den Render.ShowProofs Render.HistoryProofs Render.ResumeProofs Render.Loop Render.LoopProofs
  Render.IdleProofs.
Import ListNotations.

(* what [show] means, cell by cell: under an image a blank in the image's face, behind a wide
   character its right half, otherwise the cell's own character; placements = the image cells *)
Theorem C01_show_is_denotation : forall o h w s,
  oracle_ok o -> good_surface o h w s ->
  let sc := show o h w s in
  err sc = false
  /\ (forall r c, r < h -> c < w ->
        gget (sgrid sc) r c = Some (den o h w (gmap (resolve o) s) r c))
  /\ (forall i r c, In (i, r, c) (places sc) <->
        exists x, gget (gmap (resolve o) s) r c = Some x /\ ckind x = KImg i).
Proof.
  intros o h w s (Hsp & _ & Hlaw) [Hd Ho]. cbv zeta.
  assert (Hdims : gdims s h w).
  { unfold in_domain in Hd. apply andb_true_iff in Hd. apply grid_dims_true. tauto. }
  destruct (show_den o h w s Hsp Hlaw Hdims (DomainProofs.good_of_bool o h w s Hd Ho)) as (H1 & H2 & H3).
  split; [apply H1|]. split; assumption.
Qed.

(* consequence: the picture of a surface of the domain never contains a split wide character
   ([Orphan]: what the reference terminal leaves of a wide character one half of which was
   overwritten) - every wide character that is shown is shown whole *)
Lemma den_not_orphan : forall o h w s r c, fst (den o h w s r c) <> Orphan.
Proof.
  intros o h w s r c. unfold den.
  destruct (cover_img o h w s r c) as [[r0 c0]|].
  - destruct (img_at s r0 c0) as [[f i]|]; simpl; discriminate.
  - destruct (left_wide o s r c); [simpl; discriminate|].
    unfold own_glyph. destruct (gget s r c) as [x|]; [|simpl; discriminate].
    destruct (ckind x) as [ch|i|g]; try (simpl; discriminate).
    destruct (cw o ch =? 2); [simpl; discriminate|]. unfold cell_of.
    destruct (N.eqb ch space); simpl; discriminate.
Qed.

Theorem C01_show_no_orphan : forall o h w s r c f,
  oracle_ok o -> good_surface o h w s -> r < h -> c < w ->
  gget (sgrid (show o h w s)) r c <> Some (Orphan, f).
Proof.
  intros o h w s r c f Hok Hs Hr Hc H.
  destruct (C01_show_is_denotation o h w s Hok Hs) as (_ & Hg & _).
  rewrite (Hg r c Hr Hc) in H. inversion H as [Hd].
  apply (den_not_orphan o h w (gmap (resolve o) s) r c). rewrite Hd. reflexivity.
Qed.

(* MAIN: every finite history over Draw | Frame | SkipFrame | Clear | Renew | Resize, from a fresh
   renderer on a blank terminal that executes exactly the issued commands (a Resize replaces the
   terminal's cells by an arbitrary screen of the new size): after every Frame the terminal displays
   show(S) for the surface S drawn for that frame, and no command is a protocol error.  clear(), a new
   renderer and a resize RESET the surface (API contract of TerminalRenderer::clear): S is what was
   drawn since the last Frame / SkipFrame / Clear / Renew / Resize, so [Draw S; Clear; Frame] must show
   the blank surface, not S.  (The guarantee "a forced clear never loses a drawing" is therefore not a
   statement about histories; it is carried by the order in which run_render calls frames_drop,
   clear() and the handler, and is judged by C01_render_loop.)  [good_ops]: every drawn surface is
   good for the size the terminal has at that moment. *)
Theorem C01_history : forall o h w ops,
  oracle_ok o -> good_ops o h w ops ->
  spec_run o h w (blank_screen h w) (gmake h w cell_default) ops (rrun o (rnew h w false) ops) = true.
Proof.
  intros o h w ops Hsp Hgood.
  exact (history_spec_run o ops h w (rnew h w false) (blank_screen h w) Hsp (hinv_init o h w false [] Hsp) Hgood).
Qed.

(* the same, in the form of the property text: a history that ends in a frame of S *)
Theorem C01_history_final : forall o h w ops s,
  oracle_ok o -> good_ops o h w ops ->
  good_surface o (fst (size_after h w ops)) (snd (size_after h w ops)) s ->
  same_display (snd (run o (rnew h w false) (blank_screen h w) (ops ++ [Draw s; Frame])))
               (show o (fst (size_after h w ops)) (snd (size_after h w ops)) s) = true.
Proof. exact history_final. Qed.

(* THE KNOWN CLASSES CUT TO THEIR EXTENT (Render/Spec.v resume_run): every history whose surfaces are in
   the domain - images may share cells with images and wide characters - is judged.  Only the Frame of
   a surface with such a shared cell suspends judging, and only until the next forced repaint (Clear,
   Renew, Resize): from there on every frame again displays show(S) - same cells, no protocol error,
   all placements of S - and the terminal places nothing besides S's images and those that were still
   placed right after that clear() (what the overlap left behind; usually nothing).  Before the first
   such frame the judgement is [same_display], as in C01_history. *)
Theorem C01_history_resumes : forall o h w ops,
  oracle_ok o -> dom_ops o h w ops ->
  resume_run o h w (blank_screen h w) (gmake h w cell_default) (Some []) ops (rrun o (rnew h w false) ops) = true.
Proof.
  intros o h w ops Hok Hdom.
  apply (history_resume_run o ops h w (rnew h w false) (blank_screen h w) (Some []) Hok); auto.
  split; [exact (hinv_init o h w false [] Hok)|]. apply front_ok_blank; [apply Hok|reflexivity].
Qed.

(* the first frame of a fresh renderer (either value of `clear`) on a blank terminal *)
Theorem C01_scratch : forall o h w b s,
  oracle_ok o -> good_surface o h w s ->
  same_display (exec_list o (blank_screen h w) (fst (frame o (rdraw (rnew h w b) s))))
               (show o h w s) = true.
Proof.
  intros o h w b s Hsp Hs.
  destruct (hinv_draw o h w (rnew h w b) (blank_screen h w) [] s (hinv_init o h w b [] Hsp) Hs) as [HI Hf].
  pose proof (frame_shows o h w _ _ Hsp HI) as H. rewrite Hf in H. exact H.
Qed.

(* forced repaint: after clear() / new(clear=true) the next frame leaves exactly the drawn surface
   in every cell whatever the terminal showed before (arbitrary previous screen); only placements
   the renderer cannot know about survive *)
Theorem C01_forced : forall o h w s scr,
  oracle_ok o -> good_surface o h w s -> scr_ok scr h w ->
  let scr' := exec_list o scr (fst (frame o (rdraw (rnew h w true) s))) in
  sgrid scr' = sgrid (show o h w s) /\ err scr' = false
  /\ forall i r c, In (i, r, c) (places scr') <->
                   (In (i, r, c) (places scr) \/ In (i, r, c) (places (show o h w s))).
Proof. exact forced_repaint. Qed.

(* a renderer re-created with new(term, true) WITHOUT a clear() before it (the old renderer is just dropped),
   on a terminal in any state [scr] - any cells, any placements, e.g. what the old renderer left: every
   history from there is judged as in C01_history_resumes, and the terminal never places anything besides
   the drawn images and the placements it had at the start (which nobody can erase any more: it is
   run_render's clear() before the re-creation that avoids them, see the Resize events of C01_render_loop) *)
Theorem C01_forced_history : forall o h w scr ops,
  oracle_ok o -> scr_ok scr h w -> dom_ops o h w ops ->
  resume_run o h w scr (gmake h w cell_default) (Some (places scr)) ops (rrun o (rnew h w true) ops) = true.
Proof.
  intros o h w scr ops Hok Hs Hdom.
  apply (history_resume_run o ops h w (rnew h w true) scr (Some (places scr)) Hok); auto.
  split; [exact (hinv_fresh o h w scr Hok Hs)|]. apply front_ok_blank; [apply Hok|reflexivity].
Qed.

(* clear() forces a repaint from any terminal state: clear(), the application draws S, frame() on an
   arbitrary screen gives the grid of show S (clear() also resets the surface: it is called before
   the frame is drawn, as run_render does right after the poll) *)
Theorem C01_clear_then_frame : forall o h w st scr s,
  oracle_ok o -> rh st = h -> rw st = w -> good_surface o h w s -> scr_ok scr h w ->
  let scr1 := exec_list o scr (fst (rclear st)) in
  let scr' := exec_list o scr1 (fst (frame o (rdraw (snd (rclear st)) s))) in
  sgrid scr' = sgrid (show o h w s) /\ err scr' = false.
Proof. exact clear_then_frame. Qed.

(* IDLE FRAME: when the drawn surface (glyphs resolved) is what the back buffer holds and no repaint is
   forced, frame() issues no command at all - for every surface whatsoever (overlapping objects,
   characters under images included), so an unchanged screen is never touched *)
Theorem C01_idle_frame : forall o h w old front,
  gdims front h w -> gdims old h w -> gmap (resolve o) front = old ->
  fst (frame o (mkrstate h w front old (gmake h w MEmpty))) = [].
Proof. exact idle_frame. Qed.

(* RENDER LOOP with frame dropping (Terminal::run_render and its output queue, Render/Loop.v): per
   iteration poll; then - when frames_pending() exceeds TERMINAL_FRAMES_DROP (regenerated from the
   source) - frames_drop(); clear(); then - when the poll delivered a Resize event (same size; the
   terminal keeps its contents) - clear() and a new renderer; only then the handler draws; then
   frame() (or nothing for WaitNoFrame).  Because the clear() precedes the drawing, the forced
   repaint shows the surface the handler drew for that iteration; because the drop precedes the
   Resize, the ImageErase commands of its clear() are never dropped.  The terminal executes only what is delivered: every chunk (the
   commands between two polls) whole or not at all, a drop keeps a prefix of the pending chunks (interface proved for the real queue by C16_frames,
   C16_frames_flush_delimited, C16_render_loop_schema).
   For every session - what is drawn, how many
   chunks the tty takes at each poll, what frames_pending() answers, how many pending chunks survive
   each drop - after EVERY delivered frame the terminal displays show(S) of the surface drawn for
   that frame: same cells, no protocol error, every placement of S, and no placement besides those of
   S and the ones the last drop left stale (images whose ImageErase was in a dropped chunk: known
   class DroppedImageErase; [stale_places], empty unless that happened).  Every delivery of every
   session is judged, also after a stale drop. *)
Theorem C01_render_loop : forall o h w its,
  oracle_ok o -> good_iters o h w its ->
  fst (loop_spec o h w false (blank_screen h w) [] [] (gmake h w cell_default) its
                 (loop_model o (rnew h w false) 0 its)) = true.
Proof.
  intros o h w its Hok Hgood.
  exact (render_loop_correct o h w its (rnew h w false) 0 (blank_screen h w) [] [] (gmake h w cell_default)
                             Hok (linv_init o h w Hok) Hgood).
Qed.

(* the plain statement ([strict]: nothing tolerated, every delivered frame [same_display] show(S))
   holds for every session in which no drop is stale (second component) *)
Theorem C01_render_loop_exact : forall o h w its,
  oracle_ok o -> good_iters o h w its ->
  let out := loop_model o (rnew h w false) 0 its in
  snd (loop_spec o h w true (blank_screen h w) [] [] (gmake h w cell_default) its out) = false ->
  fst (loop_spec o h w true (blank_screen h w) [] [] (gmake h w cell_default) its out) = true.
Proof.
  intros o h w its Hok Hgood. cbv zeta. intros Hst.
  rewrite (loop_spec_strict o h w its _ _ _ _ Hst). apply C01_render_loop; auto.
Qed.

(* known classes OverlapImages / OverlapWideImage: with an image on a cell that another image or a
   wide character occupies the statement is false on the faithful model; one witness per sub-class.
   (Wide characters hiding one another are inside the theorems.) *)
Definition chr (f c : N) : cell := mkcell f (KChar c).
Definition img (f i : N) : cell := mkcell f (KImg i).
Definition gly (f g : N) : cell := mkcell f (KGlyph g).

Definition overlap_oracle : oracle :=
  mkoracle (fun ch => if N.leb 19990%N ch then 2 else 1)
           (fun i => if N.eqb i 1%N then (2, 3) else (1, 1)) (fun g f => (1000 + 16 * g + f)%N)
           (fun f => f) (fun f => f) (fun _ => true).

Definition refuted_by (ops : list op) : Prop :=
  oracle_ok overlap_oracle
  /\ (forall g, In (Draw g) ops -> in_domain overlap_oracle 1 3 g = true)
  /\ spec_run overlap_oracle 1 3 (blank_screen 1 3) (gmake 1 3 cell_default) ops
              (rrun overlap_oracle (rnew 1 3 false) ops) = false.

(* a 2x3 image with face 2 at column 0 and a 1x1 image at column 1; then the small image is removed *)
Definition overlap_images_ops : list op :=
  [Draw [[img 2%N 1%N; img 0%N 0%N; cell_default]]; Frame;
   Draw [[img 2%N 1%N; cell_default; cell_default]]; Frame].
(* a wide character with a 1x1 image on its right half; then the image is removed *)
Definition overlap_wide_image_ops : list op :=
  [Draw [[chr 0%N 19990%N; img 1%N 0%N; cell_default]]; Frame;
   Draw [[chr 0%N 19990%N; cell_default; cell_default]]; Frame].

Ltac refute :=
  split; [repeat split|]; split;
  [intros g Hin; simpl in Hin;
   repeat (destruct Hin as [Hin|Hin]; [inversion Hin; subst; vm_compute; reflexivity|]); contradiction
  |vm_compute; reflexivity].

(* class OverlapWideImage, precisely: a surface in which an image covers one half of a wide character
   has NO picture.  Already the repaint from scratch - the painter [show], and the renderer's own first
   frame, which issues commands with the same effect - erases that half under the image and leaves a
   split character (an Orphan cell), which is the picture of no surface (C01_show_no_orphan).  The
   class therefore is "no reference exists", and on top of that the incremental result depends on the
   history (C01_overlap_wide_image_refuted: after the image is removed, the wide character that the
   second surface shows whole stays split). *)
Theorem C01_overlap_wide_image_no_picture :
  let s := [[chr 0%N 19990%N; img 1%N 0%N; cell_default]] in
  in_domain overlap_oracle 1 3 s = true
  /\ overlap_kinds overlap_oracle 1 3 s = (false, true, false)
  /\ gget (sgrid (show overlap_oracle 1 3 s)) 0 0 = Some (Orphan, 0%N)
  /\ same_display (exec_list overlap_oracle (blank_screen 1 3)
                              (fst (frame overlap_oracle (rdraw (rnew 1 3 false) s))))
                   (show overlap_oracle 1 3 s) = true.
Proof. cbv zeta. repeat split; vm_compute; reflexivity. Qed.

Theorem C01_overlap_images_refuted : refuted_by overlap_images_ops.
Proof. refute. Qed.
Theorem C01_overlap_wide_image_refuted : refuted_by overlap_wide_image_ops.
Proof. refute. Qed.

(* known class DroppedImageErase: frame 1 places an image and is delivered; frame 2 (which erases it)
   is still pending when frame 3 finds the queue too long: frame 2 is dropped, clear() erases only the
   images of the back buffer, the image stays on the terminal: the plain statement fails, the tolerant
   one (cells right, only that image too many) holds *)
Definition stale_session : list iter :=
  [mkiter 0 [[img 0%N 0%N; cell_default]] AWait None 1 false;
   mkiter 1 [[cell_default; cell_default]] AWait None 1 false;
   mkiter 0 [[chr 0%N 97%N; cell_default]] AWait (Some 40) 0 false].

Theorem C01_dropped_image_erase_refuted :
  oracle_ok overlap_oracle /\ good_iters overlap_oracle 1 2 stale_session
  /\ loop_spec overlap_oracle 1 2 true (blank_screen 1 2) [] [] (gmake 1 2 cell_default) stale_session
               (loop_model overlap_oracle (rnew 1 2 false) 0 stale_session) = (false, true)
  /\ loop_spec overlap_oracle 1 2 false (blank_screen 1 2) [] [] (gmake 1 2 cell_default) stale_session
               (loop_model overlap_oracle (rnew 1 2 false) 0 stale_session) = (true, true).
Proof.
  split; [repeat split|]. split.
  - unfold stale_session, good_iters. repeat constructor; vm_compute; reflexivity.
  - split; vm_compute; reflexivity.
Qed.

(* non-vacuity of C01_render_loop: 34 frames pile up (the tty takes nothing), the 35th iteration finds
   33 > TERMINAL_FRAMES_DROP pending: frames_drop keeps the front chunk, clear, a Resize event (clear, new
   renderer), frame; then everything is delivered; the last iteration sees another Resize event *)
Definition pile_session : list iter :=
  repeat (mkiter 0 [[chr 1%N 97%N; chr 0%N 19990%N; cell_default]] AWait None 1 false) 17
  ++ repeat (mkiter 0 [[chr 0%N 19990%N; cell_default; chr 2%N 98%N]] AWait None 1 false) 17
  ++ [mkiter 0 [[chr 0%N 120%N; chr 0%N 19990%N; cell_default]] AWait None 1 true;
      mkiter 9 [[chr 0%N 120%N; chr 0%N 121%N; cell_default]] AWaitNoFrame None 1 false;
      mkiter 0 [[chr 0%N 120%N; chr 0%N 121%N; cell_default]] AWait None 1 true].

Example C01_render_loop_nonvacuous :
  good_iters overlap_oracle 1 3 pile_session
  /\ existsb fst (loop_model overlap_oracle (rnew 1 3 false) 0 pile_session) = true
  /\ loop_spec overlap_oracle 1 3 true (blank_screen 1 3) [] [] (gmake 1 3 cell_default) pile_session
               (loop_model overlap_oracle (rnew 1 3 false) 0 pile_session) = (true, false).
Proof.
  split; [|split; vm_compute; reflexivity].
  assert (Hb : forallb (fun it => in_domain overlap_oracle 1 3 (it_draw it)
                                  && no_image_overlap overlap_oracle 1 3 (it_draw it)) pile_session = true)
    by (vm_compute; reflexivity).
  apply Forall_forall. intros it Hin. rewrite forallb_forall in Hb. specialize (Hb it Hin).
  apply andb_true_iff in Hb. exact Hb.
Qed.

Check C01_history : forall o h w ops,
  oracle_ok o -> good_ops o h w ops ->
  spec_run o h w (blank_screen h w) (gmake h w cell_default) ops (rrun o (rnew h w false) ops) = true.

Check C01_forced : forall o h w s scr,
  oracle_ok o -> good_surface o h w s -> scr_ok scr h w ->
  let scr' := exec_list o scr (fst (frame o (rdraw (rnew h w true) s))) in
  sgrid scr' = sgrid (show o h w s) /\ err scr' = false
  /\ forall i r c, In (i, r, c) (places scr') <->
                   (In (i, r, c) (places scr) \/ In (i, r, c) (places (show o h w s))).

(* non-vacuity: a history with a wide character, a cell behind it, an image, a cell under the
   image, a glyph, a blank run longer than 4 (erased) and one in an underlining face (face 4, printed
   as spaces), Clear, Renew, SkipFrame, a Resize to a garbage screen and a wide
   character hidden behind another one (then uncovered) is in the domain, and the
   renderer issues commands for it (wide = U+4E16, width 2; image 1 is 2x3 cells) *)
Definition ex_oracle : oracle :=
  mkoracle (fun ch => if N.eqb ch 19990%N then 2 else 1)
           (fun i => if N.eqb i 1%N then (2, 3) else (1, 1)) (fun g f => (1000 + 16 * g + f)%N)
           (fun f => f) (fun f => if N.eqb f 4%N then 0%N else f) (fun f => negb (N.eqb f 4%N)).
Definition ex_s1 : grid cell :=
  [[chr 1%N 19990%N; chr 0%N 120%N; img 2%N 1%N; chr 0%N 97%N; cell_default; cell_default; cell_default];
   [cell_default; gly 3%N 0%N; cell_default; cell_default; chr 1%N 98%N; chr 0%N 19990%N; cell_default]].
Definition ex_s2 : grid cell :=
  [[chr 0%N 97%N; chr 0%N 120%N; chr 1%N 32%N; chr 1%N 32%N; chr 1%N 32%N; chr 1%N 32%N; chr 1%N 32%N];
   [cell_default; gly 3%N 0%N; cell_default; cell_default; chr 1%N 98%N; cell_default; cell_default]].
Definition ex_s3 : grid cell :=
  [[chr 4%N 32%N; chr 4%N 32%N; chr 4%N 32%N; chr 4%N 32%N; chr 4%N 32%N; chr 4%N 32%N; cell_default];
   [cell_default; cell_default; cell_default; cell_default; cell_default; cell_default; cell_default]].
Definition ex_ops : list op :=
  [Draw ex_s1; Frame; Draw ex_s2; Frame; Clear; Draw ex_s1; SkipFrame; Frame; Draw ex_s1; Frame; Renew; Draw ex_s2; Frame; Draw ex_s3; Clear; Frame;
   Resize 1 2 [[(WR, 3%N); (Orphan, 1%N)]]; Draw [[chr 1%N 19990%N; chr 0%N 97%N]]; Frame;
   Resize 1 4 [[(Blank, 0%N); (Blank, 0%N); (Blank, 0%N); (Blank, 0%N)]];
   Draw [[chr 0%N 19990%N; chr 1%N 19990%N; chr 0%N 120%N; chr 0%N 121%N]]; Frame;
   Draw [[chr 0%N 97%N; chr 1%N 19990%N; chr 0%N 120%N; chr 0%N 121%N]]; Frame].

Example C01_history_nonvacuous :
  oracle_ok ex_oracle /\ good_ops ex_oracle 2 7 ex_ops
  /\ length (concat (rrun ex_oracle (rnew 2 7 false) ex_ops)) = 101
  /\ existsb (fun c => match c with CEraseChars 5 => true | _ => false end)
             (concat (rrun ex_oracle (rnew 2 7 false) ex_ops)) = true.
Proof.
  split.
  { split; [reflexivity|]. split; [reflexivity|]. intros f H. unfold ex_oracle in *. cbn [erasable ferase fspace] in *.
    destruct (N.eqb f 4%N); [discriminate|reflexivity]. }
  split; [|split; vm_compute; reflexivity].
  unfold ex_ops. cbn [good_ops]. repeat split; try (vm_compute; reflexivity);
    intros row Hin; simpl in Hin; destruct Hin as [<-|[]]; reflexivity.
Qed.

(* ---------- non-vacuity of the other theorems: their hypotheses hold for [ex_oracle] and surfaces
   with a wide character, a cell behind it, an image, a cell under it and a glyph, and the conclusion
   is about a non-trivial screen / command list ---------- *)
Lemma ex_oracle_ok : oracle_ok ex_oracle.
Proof.
  split; [reflexivity|]. split; [reflexivity|]. intros f H. unfold ex_oracle in *. cbn [erasable ferase fspace] in *.
  destruct (N.eqb f 4%N); [discriminate|reflexivity].
Qed.

Lemma ex_good : forall h w s,
  in_domain ex_oracle h w s && no_image_overlap ex_oracle h w s = true -> good_surface ex_oracle h w s.
Proof. intros h w s H. apply andb_true_iff in H. exact H. Qed.

Ltac ex_gdims := split; [reflexivity|]; intros row Hin; simpl in Hin;
                 repeat (destruct Hin as [<-|Hin]; [reflexivity|]); contradiction.

(* the picture of ex_s1 has the left half of a wide character, its right half (where an 'x' was
   drawn), a blank in face 2 under the image, and the placements of the image and of the glyph *)
Example C01_show_is_denotation_nonvacuous :
  oracle_ok ex_oracle /\ good_surface ex_oracle 2 7 ex_s1
  /\ gget (sgrid (show ex_oracle 2 7 ex_s1)) 0 0 = Some (WL 19990%N, 1%N)
  /\ gget (sgrid (show ex_oracle 2 7 ex_s1)) 0 1 = Some (WR, 1%N)
  /\ gget (sgrid (show ex_oracle 2 7 ex_s1)) 1 3 = Some (Blank, 2%N)
  /\ length (places (show ex_oracle 2 7 ex_s1)) = 2.
Proof. split; [exact ex_oracle_ok|]. split; [apply ex_good|]; vm_compute; repeat split; reflexivity. Qed.

(* a history ending in a 1x4 terminal, then [Draw; Frame] of a surface with two wide characters *)
Definition ex_last : grid cell := [[chr 0%N 120%N; chr 1%N 19990%N; chr 0%N 121%N; chr 2%N 98%N]].
Example C01_history_final_nonvacuous :
  good_ops ex_oracle 2 7 ex_ops /\ size_after 2 7 ex_ops = (1, 4)
  /\ good_surface ex_oracle 1 4 ex_last
  /\ length (fst (frame ex_oracle (rdraw (fst (run ex_oracle (rnew 2 7 false) (blank_screen 2 7) ex_ops)) ex_last))) = 6.
Proof.
  split; [exact (proj1 (proj2 C01_history_nonvacuous))|]. split; [reflexivity|].
  split; [apply ex_good|]; vm_compute; reflexivity.
Qed.

Example C01_scratch_nonvacuous :
  good_surface ex_oracle 2 7 ex_s1
  /\ length (fst (frame ex_oracle (rdraw (rnew 2 7 false) ex_s1))) = 18
  /\ length (fst (frame ex_oracle (rdraw (rnew 2 7 true) ex_s1))) = 23.
Proof. split; [apply ex_good|]; vm_compute; repeat split; reflexivity. Qed.

(* a garbage screen: a right half without its left half, an orphan, a foreign placement *)
Definition ex_garbage : screen :=
  mkscreen 2 7 [[(WR, 3%N); (Orphan, 1%N); (Ch 122%N, 5%N); (Blank, 0%N); (WL 19990%N, 0%N); (Blank, 2%N); (Blank, 0%N)];
                [(Blank, 0%N); (Blank, 0%N); (Blank, 0%N); (Blank, 0%N); (Blank, 0%N); (Blank, 0%N); (WL 19990%N, 4%N)]]
           [(7%N, 1, 5)] (1, 6) 3%N false.
Example C01_forced_nonvacuous :
  good_surface ex_oracle 2 7 ex_s1 /\ scr_ok ex_garbage 2 7
  /\ sgrid ex_garbage <> sgrid (show ex_oracle 2 7 ex_s1)
  /\ In (7%N, 1, 5) (places (exec_list ex_oracle ex_garbage (fst (frame ex_oracle (rdraw (rnew 2 7 true) ex_s1))))).
Proof.
  split; [apply ex_good; vm_compute; reflexivity|]. split.
  { unfold scr_ok, ex_garbage. cbn [sh sw err sgrid]. split; [reflexivity|]. split; [reflexivity|]. split; [reflexivity|]. ex_gdims. }
  split; [intros H; vm_compute in H; discriminate|]. vm_compute. auto.
Qed.

(* the renderer has displayed ex_s1 (clear() erases its image and its glyph), the terminal shows garbage *)
Definition ex_st : rstate := snd (frame ex_oracle (rdraw (rnew 2 7 false) ex_s1)).
Example C01_clear_then_frame_nonvacuous :
  rh ex_st = 2 /\ rw ex_st = 7 /\ good_surface ex_oracle 2 7 ex_s2 /\ scr_ok ex_garbage 2 7
  /\ length (fst (rclear ex_st)) = 2
  /\ sgrid (exec_list ex_oracle ex_garbage (fst (rclear ex_st))) <> sgrid (show ex_oracle 2 7 ex_s2).
Proof.
  split; [reflexivity|]. split; [reflexivity|]. split; [apply ex_good; vm_compute; reflexivity|].
  split; [exact (proj1 (proj2 C01_forced_nonvacuous))|].
  split; [vm_compute; reflexivity|]. intros H; vm_compute in H; discriminate.
Qed.

(* an unchanged surface full of overlaps (image over image, image over a wide character, wide
   characters over one another, a character under an image): nothing is issued; one changed cell: something is *)
Definition ex_pile : grid cell :=
  [[img 2%N 1%N; img 0%N 0%N; chr 0%N 19990%N; chr 1%N 19990%N; chr 0%N 120%N; cell_default; cell_default];
   [chr 3%N 19990%N; chr 0%N 97%N; cell_default; cell_default; cell_default; cell_default; cell_default]].
Example C01_idle_frame_nonvacuous :
  gdims ex_pile 2 7 /\ no_image_overlap ex_oracle 2 7 ex_pile = false
  /\ fst (frame ex_oracle (mkrstate 2 7 ex_pile (gmap (resolve ex_oracle) ex_pile) (gmake 2 7 MEmpty))) = []
  /\ fst (frame ex_oracle (mkrstate 2 7 ex_s2 (gmap (resolve ex_oracle) ex_pile) (gmake 2 7 MEmpty))) <> [].
Proof.
  split; [ex_gdims|]. split; [vm_compute; reflexivity|]. split; [vm_compute; reflexivity|].
  intros H; vm_compute in H; discriminate.
Qed.

(* non-vacuity of C01_history_resumes: the witness of OverlapImages (its second frame is wrong and is
   not judged), then clear() and two more frames, which are judged again: leaving out the commands of
   the last frame is noticed (4th line); what the terminal still places right after that clear() is
   tolerated from then on - even if the clear() had erased nothing (5th) - but a placement that
   appears later is not (6th) *)
Definition resume_ops : list op :=
  overlap_images_ops
  ++ [Clear; Draw [[chr 1%N 97%N; img 0%N 0%N; cell_default]]; Frame;
      Draw [[chr 1%N 97%N; cell_default; chr 2%N 98%N]]; Frame].
Definition resume_impl : list (list cmd) := rrun overlap_oracle (rnew 1 3 false) resume_ops.

Example C01_history_resumes_nonvacuous :
  dom_ops overlap_oracle 1 3 resume_ops
  /\ spec_run overlap_oracle 1 3 (blank_screen 1 3) (gmake 1 3 cell_default) resume_ops resume_impl = false
  /\ resume_run overlap_oracle 1 3 (blank_screen 1 3) (gmake 1 3 cell_default) (Some []) resume_ops resume_impl = true
  /\ resume_run overlap_oracle 1 3 (blank_screen 1 3) (gmake 1 3 cell_default) (Some []) resume_ops
                (firstn 8 resume_impl ++ [[]]) = false
  /\ resume_run overlap_oracle 1 3 (blank_screen 1 3) (gmake 1 3 cell_default) (Some []) resume_ops
                (firstn 4 resume_impl ++ [[]] ++ skipn 5 resume_impl) = true
  /\ resume_run overlap_oracle 1 3 (blank_screen 1 3) (gmake 1 3 cell_default) (Some []) resume_ops
                (firstn 4 resume_impl ++ [[]] ++ firstn 1 (skipn 5 resume_impl)
                 ++ [[CImage 9%N 0 2]] ++ skipn 7 resume_impl) = false.
Proof. split; [simpl; repeat split; vm_compute; reflexivity|]. repeat split; vm_compute; reflexivity. Qed.
