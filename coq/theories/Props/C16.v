From Coq Require Import List NArith Arith.
From SNT Require Import Base.Outcome IO.IOQueue IO.IOQueueProofs.
Import ListNotations.

Theorem C16_length_defect_as_found :
  let q := write (flush (write (flush (write (@qempty N) [1;2;3]%N)) [4;5;6;7]%N)) [] in
  len (clear_but_last_orig q) = 7 /\ length (pending (clear_but_last_orig q)) = 3.
Proof. exact clear_but_last_orig_refuted. Qed.
