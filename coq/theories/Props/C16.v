(* C16 - terminal output is delivered in order, exactly once; frames are never torn; the byte
   queue's length is the number of readable bytes.  Statements only. *)
From Coq Require Import List NArith Arith.
From SNT Require Import Base.Outcome IO.IOQueue IO.IOQueueProofs.
Import ListNotations.

Section Statements.
  Context {A : Type}.

  (* all interleavings of write / flush / read / consume / consume_with / drop / read_to_end,
     unbounded, on a fresh queue *)
  Theorem C16_queue_history : forall ops : list (op A),
    let B := length (written ops) in
    (N.of_nat B <= usize_max)%N ->
    (exec qempty ops [] [] = Panic 2 /\ Exists (fun o => ~ amt_fits B o) ops)
    \/ exists q R X, exec qempty ops [] [] = Ok (q, R, X) /\ Inv q
          /\ erase (written ops) (R ++ pending q) X
          /\ total_len (chunks q) <= B.
  Proof. exact queue_history. Qed.

  Theorem C16_queue_len_readable : forall (q : queue A) n, reachable q -> 0 < n ->
    len q = length (pending q)
    /\ exists q', read_all (S (length (pending q))) q n [] = Ok (q', pending q)
                  /\ is_empty q' = true /\ len q' = 0.
  Proof. exact len_is_readable. Qed.
End Statements.

Theorem C16_length_defect_as_found :
  let q := flush (write (flush (write (@qempty N) [1;2;3]%N)) [4;5;6;7]%N) in
  len (clear_but_last_orig q) = 7 /\ length (pending (clear_but_last_orig q)) = 3.
Proof. exact clear_but_last_orig_refuted. Qed.
