(* C16 - Terminal output is delivered in order, exactly once, and frames are never torn; the
   byte queue's reported length is the number of bytes that can still be read.

   Statements only; each is closed by a lemma proved in IO/IOQueueProofs.v, IO/IOQueueFrames.v,
   IO/TermIOProofs.v, IO/TermIOLive.v, IO/FifoSpecProofs.v, IO/FrameSpecProofs.v.  `A` is the byte
   type (the code never looks inside a byte).

   Counted (16 theorems): queue - C16_queue_history, _queue_len_readable, _queue_read_progress,
   _queue_observers, _queue_drop, _queue_frames, C16_flush_idempotent; terminal object - C16_order,
   _order_no_drop, _drained, _frames, _frames_flush_delimited, _render_loop_schema, _progress;
   specification sides - C16_spec_accepts_model, C16_frame_spec_accepts_model (drained runs).
   Not counted: the lemmas C16_length_defect_as_found / C16_flush_defect_as_found (the functions
   as found, before 1668a13 / 1688aac), the Check pins and the examples at the end.
   Model = the code on /repo main (fixes 1668a13, 1688aac, 5a0ca21, e293376, 93ac8da included).

   Vocabulary
     exec q ops R X      run a history of queue calls from q; R collects every byte handed out
                         (read, consume, consume_with, read_to_end), X every chunk a drop discards
     written ops         all bytes written, in program order
     pending q           the bytes still to be read, in order
     erase w k x         k is w with the contiguous segments x (in this order) cut out
     trun t prog X       run a program of write/execute/flush/poll/frames_drop calls on the
                         terminal object; every poll carries an arbitrary kernel schedule
     twritten prog       all bytes handed to the terminal object, in program order
     tty t               every byte the tty accepted, in order *)
From Coq Require Import List NArith Arith.
From SNT Require Import Base.Outcome IO.IOQueue IO.IOQueueProofs IO.IOQueueFrames
  IO.TermIO IO.TermIOProofs IO.TermIOLive IO.FifoSpec IO.FifoSpecProofs IO.FrameSpec IO.FrameSpecProofs.
Import ListNotations.

Section Statements.
  Context {A : Type}.

  (* ---- the queue alone: all interleavings of write, flush, read, consume, consume_with,
     drop and read_to_end, of any length, with any payloads and amounts *)

  (* No call panics, except that the addition `offset + amt` overflows when a caller passes a
     consume amount that does not fit (beyond anything the queue showed it).  `Panic 2` is the
     debug build (overflow checks); in a release build the sum wraps, the branch taken is the
     wrong one and `length` is corrupted - such amounts violate BufRead::consume's contract and
     are outside the theorem either way (`amt_fits`).  In every other
     history each call returns, the representation invariant holds (length = readable bytes,
     offset inside the front chunk, no empty chunk before the last) and the bytes handed out
     followed by the bytes still pending are exactly the bytes written, in order, with the
     discarded chunks cut out: nothing lost, duplicated or reordered. *)
  Theorem C16_queue_history : forall ops : list (op A),
    let B := length (written ops) in
    (N.of_nat B <= usize_max)%N ->
    (exec qempty ops [] [] = Panic 2 /\ Exists (fun o => ~ amt_fits B o) ops)
    \/ exists q R X, exec qempty ops [] [] = Ok (q, R, X) /\ Inv q
          /\ erase (written ops) (R ++ pending q) X
          /\ total_len (chunks q) <= B.
  Proof. exact queue_history. Qed.

  (* The reported length is the number of bytes that can still be read: reading to
     exhaustion with destinations of any non-zero size yields exactly len() bytes - the
     pending bytes, in order - and leaves the queue empty. *)
  Theorem C16_queue_len_readable : forall (q : queue A) n, reachable q -> 0 < n ->
    len q = length (pending q)
    /\ exists q', read_all (S (length (pending q))) q n [] = Ok (q', pending q)
                  /\ is_empty q' = true /\ len q' = 0.
  Proof. exact len_is_readable. Qed.

  (* a read returns no byte only when nothing is pending; what it returns is the next bytes *)
  Theorem C16_queue_read_progress : forall (q : queue A) n, reachable q -> 0 < n ->
    exists q' r, read q n = Ok (q', r) /\ (r = [] <-> pending q = []) /\ pending q = r ++ pending q'
                 /\ length r <= n.
  Proof. exact read_progress. Qed.

  (* the slice shown to a consumer (what poll hands to write(2)) is a prefix of the pending
     bytes, non-empty while bytes are pending; is_empty implies nothing is pending *)
  Theorem C16_queue_observers : forall q : queue A, reachable q ->
    as_slice q = Ok (front_slice q)
    /\ (exists rest, pending q = front_slice q ++ rest)
    /\ len q = length (pending q)
    /\ (is_empty q = true -> pending q = [])
    /\ (pending q <> [] -> front_slice q <> []).
  Proof. exact observers. Qed.

  (* a drop keeps the chunk in flight (with its offset) and discards every other chunk whole *)
  Theorem C16_queue_drop : forall q : queue A, reachable q ->
    exists q', clear_but_last q = Ok q'
      /\ chunks q' = firstn 1 (chunks q) /\ offset q' = offset q
      /\ dropped_chunks q = tl (chunks q)
      /\ pending q = pending q' ++ concat (dropped_chunks q)
      /\ len q' = length (pending q').
  Proof. exact drop_discards_whole_chunks. Qed.

  (* Frames are never torn: run the same history on bytes tagged with the frame they were
     written in (frames are delimited by flush and drop calls) and their position; the plain
     run is the tagged run with the tags erased; every discarded chunk is exactly one whole
     frame, and none of its bytes is ever handed out or left pending. *)
  Theorem C16_queue_frames : forall (ops : list (op A)) q R X,
    (N.of_nat (length (written ops)) <= usize_max)%N ->
    exec qempty ops [] [] = Ok (q, R, X) ->
    exists qt Rt Xt,
      exec qempty (tag_ops 0 0 ops) [] [] = Ok (qt, Rt, Xt)
      /\ (q, R, X) = res_map fst (qt, Rt, Xt)
      /\ Forall (fun c => exists f, c = filt tframe f (written (tag_ops 0 0 ops))) Xt
      /\ (forall e, In e (concat Xt) -> ~ In e Rt /\ ~ In e (pending qt)).
  Proof. exact frames_never_torn. Qed.

  (* flushing twice is flushing once: polls with output pending do not inflate frames_pending *)
  Theorem C16_flush_idempotent : forall q : queue A, flush (flush q) = flush q.
  Proof. exact flush_idem. Qed.

  (* ---- the terminal object: all programs of write / execute / flush / poll / frames_drop,
     every poll under an arbitrary kernel schedule (short writes of any size, EAGAIN, rounds in
     which the tty is not writable, output queued by the loop itself, early return) *)

  (* never panics; tty ++ pending = everything handed over, in program order, with the
     discarded chunks cut out; the send counter counts the delivered bytes; the run is a queue
     history (so the queue theorems apply to it) *)
  Theorem C16_order : forall prog : list (top A),
    (N.of_nat (length (twritten prog)) <= usize_max)%N ->
    exists t X, trun term0 prog [] = Ok (t, X)
      /\ exec qempty (compile prog) [] [] = Ok (tq t, tty t, X)
      /\ erase (twritten prog) (tty t ++ pending (tq t)) X
      /\ sent t = length (tty t)
      /\ Inv (tq t).
  Proof. exact term_delivery. Qed.

  (* without frames_drop: the tty holds a prefix of the written stream, the queue the rest *)
  Theorem C16_order_no_drop : forall (prog : list (top A)) t X,
    (N.of_nat (length (twritten prog)) <= usize_max)%N ->
    trun term0 prog [] = Ok (t, X) -> ~ In TDrop prog ->
    tty t ++ pending (tq t) = twritten prog.
  Proof. exact term_delivery_no_drop. Qed.

  (* once the queue is empty the tty has everything that was not discarded *)
  Theorem C16_drained : forall (prog : list (top A)) t X,
    (N.of_nat (length (twritten prog)) <= usize_max)%N ->
    trun term0 prog [] = Ok (t, X) -> is_empty (tq t) = true ->
    erase (twritten prog) (tty t) X.
  Proof. exact term_drained. Qed.

  (* frames_drop discards only whole frames (everything handed over between two consecutive
     flush / poll / frames_drop calls) no byte of which ever reaches the tty *)
  Theorem C16_frames : forall (prog : list (top A)) t X,
    (N.of_nat (length (twritten prog)) <= usize_max)%N ->
    trun term0 prog [] = Ok (t, X) ->
    let tops := tag_ops 0 0 (compile prog) in
    exists qt Rt Xt,
      exec qempty tops [] [] = Ok (qt, Rt, Xt)
      /\ (tq t, tty t, X) = res_map fst (qt, Rt, Xt)
      /\ Forall (fun c => exists f, c = filt tframe f (written tops)) Xt
      /\ (forall e, In e (concat Xt) -> ~ In e Rt /\ ~ In e (pending qt)).
  Proof. exact term_frames_never_torn. Qed.
  (* ---- strong form of "whole flush-delimited": when nothing is handed over between the last
     flush / poll and a frames_drop (the render loop of terminal.rs drops right after poll;
     dispose drops what is left), frames are delimited by flush / poll ONLY - the drop is not a
     delimiter - and every discarded chunk is still one whole frame never seen by the tty *)
  Theorem C16_frames_flush_delimited : forall (prog : list (top A)) t X,
    (N.of_nat (length (twritten prog)) <= usize_max)%N ->
    tdrops_fresh true prog ->
    trun term0 prog [] = Ok (t, X) ->
    let tops := tag_ops_g false 0 0 (compile prog) in
    exists qt Rt Xt,
      exec qempty tops [] [] = Ok (qt, Rt, Xt)
      /\ (tq t, tty t, X) = res_map fst (qt, Rt, Xt)
      /\ Forall (fun c => exists f, c = filt tframe f (written tops)) Xt
      /\ (forall e, In e (concat Xt) -> ~ In e Rt /\ ~ In e (pending qt)).
  Proof. exact term_frames_flush_delimited. Qed.

  (* the render loop's schema (terminal.rs run_render) - poll; frames_drop when more than 32 frames
     are pending; then every write of the iteration: the renderer's clear after a drop or a
     Resize, the handler's own writes, the frame - satisfies that hypothesis, provided a poll that
     is followed by a drop queued nothing itself.  (It does in escape sequence resize mode: the
     size query on SIGWINCH.  Then C16_frames applies - the query is a fragment dropped whole -
     and the query is queued again by frames_drop since e293376, see
     C16_size_query_dropped_example.) *)
  Theorem C16_render_loop_schema : forall (its : list (list (round A) * bool * list (list A))) fresh,
    Forall iteration_ok its ->
    tdrops_fresh fresh (concat (map render_iteration its)).
  Proof. exact render_loop_drops_fresh. Qed.

  (* ---- progress.  A round in which the tty accepts at least one byte decreases
     |pending| + chunks; a round in which the write is refused (EAGAIN, EINTR: KAccept 0) or select
     returns for another reason (KIdle) never increases it.  So from every state a program can
     reach, any continuation of the poll loop - accepting, refusing and idle rounds in any order -
     with that many accepting rounds (of any sizes) leaves the queue empty with everything
     delivered in order.  (With a kernel that never accepts a byte nothing is delivered and
     C16_order / C16_drained say nothing: the wait is the peer's.) *)
  Theorem C16_progress : forall (prog : list (top A)) t X (sched : list (round A)),
    (N.of_nat (length (twritten prog)) <= usize_max)%N ->
    trun term0 prog [] = Ok (t, X) ->
    Forall quiet sched -> work t <= accepting_count sched ->
    exists t', poll_rounds t sched = Ok t'
      /\ is_empty (tq t') = true
      /\ tty t' = tty t ++ pending (tq t).
  Proof. exact run_then_rounds_drain. Qed.

  (* ---- the specification side of the correspondence accepts every history of the model: the
     property predicate of the queue check can only fail where the implementation departs
     from the model *)
  Theorem C16_spec_accepts_model : forall (aeqb : A -> A -> bool),
    (forall x, aeqb x x = true) ->
    forall ops : list (op A),
    (N.of_nat (length (written ops)) <= usize_max)%N ->
    gfifo_check aeqb ops (trace qempty ops) = true.
  Proof. exact spec_accepts_model. Qed.
  (* ... and so does the specification side of the pty sessions (IO/FrameSpec.v: frames delimited
     by flush / poll / frames_drop, a drop recorded with the number of bytes the tty had accepted):
     for every program and every kernel schedule that ends with nothing pending, what the tty
     received passes `frame_check` against what the program did *)
  Theorem C16_frame_spec_accepts_model : forall (aeqb : A -> A -> bool),
    (forall x, aeqb x x = true) ->
    forall (prog : list (top A)) t X,
    (N.of_nat (length (twritten prog)) <= usize_max)%N ->
    trun term0 prog [] = Ok (t, X) -> pending (tq t) = [] ->
    frame_check aeqb (fops_run qempty [] (compile prog)) (tty t) = true.
  Proof.
    intros aeqb Hrefl prog t X HB E Hp.
    destruct (term_delivery prog HB) as (t' & X' & E' & Ex & _). rewrite E in E'. inversion E'; subst t' X'.
    apply (frame_spec_accepts_model aeqb Hrefl (compile prog) (tq t) (tty t) X); auto.
    now rewrite written_compile.
  Qed.
End Statements.

(* ---- the code as found (before the two `fix:` commits) refutes the property: two computed
   instances of the models of the functions as found (lemmas, not counted among the theorems) *)

(* clear_but_last left `length` stale: len() = 7 while 3 bytes can be read *)
Lemma C16_length_defect_as_found :
  let q := flush (write (flush (write (@qempty N) [1;2;3]%N)) [4;5;6;7]%N) in
  len (clear_but_last_orig q) = 7 /\ length (pending (clear_but_last_orig q)) = 3.
Proof. exact clear_but_last_orig_refuted. Qed.

(* flush tested the front slice: write a; flush; flush; write b leaves an empty chunk in the
   middle, and a read returns no byte (end of data for read_to_end) while len() = 1 *)
Lemma C16_flush_defect_as_found :
  let q := write (flush_o (flush_o (write (@qempty N) [97]%N))) [98]%N in
  exists q1 q2, read q 4 = Ok (q1, [97]%N) /\ read q1 4 = Ok (q2, []) /\ len q1 = 1 /\ pending q1 = [98]%N.
Proof. exact flush_orig_refuted. Qed.

(* ---- pins *)
Check @C16_queue_history : forall (A : Type) (ops : list (op A)),
  let B := length (written ops) in
  (N.of_nat B <= usize_max)%N ->
  (exec qempty ops [] [] = Panic 2 /\ Exists (fun o => ~ amt_fits B o) ops)
  \/ exists q R X, exec qempty ops [] [] = Ok (q, R, X) /\ Inv q
        /\ erase (written ops) (R ++ pending q) X /\ total_len (chunks q) <= B.
Check @C16_order : forall (A : Type) (prog : list (top A)),
  (N.of_nat (length (twritten prog)) <= usize_max)%N ->
  exists t X, trun term0 prog [] = Ok (t, X)
    /\ exec qempty (compile prog) [] [] = Ok (tq t, tty t, X)
    /\ erase (twritten prog) (tty t ++ pending (tq t)) X
    /\ sent t = length (tty t) /\ Inv (tq t).
Check @C16_queue_len_readable : forall (A : Type) (q : queue A) n, reachable q -> 0 < n ->
  len q = length (pending q)
  /\ exists q', read_all (S (length (pending q))) q n [] = Ok (q', pending q)
                /\ is_empty q' = true /\ len q' = 0.

(* ---- non-vacuity *)

(* two frames queued, the first partly consumed, the second dropped, more written, all read:
   handed out = 1 2 3 6, discarded = the whole second frame 4 5 *)
Example C16_queue_example :
  exec qempty [OWrite [1;2;3]; OFlush; OWrite [4;5]; OFlush; OConsumeWith 2 true; ODrop;
               OWrite [6]; OReadToEnd]%N [] []
  = Ok (qempty, [1;2;3;6]%N, [[4;5]%N; []]).
Proof. vm_compute. reflexivity. Qed.

Example C16_queue_example_erase :
  erase [1;2;3;4;5;6]%N ([1;2;3;6]%N ++ []) [[4;5]%N; []].
Proof.
  apply er_keep, er_keep, er_keep. apply (er_drop [4;5]%N [6]%N). apply (er_drop [] [6]%N).
  apply erase_refl.
Qed.

(* the strong form is not vacuous: a render loop that drops two whole frames *)
Example C16_flush_delimited_example :
  let prog := [TWrite [1;2;3]; TPoll [KAccept 1]; TWrite [4]; TPoll []; TWrite [5]; TPoll [];
               TDrop; TWrite [6]; TPoll [KAccept 9; KAccept 9; KAccept 9]]%N in
  tdrops_fresh true prog
  /\ exists t, trun term0 prog [] = Ok (t, [[4]; [5]; []]%N) /\ tty t = [1;2;3;6]%N.
Proof. split; [cbn; auto|]. eexists. vm_compute. split; reflexivity. Qed.

(* ... and false without the hypothesis: one flush-delimited frame, torn by a drop in the middle *)
Example C16_drop_mid_frame_tears :
  exists t, trun term0 [TWrite [9]; TPoll [KAccept 0]; TWrite [1]; TDrop; TWrite [2]; TPoll [KAccept 9; KAccept 9]]%N []
            = Ok (t, [[1]]%N) /\ tty t = [9; 2]%N.
Proof. eexists. vm_compute. split; reflexivity. Qed.

(* the render loop in escape sequence resize mode, as found: the poll that handles SIGWINCH queues
   the size query (7 = the query) and returns with two frames pending; frames_drop discards the
   query with the second frame, the tty never sees it ... *)
Example C16_size_query_dropped_example :
  exists t, trun term0 [TWrite [1;2]; TPoll [KAccept 1]; TWrite [3]; TPoll [KIdle; KInternal [7]]; TDrop;
                        TWrite [4]; TPoll [KAccept 9; KAccept 9]]%N []
            = Ok (t, [[3]; [7]]%N) /\ tty t = [1;2;4]%N /\ is_empty (tq t) = true.
Proof. eexists. vm_compute. repeat split; reflexivity. Qed.

(* ... and as repaired (e293376): frames_drop queues the query again, it arrives ahead of the next frame *)
Example C16_size_query_requeued_example :
  exists t, trun term0 [TWrite [1;2]; TPoll [KAccept 1]; TWrite [3]; TPoll [KIdle; KInternal [7]]; TDrop; TWrite [7];
                        TWrite [4]; TPoll [KAccept 9; KAccept 9]]%N []
            = Ok (t, [[3]; [7]]%N) /\ tty t = [1;2;7;4]%N /\ is_empty (tq t) = true.
Proof. eexists. vm_compute. repeat split; reflexivity. Qed.

(* progress is not vacuous: five bytes in two chunks (work 7 counts the open chunk too); the kernel
   refuses twice, is idle once and accepts one byte at a time: seven accepting rounds drain it *)
Example C16_progress_nonvacuous :
  let prog := [TWrite [1;2;3]; TFlush; TWrite [4;5]]%N in
  let sched := [KAccept 1; KAccept 0; KIdle; KAccept 1; KAccept 1; KAccept 0; KAccept 1; KAccept 1;
                KAccept 1; KAccept 1]%N in
  exists t t', trun term0 prog [] = Ok (t, []) /\ work t <= accepting_count sched /\ Forall quiet sched
    /\ poll_rounds t sched = Ok t' /\ is_empty (tq t') = true /\ tty t' = [1;2;3;4;5]%N.
Proof.
  do 2 eexists. split; [vm_compute; reflexivity|]. split; [vm_compute; repeat constructor|].
  split; [repeat constructor|]. vm_compute. repeat split; reflexivity.
Qed.

(* a reachable state with a partly consumed front chunk and two more chunks *)
Example C16_reachable_example :
  reachable (mkQ [[1;2;3]; [4;5]; []]%N 2 3).
Proof.
  exists [OWrite [1;2;3]; OFlush; OWrite [4;5]; OFlush; OConsumeWith 2 true]%N, [1;2]%N, [].
  split; [vm_compute; discriminate|]. vm_compute. reflexivity.
Qed.

(* terminal object: a frame of five bytes goes out in short writes 2 + EAGAIN + 1, a second and
   third frame pile up, frames_drop discards them whole, the rest of the first frame follows *)
Example C16_term_example :
  exists t, trun term0 [TWrite [1;2;3;4;5]; TPoll [KAccept 2; KAccept 0; KIdle; KAccept 1];
                        TExecute [[6];[7]]; TFlush; TWrite [8]; TPoll [KAccept 0];
                        TDrop; TWrite [9]; TPoll [KAccept 9; KAccept 9]]%N []
            = Ok (t, [[6;7]; [8]; []]%N)
    /\ tty t = [1;2;3;4;5;9]%N /\ is_empty (tq t) = true /\ sent t = 6.
Proof. eexists. vm_compute. repeat split; reflexivity. Qed.
