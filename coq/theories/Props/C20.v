(* C20 — colours reduced for 256-colour and grey terminals are the closest
   available ones.  Statements only; proofs in Encoder/Color256Proofs.v.

   All quantities are exact rationals (times the fixed denominators of
   Gen/TabColor.v); the tables are regenerated from the source on every run:
   CUBE / GREYS / grey levels of src/encoder.rs as exact decimals, and the
   library's sRGB->linear conversion of the 256 channel values (exact values of
   the f32 results).

   WHAT IS PROVED AND WHAT IS RUN.  The theorems are about the EXACT-RATIONAL
   algorithm (names `_exact_model`); the implementation evaluates the same
   algorithm in f32, which is not modelled.  EPSILON = 1e-6 linear-light units
   (Color256.tol256) is the single tolerance:
     - proved: every typed table constant is within eps of the library's own
       linearisation (C20_tables); hence the exact model's entry, measured at the
       true palette positions, is closest up to 12 eps = 1.2e-5 in SQUARED distance
       (C20_closest_256_true_palette_upto_eps_exact_model).  NOTE this is weaker than what is run: in
       DISTANCE it only gives an excess below sqrt(1.2e-5) = 3.5e-3 (reached when the optimum is at
       distance 0) and 6e-6 / d_min for an optimum at distance d_min;
     - run on every check, exhaustively over all 2^24 colours x 3 roles (harness
       tool c20sweep, exact integers) and on the sampled Coq cases: the entry the
       f32 implementation emits is within eps in DISTANCE of the brute-force
       optimum at the true palette positions (observed: 30 colours not exactly
       optimal, worst excess 2.62e-7); an entry that differs from the exact model's
       (not an exact optimum over the typed tables) is reported as a difference
       (observed: none); grey: nearest level and monotonicity within 1e-6 in luma.

   FINAL STATE.  Counted (Theorem, 7): C20_algorithm_exact_model, C20_tables, C20_closest_256_exact_model,
   C20_closest_256_true_palette_upto_eps_exact_model, C20_gray_nearest_exact_model, C20_gray_monotone_exact_model,
   C20_roles_exact_model.  Audited, not counted: Lemmas C20_tolerance_predicate_sound / _complete / _squares,
   C20_truecolor (re-export of C05_face_exact), C20_bruteforce_is_minimum; Examples C20_nonvacuous,
   C20_gray_levels_are_vga.  Spec decisions: grey levels = VGA luminances, no grey underline colour, opaque
   colours only (props.d/C20.py assumptions).  No defect found. *)
From Coq Require Import List NArith ZArith Bool Sorted.
From SNT Require Import Base.Outcome Encoder.Encode Encoder.Color256 Encoder.Color256Proofs Encoder.VT Encoder.Denote
  Encoder.EncodeMeaning Encoder.EncodeC20 Gen.TabColor.
Import ListNotations.
Local Open Scope Z_scope.

(* 1. the algorithm, for ALL channel values (any rationals) and ANY strictly increasing
      tables of 6 cube levels and 24 greys: the index is a non-system one and its entry
      minimises the Euclidean distance among all 240 entries the tables describe *)
Theorem C20_algorithm_exact_model :
  forall (cube greys : list Z) (v : vec),
  StronglySorted Z.lt cube -> length cube = 6%nat -> StronglySorted Z.lt greys -> length greys = 24%nat ->
  (16 <= pal_algo cube greys v < 256)%N /\
  forall m, (16 <= m < 256)%N ->
    d2 v (entry cube greys (pal_algo cube greys v)) <= d2 v (entry cube greys m).
Proof. exact pal_algo_optimal. Qed.

(* 2. the tables in the source (re-checked on the regenerated data): strictly increasing,
      of the right lengths, and every typed constant within 1e-6 of the library's own
      linearisation of the xterm level it stands for (cube 0,95,135,175,215,255; greys 8+10k) *)
Theorem C20_tables : tables_ok = true.
Proof. exact tables_ok_true. Qed.

(* 3. hence for every 8-bit colour the exact model picks a closest entry among all 240
      non-system ones, positions as typed in the tables *)
Theorem C20_closest_256_exact_model :
  forall c : rgba, rgba_ok c = true -> ca c = 255%N ->
  (* scope, not used by the proof: the model looks channels up in the 256-entry table and ignores alpha,
     the code premultiplies by alpha -- the statement is claimed for opaque 8-bit colours only *)
  (16 <= pal256_exact c < 256)%N /\
  forall m, (16 <= m < 256)%N ->
    d2 (lin_vec c) (entry cube_z greys_z (pal256_exact c)) <= d2 (lin_vec c) (entry cube_z greys_z m).
Proof. exact pal256_exact_optimal_opaque. Qed.

(* 3b. EPSILON statement: at the TRUE palette positions (library's own linearisation of the
       xterm levels 0,95,135,175,215,255 / 8+10k) the exact model's entry is closest up to
       eps_sq_bound = 12 * eps * 1 in squared linear-light distance, eps = 1e-6 *)
Theorem C20_closest_256_true_palette_upto_eps_exact_model :
  forall (c : rgba), rgba_ok c = true -> ca c = 255%N -> forall m, (16 <= m < 256)%N ->
    d2 (lin_vec c) (entry xcube_z xgreys_z (pal256_exact c))
    <= d2 (lin_vec c) (entry xcube_z xgreys_z m) + eps_sq_bound.
Proof. exact pal256_true_palette_upto_eps_opaque. Qed.

(* 3c. lemmas about the CHECKER: the tolerance predicate of the correspondence check stands for
       sqrt xx <= sqrt yy + eps.  It is applied to sums of three squares (d2), which are not perfect
       squares: the first two lemmas sandwich it between integer bounds of the two roots (units of
       1/color_den = 7.5e-15), the third is the special case of perfect squares. *)
Lemma C20_tolerance_predicate_sound :
  forall xx yy e a b, 0 <= a -> 0 <= b -> 0 <= e -> a * a <= xx -> yy <= b * b ->
  sqrt_le_plus xx yy e = true -> a <= b + e.
Proof. exact sqrt_le_plus_sound. Qed.
Lemma C20_tolerance_predicate_complete :
  forall xx yy e a b, 0 <= a -> 0 <= b -> 0 <= e -> 0 <= yy -> xx <= a * a -> b * b <= yy -> a <= b + e ->
  sqrt_le_plus xx yy e = true.
Proof. exact sqrt_le_plus_complete. Qed.
Lemma C20_tolerance_predicate_squares :
  forall a b e, 0 <= a -> 0 <= b -> 0 <= e -> (sqrt_le_plus (a * a) (b * b) e = true <-> a <= b + e).
Proof. exact sqrt_le_plus_squares. Qed.

(* 4. grey depth (exact model): the level is a nearest of the four by luma -- the four luminances
      being those of the VGA system colours 0, 8, 7, 15 = 0, 1/3, 2/3, 1 (spec decision, see
      Color256.tables_ok and C20_tables) ... *)
Theorem C20_gray_nearest_exact_model :
  forall c : rgba,
  (gray4_exact c < 4)%N /\
  forall j, (j < 4)%nat ->
    Z.abs (luma_z c - nthz gray_levels_z (N.to_nat (gray4_exact c))) <= Z.abs (luma_z c - nthz gray_levels_z j).
Proof. exact gray4_exact_nearest. Qed.

(*    ... and increases monotonically with it.  FOR THE CODE monotonicity is run, exhaustively, by
      c20sweep: no level decreases when the exact luma increases by more than 1e-6 (observed: no
      inversion at all between different luma values; at the 3 luma values that are exact ties between
      two levels, colours of equal luma get either level -- corpus/C20/002-gray-ties.jsonl) *)
Theorem C20_gray_monotone_exact_model :
  forall c1 c2 : rgba, luma_z c1 <= luma_z c2 -> (gray4_exact c1 <= gray4_exact c2)%N.
Proof. exact gray4_exact_monotone. Qed.

(* 5. true colour: the channels are transmitted unchanged (whatever the prior rendition) *)
(* re-export of C05_face_exact, not an obligation of its own *)
Lemma C20_truecolor :
  forall (pal256 gray4 : rgba -> N), (forall c, (pal256 c < 256)%N) ->
  forall (glyphs kitty : bool) (f : face), cmd_ok (Face f) = true ->
  exists bs t, encode pal256 gray4 (mkCaps TrueColor glyphs kitty) (Face f) = Ok bs /\
    vt_ops bs = [OSgr t] /\ t_bad t = false /\
    forall prior : rendition, rt_apply t prior = face_rendition f.
Proof. exact c05_face_exact_thm. Qed.

(* 6. ROLES x DEPTHS: the bytes the encoder model (with the reduction inside, encode_c20) emits for
      FaceModify { fg, bg, underline_color } are one complete SGR sequence that sets exactly
        true colour   the three colours with unchanged channels,
        256 colours   the palette indices pal256_exact of the three colours,
        grey          the system colour of the level gray4_exact for fg and bg, and NOTHING for the
                      underline colour (the library sends no grey rendering of it: a decision of
                      the code, recorded here as part of the specification),
      and touches no other aspect of the rendition. *)
Theorem C20_roles_exact_model :
  forall d glyphs kitty fg bg ul,
  rgba_ok fg = true -> rgba_ok bg = true -> rgba_ok ul = true ->
  ca fg = 255%N -> ca bg = 255%N -> ca ul = 255%N ->          (* scope: opaque colours *)
  exists bs,
    encode_c20 (mkCaps d glyphs kitty) (FaceModify (colours_fm fg bg ul)) = Ok bs /\
    vt_complete bs = true /\
    vt_ops bs =
      [OSgr match d with
            | TrueColor => only_colours (Some (CRgb (cr fg) (cg fg) (cb fg))) (Some (CRgb (cr bg) (cg bg) (cb bg)))
                                        (Some (CRgb (cr ul) (cg ul) (cb ul)))
            | EightBit => only_colours (Some (CIdx (pal256_exact fg))) (Some (CIdx (pal256_exact bg)))
                                       (Some (CIdx (pal256_exact ul)))
            | Gray => only_colours (Some (CIdx (gray_entry (gray4_exact fg)))) (Some (CIdx (gray_entry (gray4_exact bg))))
                                   None
            end].
Proof. exact c20_roles_opaque. Qed.

(* 7. the brute-force minimum used by the correspondence predicate (best_d2_tab: the 240 true
      palette positions, tabulated once) is below the distance of every entry *)
(* a lemma about the CHECKER (lower bound only: the tabulated minimum is below every entry's distance) *)
Lemma C20_bruteforce_is_minimum :
  forall v m, (16 <= m < 256)%N -> best_d2_tab v <= d2 v (entry xcube_z xgreys_z m).
Proof. exact best_d2_tab_spec. Qed.

Check C20_closest_256_exact_model :
  forall c : rgba, rgba_ok c = true -> ca c = 255%N ->
  (16 <= pal256_exact c < 256)%N /\
  forall m, (16 <= m < 256)%N ->
    d2 (lin_vec c) (entry cube_z greys_z (pal256_exact c)) <= d2 (lin_vec c) (entry cube_z greys_z m).

Example C20_nonvacuous :
  eps_sq_bound * 1000000 = 12 * color_den * color_den /\
  pal256_exact (mkRgba 128 128 128 255) = 244%N /\          (* a grey-ramp entry beats the cube *)
  pal256_exact (mkRgba 255 0 0 255) = 196%N /\              (* a cube corner *)
  pal256_exact (mkRgba 3 3 3 255) = 16%N /\                 (* cube black beats the darkest grey *)
  gray4_exact (mkRgba 40 40 40 255) = 0%N /\ gray4_exact (mkRgba 235 219 178 255) = 3%N /\
  face_rendition (mkFace (Some (mkRgba 1 2 3 255)) None 0) =
    mkRend INormal false LNone false false false false (CRgb 1 2 3) CDefault CDefault.
Proof. vm_compute. repeat split; reflexivity. Qed.

(* the grey-level decision in numbers: the levels are the VGA luminances 0, 1/3, 2/3, 1 (within 0.01);
   a mid grey of luma .549 goes to level 2 = colour 7 (VGA .667; in xterm's palette colour 7 has luma
   .898 and colour 8, luma .498, would be nearer there -- the decision recorded in Color256.tables_ok) *)
Example C20_gray_levels_are_vga :
  map (fun c => luma_z c) [mkRgba 0 0 0 255; mkRgba 85 85 85 255; mkRgba 170 170 170 255; mkRgba 255 255 255 255]
    = [0; 850000; 1700000; 2550000] /\
  gray_levels_z = [0; 841500; 1683000; 2550000] /\
  gray4_exact (mkRgba 140 140 140 255) = 2%N /\
  luma_z (mkRgba 140 140 140 255) = 1400000 /\
  (* exact ties between two levels exist among the 8-bit colours (the tie rule sends them up) *)
  luma_z (mkRgba 29 28 220 255) = 420750 /\ luma_z (mkRgba 12 38 171 255) = 420750 /\
  2 * 420750 = nth 0 gray_levels_z 0 + nth 1 gray_levels_z 0 /\
  gray4_exact (mkRgba 29 28 220 255) = 1%N.
Proof. vm_compute. repeat split; reflexivity. Qed.
