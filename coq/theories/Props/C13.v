(* C13 - colour quantisation: bounded palette, valid indices, exact nearest-colour search.
   Statements only; proofs in Image/{KDTreeProofs,OctreePath,OctreeProofs,OctreeExact,QuantizeProofs,
   QuantizeExact,QuantizeDither}.v.
   Counted theorems (5): C13_nearest, C13_palette_upto_2p56px, C13_quantize_upto_2p56px,
   C13_palette_exact_upto_2p56px, C13_exact_upto_2p56px.  Lemmas (audited, not counted):
   C13_nearest_predicate, C13_octree_path, C13_machine_words, C13_index_any_query,
   C13_dither_slots.  Examples: C13_*_nonvacuous.
   Restrictions: images / colour lists of at most 2^56 entries (the `_upto_2p56px` theorems; the
   accumulator widths come from Gen/TabOctree.v, regenerated on every run), requested size >= 1. *)
From Coq Require Import List NArith ZArith Bool Lia ZifyNat ZifyN.
From SNT Require Import Base.Outcome Image.KDTree Image.Octree Image.Quantize
     Image.KDTreeProofs Image.OctreePath Image.OctreeProofs Image.OctreeExact Image.QuantizeProofs Image.QuantizeExact
     Image.QuantizeDither Gen.TabOctree.
Import ListNotations.

(* Nearest-colour lookup: for EVERY palette (any length >= 1, duplicates, clustered
   values) and EVERY query, the k-d tree built as coded and searched as coded returns
   an index i and colour c with pal[i] = c at minimal squared Euclidean distance. *)
Theorem C13_nearest : forall (pal : list rgb) (q : rgb),
  pal <> [] ->
  exists i c, kd_find (build pal) q = Ok (i, c) /\ is_nearest pal q i c.
Proof. exact kd_nearest. Qed.

(* the brute-force predicate evaluated on the implementation's answers is that notion *)
(* (auxiliary: ties the executable predicate to the notion above; not counted as an obligation) *)
Lemma C13_nearest_predicate : forall pal q i c,
  is_nearestb pal q i c = true <-> is_nearest pal q i c.
Proof. exact is_nearestb_spec. Qed.

(* OcTreePath as coded (r,g,b packed in one u32, `& 0x808080`, `<< 1 & 0xfefefe`, shifts by
   21/14/7) is, for EVERY colour, the lane-wise bit path the octree theorems reason about
   (the model's insert uses the packed form). *)
(* (model-internal: not counted as an obligation of the property) *)
Lemma C13_octree_path : forall c, rgb_ok c = true -> path_packed c = path_of c.
Proof. exact path_packed_eq. Qed.

(* Machine words.  The leaf accumulators are modelled with the widths the source declares
   (Gen/TabOctree.v, regenerated every run; `+=` panics on overflow in the model as in a debug
   build).  The theorems named `_upto_2p56px` assume that an image (a colour list) has at most
   max_pixels = 2^56 entries; that no accumulator overflows under this bound is proved INSIDE
   them (invariants `ratio` and `mass` of OctreeProofs.wf_node: insert_rec_wf, prune_rec_wf,
   oc_prune_wf).  The lemma below is only the arithmetic that connects the bound to the
   declared widths: 255 * 2^56 < 2^leaf_acc_bits, 2^56 < 2^leaf_count_bits, the other counters
   hold 2^56, 3 * 255^2 fits the k-d distance type, Rnd's state is the 32-bit word the model
   wraps at, the f32 significand (24, derived from the declared element type of ColorError)
   covers the 16 bits the slot bound needs, the palette index carried by a k-d node (field and
   casts) holds every index of a palette of at most 2^56 entries.  A narrower declared type breaks it (the whole
   file then fails to build) and props.d/C13.py turns the widths into a failing input. *)
Lemma C13_machine_words :
  (forall n, (n <= max_pixels)%N -> (255 * n < leaf_acc_limit /\ n < leaf_count_limit)%N) /\
  leaf_acc_limit = (2 ^ leaf_acc_bits)%N /\ leaf_count_limit = (2 ^ leaf_count_bits)%N /\
  (max_pixels < 2 ^ info_leaf_bits /\ max_pixels < 2 ^ info_color_bits /\ max_pixels < 2 ^ info_min_bits /\
   max_pixels < 2 ^ leaf_index_bits)%N /\
  (3 * 255 * 255 < 2 ^ kd_dist_bits)%N /\ (255 < 2 ^ kd_color_bits)%N /\
  rnd_state_bits = 32%N /\ (16 <= color_error_significand_bits)%N /\
  (max_pixels < 2 ^ kd_index_bits)%N.
Proof. exact machine_words. Qed.

(* Octree pipeline of ColorPalette::from_image: for every non-empty list of at most 2^56
   byte colours and every requested size, insertion never panics, prune_until terminates
   within oc_measure rounds (its fuel) although cached infos go stale, and the
   palette has between 1 and max(k, 8) colours. *)
Theorem C13_palette_upto_2p56px : forall (cs : list rgb) (k : N),
  cs <> [] -> Forall (fun c => rgb_ok c = true) cs -> (N.of_nat (length cs) <= max_pixels)%N ->
  exists t t' pal,
    oc_extend oc_new cs = Ok t /\ prune_until k t = Ok t' /\ build_palette t' = Ok pal /\
    (1 <= length pal)%nat /\ (N.of_nat (length pal) <= N.max k 8)%N.
Proof. exact palette_bounds. Qed.

(* Image::quantize on every non-empty rectangular image of at most 2^56 pixels (img_ok;
   subsampled or not), every
   k >= 1, both dithering settings: it succeeds; palette bounds; the index image has
   the input's size; every index refers to a palette colour (for any dithering
   error: the bound holds for whatever colour is looked up); without dithering each
   pixel is mapped to a palette colour at minimal distance. *)
Theorem C13_quantize_upto_2p56px : forall (im : img) (k : N) (dither : bool),
  img_ok im -> (1 <= k)%N ->
  exists pal q,
    quantize im k dither = Ok (pal, q) /\
    (1 <= length pal)%nat /\ (N.of_nat (length pal) <= N.max k 8)%N /\
    Forall2 (fun (row : list rgb) (qrow : list N) => length qrow = length row) im q /\
    Forall (Forall (fun i => (i < N.of_nat (length pal))%N)) q /\
    (dither = false ->
     Forall2 (Forall2 (fun p i => exists c, is_nearest pal p i c)) im q).
Proof. exact quantize_spec. Qed.

(* index validity does not depend on what the error diffusion produced *)
(* (auxiliary consequence of C13_nearest) *)
Lemma C13_index_any_query : forall pal q i c,
  kd_find (build pal) q = Ok (i, c) ->
  (i < N.of_nat (length pal))%N /\ nth_error pal (N.to_nat i) = Some c.
Proof. exact kd_find_index. Qed.

(* If the distinct colours fit max(k, 8) — in particular if they fit the requested
   size k — the octree prunes nothing and the palette contains every colour. *)
Theorem C13_palette_exact_upto_2p56px : forall (cs : list rgb) (k : N),
  Forall (fun c => rgb_ok c = true) cs -> (N.of_nat (length cs) <= max_pixels)%N ->
  (N.of_nat (length (nodup_rgb cs)) <= N.max k 8)%N ->
  exists t pal,
    oc_extend oc_new cs = Ok t /\ prune_until k t = Ok t /\ build_palette t = Ok pal /\
    forall c, In c cs -> In c pal.
Proof. exact palette_exact. Qed.

(* An image whose distinct colours fit the palette and that is below the
   subsampling threshold is reproduced exactly, with or without dithering:
   pal[q[r][c]] = im[r][c] for every pixel. *)
Theorem C13_exact_upto_2p56px : forall (im : img) (k : N) (dither : bool),
  img_ok im -> (1 <= k)%N ->
  (distinct_colors im <= N.max k 8)%N -> (sample_of im k < 2)%N ->
  exists pal q,
    quantize im k dither = Ok (pal, q) /\
    Forall2 (Forall2 (fun p i => nth_error pal (N.to_nat i) = Some p)) im q.
Proof. exact quantize_exact. Qed.

(* (auxiliary, about the Z model of the error rows only) ONE ROW of the dithered loop carries
   the slot invariant (every slot within 4080 sixteenths = 255.0) from column to column
   whenever look-ups return byte colours; QuantizeDither.swap_slots / initial_slots
   re-establish it between rows.  Nothing here speaks about binary32: that the code's f32
   values are then exactly these rationals is an argument in design/C13.md (multiples of
   1/16 below 2^8 need 12 of the 24 significand bits), not a Coq statement. *)
Lemma C13_dither_slots : forall (find : rgb -> outcome (N * rgb)),
  (forall q i c, find q = Ok (i, c) -> rgb_ok c = true) ->
  forall px col cur nxt ixs cur' nxt',
    Forall (fun c => rgb_ok c = true) px ->
    slots_ok col cur nxt ->
    quant_row find true col px cur nxt = Ok (ixs, cur', nxt') ->
    slots_ok (col + length px) cur' nxt'.
Proof. exact quant_row_slots. Qed.

Check C13_nearest : forall (pal : list rgb) (q : rgb), pal <> [] ->
  exists i c, kd_find (build pal) q = Ok (i, c) /\ is_nearest pal q i c.

(* non-vacuity: duplicates and ties; the 9-colours-for-8 case collapses to 2 colours *)
Example C13_nearest_nonvacuous :
  kd_find (build [(10, 10, 10); (10, 10, 10); (20, 10, 10); (0, 0, 255)]%N) (15, 10, 10)%N
  = Ok (1%N, (10, 10, 10)%N).   (* a distance tie, a duplicated entry *)
Proof. vm_compute. reflexivity. Qed.

Example C13_palette_nonvacuous :
  (let cs := [(0,0,0); (0,0,1); (0,1,0); (0,1,1); (1,0,0); (1,0,1); (1,1,0); (1,1,1); (255,255,255)]%N in
   let* t := oc_extend oc_new cs in let* t' := prune_until 8 t in build_palette t')
  = Ok [(0, 0, 0); (255, 255, 255)]%N.
Proof. vm_compute. reflexivity. Qed.

Example C13_exact_nonvacuous :
  (distinct_colors [[(1,2,3); (200,2,3)]; [(1,2,3); (7,7,7)]]%N <= N.max 2 8)%N /\
  (sample_of [[(1,2,3); (200,2,3)]; [(1,2,3); (7,7,7)]]%N 2 < 2)%N.
Proof. split; [apply N.leb_le; vm_compute; reflexivity|apply N.ltb_lt; vm_compute; reflexivity]. Qed.

(* requested sizes above usize::MAX / 100 (the product `palette_size * 100` saturates) *)
Example C13_huge_size_nonvacuous :
  quantize [[(1,2,3); (200,2,3)]; [(1,2,3); (7,7,7)]]%N 4611686018427387904 true
  = Ok ([(1,2,3); (7,7,7); (200,2,3)]%N, [[0; 2]; [0; 1]]%N) /\
  (sample_of [[(1,2,3); (200,2,3)]; [(1,2,3); (7,7,7)]]%N 368934881474191033 < 2)%N.
Proof. split; [vm_compute; reflexivity|apply N.ltb_lt; vm_compute; reflexivity]. Qed.

(* the sub-sampled branch: 14 x 15 pixels requested in one colour (sample factor 2) *)
Example C13_sampled_nonvacuous :
  let im := map (fun y => map (fun x => (N.of_nat (17 * x), N.of_nat (9 * y), 3%N)) (seq 0 15)) (seq 0 14) in
  img_ok im /\ (2 <= sample_of im 1)%N /\
  match quantize im 1 false with Ok (pal, q) => (length pal, length q) = (8%nat, 14%nat) | _ => False end.
Proof.
  cbv zeta. split; [|split].
  - split; [intros H; vm_compute in H; discriminate|]. split; [vm_compute; discriminate|].
    split; [vm_compute; reflexivity|]. split; [|apply N.leb_le; vm_compute; reflexivity].
    apply Forall_forall. intros r Hr. apply in_map_iff in Hr. destruct Hr as (y & <- & Hy).
    apply Forall_forall. intros p Hp. apply in_map_iff in Hp. destruct Hp as (x & <- & Hx).
    apply in_seq in Hy. apply in_seq in Hx. unfold px_ok, rgb_ok.
    apply andb_true_iff; split; [apply andb_true_iff; split|]; apply N.ltb_lt; lia.
  - apply N.leb_le. vm_compute. reflexivity.
  - vm_compute. reflexivity.
Qed.

Example C13_dither_slots_nonvacuous :
  let find := kd_find (build [(0, 0, 0); (255, 255, 255)]%N) in
  slots_ok 0 (repeat err0 5) (repeat err0 5) /\
  match quant_row find true 0 [(100, 100, 100); (100, 100, 100); (100, 100, 100)]%N (repeat err0 5) (repeat err0 5) with
  | Ok (ixs, cur', nxt') => ixs = [0; 1; 0]%N /\ nth 2 nxt' err0 <> err0
  | _ => False
  end.
Proof. cbv zeta. split; [apply initial_slots|vm_compute; split; [reflexivity|discriminate]]. Qed.

Example C13_quantize_nonvacuous :
  img_ok [[(1,2,3); (200,2,3)]; [(1,2,3); (7,7,7)]]%N /\
  quantize [[(1,2,3); (200,2,3)]; [(1,2,3); (7,7,7)]]%N 2 true
  = Ok ([(1,2,3); (7,7,7); (200,2,3)]%N, [[0; 2]; [0; 1]]%N).
Proof.
  split; [|vm_compute; reflexivity].
  repeat split; try discriminate; try (apply N.leb_le; vm_compute; reflexivity); repeat constructor.
Qed.
