(* C13 — colour quantisation: bounded palette, valid indices, exact nearest-colour search.
   Statements only (placeholder while the proofs are being built). *)
From Coq Require Import List NArith ZArith Bool.
From SNT Require Import Base.Outcome Image.KDTree Image.Octree Image.Quantize.
Import ListNotations.

Example C13_smoke :
  kd_find (build [(0, 0, 0); (255, 255, 255); (10, 10, 10)]%N) (9, 9, 9)%N = Ok (2%N, (10, 10, 10)%N).
Proof. vm_compute. reflexivity. Qed.
