(* C14 — the streaming base64 codec follows RFC 4648 and round-trips under any
   chunking.  Statements only; each is closed by a lemma proved elsewhere.
   Counted: the 7 Theorems.  Audited, not counted: the three Examples and Check pins.
   encode_chunks / decode_all = model of Base64Encoder / Base64Decoder (Encoder/Base64.v);
   rfc4648 = the specification; sched = what the inner reader returns per call, dests = sizes
   of the caller's buffers.  Assumed: the reader returns 0 only at end of input. *)
From Coq Require Import List NArith Arith.
From SNT Require Import Base.Outcome Gen.TabBase64 Encoder.Base64
  Encoder.Base64Proofs Encoder.Base64DecProofs Encoder.Base64Prog Encoder.Base64ProgProofs.
Import ListNotations.
Local Open Scope N_scope.

(* every byte string, every partition into write calls *)
Theorem C14_encode : forall chunks : list (list N),
  bytes_ok (concat chunks) = true ->
  encode_chunks chunks = rfc4648 (concat chunks).
Proof. exact encode_chunks_rfc. Qed.

(* every byte string, every read schedule of the inner reader (including one
   byte at a time), every sequence of destination buffer sizes *)
Theorem C14_decode : forall (x : list N) (sched dests : list nat),
  bytes_ok x = true ->
  decode_all (rfc4648 x) sched dests = Ok x.
Proof. exact decode_all_roundtrip. Qed.

(* text whose length is not a multiple of four is an error, never a truncated Ok *)
Theorem C14_reject : forall (text : list N) (sched dests : list nat),
  (length text mod 4 <> 0)%nat ->
  decode_all text sched dests = Err 1.
Proof. exact decode_all_reject. Qed.

(* arbitrary bytes: the slice bound in buffer_fill is never exceeded and the
   model's fuel always suffices (termination) *)
Theorem C14_nopanic : forall (text : list N) (sched dests : list nat),
  match decode_all text sched dests with
  | Ok _ | Err _ => True
  | Panic _ | OutOfFuel => False
  end.
Proof. exact decode_all_total. Qed.

(* ONE decoder consumed by ANY program of operations of the std::io::Read surface (read n,
   read_exact n, read_to_end / read_to_string, read_vectored, bytes() k times, take(n), BufReader
   wrappers; Encoder/Base64Prog.v defines them as the iterations of `read` that std's default
   methods are — an assumption about std, and about the crate not overriding them: anchored by
   translate/c14impl.py): no operation fails, the bytes handed out, in order, are a prefix of x —
   nothing repeated, nothing lost — and when the program ran to its end and contains a draining
   operation they are exactly x.  (read_exact past the end stops the program with UnexpectedEof.) *)
Theorem C14_programs : forall (x : list N) (sched : list nat) (ops : list dop),
  bytes_ok x = true ->
  let rs := decode_prog (rfc4648 x) sched ops in
  (forall r, In r rs -> r <> Failed /\ r <> Bad) /\
  (exists rest, x = gotten rs ++ rest) /\
  (all_got rs = true -> In OToEnd ops -> gotten rs = x).
Proof. exact decode_prog_roundtrip. Qed.

(* ONE encoder fed by any program of write operations (write / write_all / write_fmt, write_vectored
   with std's default "first non-empty buffer", flush anywhere), then finish(): the RFC 4648 text
   of the bytes the encoder accepted *)
Theorem C14_encode_programs : forall ops : list eop,
  bytes_ok (accepted_all ops) = true ->
  snd (encode_prog ops true) = rfc4648 (accepted_all ops).
Proof. exact encode_prog_rfc. Qed.

(* the tables in the source are the RFC alphabet and its inverse (regenerated data) *)
Theorem C14_tables : forall i, i < 64 ->
  tbl_enc i = rfc_char i /\ tbl_dec (rfc_char i) = i.
Proof. intros i H. split; [apply enc_tbl_is_rfc|apply dec_tbl_inverts_rfc]; exact H. Qed.

Check C14_encode : forall chunks : list (list N),
  bytes_ok (concat chunks) = true -> encode_chunks chunks = rfc4648 (concat chunks).
Check C14_decode : forall (x : list N) (sched dests : list nat),
  bytes_ok x = true -> decode_all (rfc4648 x) sched dests = Ok x.
Check C14_reject : forall (text : list N) (sched dests : list nat),
  (length text mod 4 <> 0)%nat -> decode_all text sched dests = Err 1.

(* non-vacuity: "Man" written as "M","an"; "TWFu" read one byte at a time into 1-byte buffers *)
Example C14_encode_example :
  encode_chunks [[77]; [97; 110]] = [84; 87; 70; 117] /\ bytes_ok [77; 97; 110] = true.
Proof. vm_compute. split; reflexivity. Qed.
Example C14_decode_example :
  decode_all [84; 87; 70; 117] [1; 1; 1; 1]%nat [1]%nat = Ok [77; 97; 110].
Proof. vm_compute. reflexivity. Qed.
(* a header sniffed with read(5) and read_exact(2), then read_to_end: "Many hands" *)
Example C14_programs_example :
  decode_prog (rfc4648 [77; 97; 110; 121; 32; 104; 97; 110; 100; 115]) [1; 2; 3]%nat [ORead 5; OExact 2; OToEnd]
  = [Got [77; 97; 110; 121; 32]; Got [104; 97]; Got [110; 100; 115]].
Proof. vm_compute. reflexivity. Qed.
Example C14_reject_example :
  decode_all [84; 87; 70; 117; 84] [] [] = Err 1.
Proof. vm_compute. reflexivity. Qed.
