(* C14 — the streaming base64 codec follows RFC 4648 and round-trips under any
   chunking.  Statements only; each is closed by a lemma proved elsewhere.
   Counted: the 5 Theorems.  Audited, not counted: the three Examples and Check pins.
   encode_chunks / decode_all = model of Base64Encoder / Base64Decoder (Encoder/Base64.v);
   rfc4648 = the specification; sched = what the inner reader returns per call, dests = sizes
   of the caller's buffers.  Assumed: the reader returns 0 only at end of input. *)
From Coq Require Import List NArith Arith.
From SNT Require Import Base.Outcome Gen.TabBase64 Encoder.Base64
  Encoder.Base64Proofs Encoder.Base64DecProofs.
Import ListNotations.
Local Open Scope N_scope.

(* every byte string, every partition into write calls *)
Theorem C14_encode : forall chunks : list (list N),
  bytes_ok (concat chunks) = true ->
  encode_chunks chunks = rfc4648 (concat chunks).
Proof. exact encode_chunks_rfc. Qed.

(* every byte string, every read schedule of the inner reader (including one
   byte at a time), every sequence of destination buffer sizes *)
Theorem C14_decode : forall (x : list N) (sched dests : list nat),
  bytes_ok x = true ->
  decode_all (rfc4648 x) sched dests = Ok x.
Proof. exact decode_all_roundtrip. Qed.

(* text whose length is not a multiple of four is an error, never a truncated Ok *)
Theorem C14_reject : forall (text : list N) (sched dests : list nat),
  (length text mod 4 <> 0)%nat ->
  decode_all text sched dests = Err 1.
Proof. exact decode_all_reject. Qed.

(* arbitrary bytes: the slice bound in buffer_fill is never exceeded and the
   model's fuel always suffices (termination) *)
Theorem C14_nopanic : forall (text : list N) (sched dests : list nat),
  match decode_all text sched dests with
  | Ok _ | Err _ => True
  | Panic _ | OutOfFuel => False
  end.
Proof. exact decode_all_total. Qed.

(* the tables in the source are the RFC alphabet and its inverse (regenerated data) *)
Theorem C14_tables : forall i, i < 64 ->
  tbl_enc i = rfc_char i /\ tbl_dec (rfc_char i) = i.
Proof. intros i H. split; [apply enc_tbl_is_rfc|apply dec_tbl_inverts_rfc]; exact H. Qed.

Check C14_encode : forall chunks : list (list N),
  bytes_ok (concat chunks) = true -> encode_chunks chunks = rfc4648 (concat chunks).
Check C14_decode : forall (x : list N) (sched dests : list nat),
  bytes_ok x = true -> decode_all (rfc4648 x) sched dests = Ok x.
Check C14_reject : forall (text : list N) (sched dests : list nat),
  (length text mod 4 <> 0)%nat -> decode_all text sched dests = Err 1.

(* non-vacuity: "Man" written as "M","an"; "TWFu" read one byte at a time into 1-byte buffers *)
Example C14_encode_example :
  encode_chunks [[77]; [97; 110]] = [84; 87; 70; 117] /\ bytes_ok [77; 97; 110] = true.
Proof. vm_compute. split; reflexivity. Qed.
Example C14_decode_example :
  decode_all [84; 87; 70; 117] [1; 1; 1; 1]%nat [1]%nat = Ok [77; 97; 110].
Proof. vm_compute. reflexivity. Qed.
Example C14_reject_example :
  decode_all [84; 87; 70; 117; 84] [] [] = Err 1.
Proof. vm_compute. reflexivity. Qed.
