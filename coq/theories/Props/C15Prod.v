(* C15 — the production automata of src/decoder.rs.  Statements only; a separate
   target, so that a production certificate that no longer checks breaks these
   three obligations and not the general theorems of Props/C15.v. *)
From Coq Require Import List NArith Bool.
From SNT Require Automata.ProdInstances Gen.ProdNFA Gen.ProdDFA.
Import ListNotations.

(* The production automata of src/decoder.rs (anchor decoder.rs:457-1028): each
   compiled DFA, as dumped from the running code on this run, is the subset
   construction of the NFA it was compiled from, as dumped right before
   compile(): running the DFA on any byte string is dead exactly when no NFA
   state is reachable, otherwise accepting / tags / terminal are those of the
   set of reachable NFA states.  Translation validation: a verified certificate
   checker (Automata/ProdCheck.v, ProdCheckProofs.check_sound) evaluated on the
   regenerated instances by vm_compute. *)
Theorem C15_production_event :
  ProdInstances.subset_construction ProdNFA.event_nfa_data ProdDFA.event_data.
Proof. exact ProdInstances.event_subset_construction. Qed.

Theorem C15_production_command :
  ProdInstances.subset_construction ProdNFA.command_nfa_data ProdDFA.command_data.
Proof. exact ProdInstances.command_subset_construction. Qed.

Theorem C15_production_utf8 :
  ProdInstances.subset_construction ProdNFA.utf8_nfa_data ProdDFA.utf8_data.
Proof. exact ProdInstances.utf8_subset_construction. Qed.

