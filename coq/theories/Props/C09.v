(* C09 — text writing stays inside its surface, ignores chunking and loses no cell.
   Statements only (placeholder while the proofs are being built). *)
From Coq Require Import List Arith Bool NArith.
From SNT Require Import Render.CellLayout Render.Writer.
Import ListNotations.

Theorem C09_layout_positions_start_at_cursor : forall maxw wraps s h w p s',
  layout_step maxw wraps s (LSized h w) = (s', Some p) -> fst p = l_r s \/ p = (l_r s + 1, 0).
Proof.
  intros maxw wraps s h w p s'. unfold layout_step.
  destruct ((h =? 0) || (w =? 0)); [discriminate|].
  destruct (l_c s + w <=? maxw); [intros [= <- <-]; now left|].
  destruct (negb wraps); [discriminate|]. intros [= <- <-]. now right.
Qed.
