(* C09 — text writing stays inside its surface, ignores chunking and loses no cell.
   Statements only; proofs in Render/*.v.

   Vocabulary (Render/CellLayout.v, Render/Writer.v):
     ccell / kind          a cell: face + (character | glyph with size and fallback | image with size)
     rctx                  glyph capability of the terminal, the char-width oracle (unicode-width), the
                           automaton of TTYCommandDecoder (ANY automaton: the theorems quantify over it) and
                           the meaning of SGR sequences as a face transformer (any table)
     wops_run              a client program against TerminalWriter: put_char, put_cell (glyphs, images),
                           set_face, set_wraps, set_cursor, io::Write::write once per chunk (on the writer itself, through
                           utf8_writer() and through tty_writer() which also decodes SGR escape
                           sequences), over a view `sh` of a backing slice `data`
                           put_text (every cell of a Text); sessions: ONE utf8_writer() / tty_writer() adapter
                           used for several writes with operations on adapter.parent() in between (OSessU,
                           OSessT: the adapter's decoder lives through the session, the parent operations
                           do not touch it)
     merge_op              the same operation with all its bytes passed in a single call; for a session:
                           adjacent byte chunks joined (the bytes between two parent operations in one call)
     jtext, jt_collect     a JSON text document (string | list | {face, wraps, glyph | text}) and
                           TextDeserializer's traversal of it into a Text (cells, wraps flag, writing face)
     tty_write / tty_fold  TTYCellWriter::write as coded (one MatcherDecoder::decode per loop iteration,
                           rescheduled bytes re-parsed lazily by the next decode) / the plain fold over bytes
     text_size             the size Text::layout measures for an available width (before the clamp)
     text_layout           Text::layout: measured size clamped to the constraint
     text_render           Text::render: writer over Layout::apply_to(surface), every cell put
     printables            the printable cells of a text; for a glyph on a terminal without glyph
                           support, its fallback characters
     Rep H W sh w          (C07) sh is the shape of the window w of an H x W canvas, reached by any chain
                           of view / transpose operations: plain, offset, strided, transposed views

   Counted theorems (13): C09_contained, C09_contained_any_shape, C09_chunking, C09_session_chunking_utf8,
   C09_session_chunking_tty, C09_chunking_midstream, C09_tty_write_is_fold, C09_tty_chunking, C09_layout_render,
   C09_text_view, C09_json_text, C09_json_text_kinds, C09_reference_link.  Lemmas C09_unit_layout_refuted,
   C09_ignoring_errors_refuted and the *_nonvacuous Examples are audited, not counted.  Final state and
   limits: design/C09.md. *)
From Coq Require Import List Arith Bool NArith ZArith Sorting.Sorted.
From SNT Require Import Base.Outcome Surface.Bounds Surface.Shape Surface.ShapeProofs
  Render.CellLayout Render.Writer Render.TokFuel Render.WriterTty Render.WriterFrame Render.WriterChunks Render.LayoutFacts Render.LayoutRender
  Render.TextView Render.C09Main Render.JsonText Corr.C09Link.
Import ListNotations.

(* (1a) Containment on canvas views.  Whatever a client writes through a writer over a view of a
   canvas (any cell sequence, any partition of the written bytes, valid or not), the writer never
   panics and every canvas cell outside the view's window is unchanged. *)
Theorem C09_contained : forall (ctx : rctx) (H W : nat) (sh : shape) (w : window) (data : list ccell) (ops : list wop),
  Rep H W sh w -> H * W <= length data ->
  exists st' flags, wops_run ctx (writer_new sh data) ops = Ok (st', flags) /\
    length (w_data st') = length data /\
    forall k, (forall r c, r < w_h w -> c < w_w w -> root_index W (win_coord w r c) <> k) ->
      nth_error (w_data st') k = nth_error data k.
Proof. exact contained_window. Qed.

(* (1b) Containment for an arbitrary shape (hand-made strides included): a completed program changes
   no element of the slice that is not a cell of the view, and it does complete when the view's cells
   lie inside the slice. *)
Theorem C09_contained_any_shape : forall (ctx : rctx) (sh : shape) (data : list ccell) (ops : list wop),
  (forall st' bs, wops_run ctx (writer_new sh data) ops = Ok (st', bs) -> Frame sh data (w_data st')) /\
  (InBounds sh (length data) -> exists st' bs, wops_run ctx (writer_new sh data) ops = Ok (st', bs)).
Proof. exact writer_contained. Qed.

(* (2a) Chunk independence of whole programs: two programs that differ only in how the bytes of each
   write are split across calls have the same outcome: same slice, same writer (cursor, size, face,
   decoder), same results of the individual calls.  A caller is modelled as giving up a write
   operation at the first Err (io::Write does not say how much of a failing buffer was consumed);
   C09_ignoring_errors_refuted shows that a caller who carries on regardless can observe the split. *)
Theorem C09_chunking : forall (ctx : rctx) (sh : shape) (data : list ccell) (ops1 ops2 : list wop),
  InBounds sh (length data) -> map merge_op ops1 = map merge_op ops2 ->
  wops_run ctx (writer_new sh data) ops1 = wops_run ctx (writer_new sh data) ops2.
Proof. exact chunking_programs. Qed.

(* (2a') what (2a) says for sessions: between two parent operations the bytes may be cut anywhere (inside
   a character, inside an escape sequence); a character or sequence cut BY a parent operation is
   completed by the bytes after it and takes effect then.  Stated on its own for the two adapters. *)
Theorem C09_session_chunking_utf8 : forall (ctx : rctx) (st : wstate) (items : list sitem),
  sess_u ctx st (merge_items items) = sess_u ctx st items.
Proof. exact (fun ctx st items => sess_u_merge ctx items st). Qed.

Theorem C09_session_chunking_tty : forall (ctx : rctx) (st : wstate) (ts : tstate) (items : list sitem),
  InBounds (w_sh st) (length (w_data st)) -> TokOk ts ->
  sess_t ctx st ts (merge_items items) = sess_t ctx st ts items.
Proof. exact (fun ctx st ts items => sess_t_merge ctx items st ts). Qed.

(* (2b) ... for the UTF-8 adapters from any writer state, in particular with the decoder in the middle of
   a character; no hypothesis on the surface *)
Theorem C09_chunking_midstream : forall (ctx : rctx) (st : wstate) (chunks1 chunks2 : list (list N)),
  concat chunks1 = concat chunks2 -> write_chunks ctx st chunks1 = write_chunks ctx st chunks2.
Proof. exact chunking_midstream. Qed.

(* (2c) The escape-sequence adapter.  TTYCellWriter::write is modelled as coded: a loop of
   MatcherDecoder::decode calls on what is left of the buffer, each call first re-parsing the bytes a
   previous call rescheduled (only until one of them completes an item), the loop ending when a call
   yields nothing.  For every automaton, from every tokenizer state between two calls (nothing
   rescheduled, candidate consistent: TokOk), this computes what the plain fold over the bytes computes;
   hence a sequence of writes is the fold over the concatenated bytes, tokenizer state included. *)
Theorem C09_tty_write_is_fold : forall (ctx : rctx) (st : wstate) (ts : tstate) (input : list N),
  TokOk ts -> tty_write ctx st ts input = tty_fold ctx st ts input.
Proof. intros ctx st ts input [Hc Hr]. now apply tty_write_fold. Qed.

Theorem C09_tty_chunking : forall (ctx : rctx) (st : wstate) (ts : tstate) (chunks1 chunks2 : list (list N)),
  InBounds (w_sh st) (length (w_data st)) -> TokOk ts -> concat chunks1 = concat chunks2 ->
  tty_chunks ctx st ts chunks1 = tty_chunks ctx st ts chunks2.
Proof. exact tty_chunks_partition. Qed.

(* (3a) No lost cell.  A text without carriage returns, measured for an available width maxw >= 1 and
   written into a surface at least as high as measured and of a width between the measured and the
   available one: every cell the measuring run placed is on the surface at that position afterwards;
   the positions are strictly increasing in reading order (hence pairwise distinct) and inside the
   measured size; no other cell of the surface changes its content.  With wrapping the placed cells
   are exactly the printable cells, in order; without wrapping exactly those the reference no-wrap
   placement (CellLayout.nowrap_place: drop a cell iff its right end lies beyond the right edge) keeps,
   at the positions it assigns. *)
Theorem C09_layout_render : forall (ctx : rctx) (cells : list ccell) (wraps : bool) (maxw : nat) (sh : shape) (data : list ccell),
  1 <= maxw -> no_cr ctx cells = true ->
  fst (text_size ctx cells wraps maxw) <= sh_height sh ->
  snd (text_size ctx cells wraps maxw) <= sh_width sh -> sh_width sh <= maxw ->
  Good sh (length data) ->
  exists st', put_cells ctx (set_wraps (writer_new sh data) wraps) cells = Ok st' /\
    Frame sh data (w_data st') /\
    Appear sh (fst (text_size ctx cells wraps maxw)) (snd (text_size ctx cells wraps maxw))
           (text_places ctx cells wraps maxw) data (w_data st') /\
    (wraps = true -> map snd (text_places ctx cells wraps maxw) = printables ctx cells) /\
    (wraps = false ->
       map snd (text_places ctx cells wraps maxw) =
         keep_placed (printables ctx cells) (nowrap_place (sh_width sh) (lcells ctx (expand ctx cells)) 0 0) /\
       map fst (text_places ctx cells wraps maxw) =
         somes (nowrap_place (sh_width sh) (lcells ctx (expand ctx cells)) 0 0)).
Proof. exact layout_render. Qed.

(* (3b) The same for Text::layout + Text::render as views: the size reported under a constraint whose
   height does not cut the text, the layout placed at any position (pr, pc) by its parent, rendered
   into any canvas view (plain, offset, strided, transposed) in which the reported rectangle lies.
   rect_view sh pr pc h w is that rectangle of the view.  (A rectangle that sticks out of the view is
   clipped by Layout::apply_to; then only containment is claimed: C10_leaf_confined.) *)
Theorem C09_text_view : forall (ctx : rctx) (cells : list ccell) (wraps : bool) (minh minw maxh maxw H W : nat)
    (sh : shape) (w : window) (data : list ccell) (pr pc : nat),
  1 <= maxw -> minh <= maxh -> minw <= maxw -> no_cr ctx cells = true ->
  (Z.of_nat (Nat.max H W) <= i64_max)%Z -> Rep H W sh w -> H * W <= length data ->
  let lay := text_layout ctx cells wraps minh minw maxh maxw in
  fst (text_size ctx cells wraps maxw) <= maxh ->
  0 < fst lay -> pr + fst lay <= sh_height sh -> 0 < snd lay -> pc + snd lay <= sh_width sh ->
  exists st', text_render ctx sh data pr pc (fst lay) (snd lay) cells wraps = Ok st' /\
    Frame sh data (w_data st') /\
    Appear (rect_view sh pr pc (fst lay) (snd lay)) (fst lay) (snd lay) (text_places ctx cells wraps maxw) data (w_data st') /\
    (wraps = true -> map snd (text_places ctx cells wraps maxw) = printables ctx cells) /\
    (wraps = false ->
       map snd (text_places ctx cells wraps maxw) =
         keep_placed (printables ctx cells) (nowrap_place (snd lay) (lcells ctx (expand ctx cells)) 0 0) /\
       map fst (text_places ctx cells wraps maxw) =
         somes (nowrap_place (snd lay) (lcells ctx (expand ctx cells)) 0 0)).
Proof. exact text_view_layout_render. Qed.

Check C09_contained : forall (ctx : rctx) (H W : nat) (sh : shape) (w : window) (data : list ccell) (ops : list wop),
  Rep H W sh w -> H * W <= length data ->
  exists st' flags, wops_run ctx (writer_new sh data) ops = Ok (st', flags) /\
    length (w_data st') = length data /\
    forall k, (forall r c, r < w_h w -> c < w_w w -> root_index W (win_coord w r c) <> k) ->
      nth_error (w_data st') k = nth_error data k.
Check C09_chunking : forall (ctx : rctx) (sh : shape) (data : list ccell) (ops1 ops2 : list wop),
  InBounds sh (length data) -> map merge_op ops1 = map merge_op ops2 ->
  wops_run ctx (writer_new sh data) ops1 = wops_run ctx (writer_new sh data) ops2.
Check C09_layout_render : forall (ctx : rctx) (cells : list ccell) (wraps : bool) (maxw : nat) (sh : shape) (data : list ccell),
  1 <= maxw -> no_cr ctx cells = true ->
  fst (text_size ctx cells wraps maxw) <= sh_height sh ->
  snd (text_size ctx cells wraps maxw) <= sh_width sh -> sh_width sh <= maxw ->
  Good sh (length data) ->
  exists st', put_cells ctx (set_wraps (writer_new sh data) wraps) cells = Ok st' /\
    Frame sh data (w_data st') /\
    Appear sh (fst (text_size ctx cells wraps maxw)) (snd (text_size ctx cells wraps maxw))
           (text_places ctx cells wraps maxw) data (w_data st') /\
    (wraps = true -> map snd (text_places ctx cells wraps maxw) = printables ctx cells) /\
    (wraps = false ->
       map snd (text_places ctx cells wraps maxw) =
         keep_placed (printables ctx cells) (nowrap_place (sh_width sh) (lcells ctx (expand ctx cells)) 0 0) /\
       map fst (text_places ctx cells wraps maxw) =
         somes (nowrap_place (sh_width sh) (lcells ctx (expand ctx cells)) 0 0)).

(* ---------- the defect repaired in the crate (fix: Text::layout measures glyph fallback
   characters one by one): the layout as coded before, measuring a glyph as one unbreakable
   cell, loses the tail of a fallback wider than the line ---------- *)
Definition blank : ccell := mkCell face0 (KChar 32).
Definition ctx_noglyph : rctx := mkCtx false [] dfa0 [].
Definition glyph_abcdefg : ccell := mkCell face0 (KGlyph 0 1 2 [97; 98; 99; 100; 101; 102; 103]%N).

Lemma C09_unit_layout_refuted :
  exists ctx cells maxw,
    1 <= maxw /\ no_cr ctx cells = true /\
    let '(h, w) := text_size_unit ctx cells true maxw in
    match put_cells ctx (set_wraps (writer_new (of_size h w) (repeat blank (h * w))) true) cells with
    | Ok st => In (mkCell face0 (KChar 103)) (printables ctx cells) /\ ~ In (KChar 103) (kinds (w_data st))
    | _ => False
    end.
Proof.
  exists ctx_noglyph, [glyph_abcdefg], 3. split; [auto|]. split; [reflexivity|].
  vm_compute. split; [tauto|]. intros H. repeat (destruct H as [H|H]; [discriminate|]). exact H.
Qed.

(* (5) TextDeserializer loses nothing either: the Text built from a JSON document holds exactly the
   characters and glyphs of the document in document order (jt_kinds), each under the faces of the objects
   around it laid over one another outermost first (jt_emit); cells already in the text are kept; the
   wraps flag is the last "wraps" met; the writing face is restored after every object.  An object with a
   "glyph" contributes the glyph only: the "text" it may also carry (JBGlyph k (Some t)) is NOT visited, as
   coded (`if let Some(glyph) .. else if let Some(text)`); jt_emit / jt_kinds say so explicitly. *)
Theorem C09_json_text : forall (t : jtext) (cs : list ccell) (w : bool) (cur : face),
  jt_collect (mkJ cs w cur) t = mkJ (cs ++ jt_emit cur t) (jt_wraps w t) cur.
Proof. exact jt_collect_spec. Qed.

Theorem C09_json_text_kinds : forall (t : jtext),
  map c_kind (j_cells (jt_collect j0 t)) = jt_kinds t /\ j_face (jt_collect j0 t) = face0.
Proof. exact jt_deserialize_kinds. Qed.

(* (6) The predicate of the correspondence run judges the canvas against a reference written from kinds
   and widths alone (Corr/C09Corr.v: ref_expand, ref_width, ref_printable, ref_nowrap).  That reference
   and the notions (3), (4) are stated with denote the same cells: with wrapping the printables, without
   wrapping those the no-wrap placement keeps. *)
Theorem C09_reference_link : forall (ctx : rctx) (cells : list ccell) (wraps : bool) (w : nat),
  C09Corr.expected_cells ctx cells wraps w =
  if wraps then printables ctx cells
  else keep_placed (printables ctx cells) (nowrap_place w (lcells ctx (expand ctx cells)) 0 0).
Proof. exact expected_cells_link. Qed.

(* ---------- non-vacuity ---------- *)
(* a transposed, offset view of a 5 x 6 canvas; a program that writes "a€" split inside the
   three-byte character, a wide character, a tab and a newline *)
Definition ex_ops : list vop := [OpT; OpView (Rng 1 (-1)) (From 1)].
Definition ex_prog (chunks : list (list N)) : list wop :=
  [OFace (mkFace (Some 255%N) None 8%N); OWrite chunks; OChar 28450%N; OChar 9%N; OChar 10%N; OWriteU [[98%N]];
   OWriteT [[27]; [91; 49]; [109; 99; 27]; [27; 91; 109]]%N].
(* the automaton of TTYCommandDecoder as dumped from the crate on 2026-10-01 (the correspondence
   run always uses a fresh dump; this copy only serves the examples) *)
Definition tr (f : nat) (lo hi : N) (t : nat) : nat * N * N * nat := (f, lo, hi, t).
Definition ex_dfa : dfa :=
  mkDfa 0
    [tr 0 0 26 1; tr 0 27 27 2; tr 0 28 127 1; tr 0 192 223 3; tr 0 224 239 4; tr 0 240 247 5; tr 2 91 91 12; tr 3 128 191 11; tr 4 128 191 9; tr 5 128 191 6; tr 6 128 191 7; tr 7 128 191 8; tr 9 128 191 10; tr 12 48 58 13; tr 12 59 59 14; tr 12 109 109 15; tr 13 48 58 13; tr 13 59 59 14; tr 13 109 109 15; tr 14 48 58 13; tr 14 59 59 14; tr 14 109 109 15]
    [(false, false, 99); (true, true, 1); (false, false, 99); (false, false, 99); (false, false, 99);
     (false, false, 99); (false, false, 99); (false, false, 99); (true, true, 1); (false, false, 99);
     (true, true, 1); (true, true, 1); (false, false, 99); (false, false, 99); (false, false, 99); (true, true, 0)].
Definition ex_ctx : rctx :=
  mkCtx true [(28450%N, 2)] ex_dfa
        [([27; 91; 49; 109]%N, mkFace (Some 255%N) None 8%N, mkFace (Some 255%N) None 8%N);
         ([27; 91; 109]%N, mkFace (Some 255%N) None 8%N, face0)].

Example C09_contained_nonvacuous :
  Rep 5 6 (apply_chain (of_size 5 6) ex_ops) (win_chain (win_root 5 6) ex_ops) /\
  w_h (win_chain (win_root 5 6) ex_ops) = 4 /\ w_w (win_chain (win_root 5 6) ex_ops) = 4 /\
  match wops_run ex_ctx (writer_new (apply_chain (of_size 5 6) ex_ops) (repeat blank 30))
                 (ex_prog [[97; 226]; [130; 172]]%N) with
  | Ok (st, flags) =>
      nth_error (kinds (w_data st)) 13 = Some (KChar 8364) /\ nth_error (kinds (w_data st)) 19 = Some (KChar 28450) /\
      flags = [true; true; true; true; true; true; true] /\
      nth_error (kinds (w_data st)) 14 = Some (KChar 99) /\ w_face st = face0
  | _ => False
  end.
Proof.
  split; [apply rep_chain; [vm_compute; discriminate|reflexivity|apply rep_root]|].
  vm_compute. repeat split; reflexivity.
Qed.

Example C09_chunking_nonvacuous :
  InBounds (apply_chain (of_size 5 6) ex_ops) 30 /\
  map merge_op (ex_prog [[97; 226]; [130; 172]]%N) = map merge_op (ex_prog [[97]; [226; 130]; []; [172]]%N) /\
  ex_prog [[97; 226]; [130; 172]]%N <> ex_prog [[97]; [226; 130]; []; [172]]%N /\
  is_ok (wops_run ex_ctx (writer_new (apply_chain (of_size 5 6) ex_ops) (repeat blank 30))
                  (ex_prog [[97]; [226; 130]; []; [172]]%N)) = true.
Proof.
  split; [|split; [reflexivity|split; [discriminate|vm_compute; reflexivity]]].
  eapply rep_inbounds with (H := 5) (W := 6); [apply rep_chain; [vm_compute; discriminate|reflexivity|apply rep_root]|auto].
Qed.

(* the decoder in the middle of "€" (E2 seen): both partitions of the rest complete the character *)
Example C09_chunking_midstream_nonvacuous :
  let st := set_dec (writer_new (of_size 1 3) (repeat blank 3)) (mkU 2 [226%N]) in
  match write_chunks ex_ctx st [[130]; [172; 97]]%N with
  | Ok (st', ok) => nth_error (kinds (w_data st')) 0 = Some (KChar 8364) /\ ok = true
  | _ => False
  end.
Proof. vm_compute. split; reflexivity. Qed.

(* an escape sequence cut after ESC, inside the parameters and before the final byte, followed by a
   lone ESC that is rescheduled when the next ESC arrives: the loop as coded and the fold agree *)
Example C09_tty_nonvacuous :
  let st := writer_new (of_size 1 4) (repeat blank 4) in
  let bytes := [27; 91; 49; 109; 99; 27; 27; 91; 109; 100]%N in
  TokOk (t0 ex_dfa) /\
  tty_chunks ex_ctx st (t0 ex_dfa) [[27]; [91; 49]; [109; 99; 27]; [27; 91; 109; 100]]%N = tty_fold ex_ctx st (t0 ex_dfa) bytes /\
  match tty_fold ex_ctx st (t0 ex_dfa) bytes with
  | Ok (st', ts') => map c_kind (w_data st') = [KChar 99; KChar 100; KChar 32; KChar 32] /\ t_buf ts' = []
  | _ => False
  end.
Proof. vm_compute. repeat split; reflexivity. Qed.

(* a caller that ignores the Err of a write: FF 'b' in one call loses 'b', in two calls writes it *)
Lemma C09_ignoring_errors_refuted :
  exists ctx st chunks1 chunks2, concat chunks1 = concat chunks2 /\
    match write_chunks_ignoring_errors ctx st chunks1, write_chunks_ignoring_errors ctx st chunks2 with
    | Ok a, Ok b => w_data a <> w_data b
    | _, _ => False
    end.
Proof.
  exists ex_ctx, (writer_new (of_size 1 2) (repeat blank 2)), [[255; 98]]%N, [[255]; [98]]%N.
  split; [reflexivity|]. vm_compute. discriminate.
Qed.

(* a hand-made strided shape over a slice of 12 cells: rows 2 apart ... columns 5 apart *)
Example C09_contained_any_shape_nonvacuous :
  let sh := mkShape 1 12 2 2 2 5 in
  InBounds sh 12 /\
  match wops_run ex_ctx (writer_new sh (repeat blank 12)) [OChar 97; OChar 98; OChar 99]%N with
  | Ok (st, _) => map c_kind (w_data st) =
      [KChar 32; KChar 97; KChar 32; KChar 99; KChar 32; KChar 32; KChar 98; KChar 32; KChar 32; KChar 32; KChar 32; KChar 32]
  | _ => False
  end.
Proof.
  split; [|vm_compute; reflexivity].
  intros r c Hr Hc. cbn in *. unfold offset. cbn. destruct r as [|[|r]], c as [|[|c]]; cbn; auto with arith; inversion Hr; inversion Hc;
    repeat match goal with H : S _ <= _ |- _ => inversion H; clear H end.
Qed.

(* "ab漢" + glyph (fallback "xyz", no glyph support) + newline + image 2x3 + "c" at width 4:
   measured 4 x 4 with wrapping (eight printable cells), 3 x 4 without (x, y, z dropped) *)
Definition ex_cells : list ccell :=
  [mkCell face0 (KChar 97); mkCell face0 (KChar 98); mkCell face0 (KChar 28450);
   mkCell face0 (KGlyph 0 1 1 [120; 121; 122]%N); mkCell face0 (KChar 10);
   mkCell face0 (KImage 0 2 3); mkCell face0 (KChar 99)]%N.
Definition ex_ctx2 : rctx := mkCtx false [(28450%N, 2)] dfa0 [].

Example C09_layout_render_nonvacuous :
  text_size ex_ctx2 ex_cells true 4 = (4, 4) /\ no_cr ex_ctx2 ex_cells = true /\
  length (printables ex_ctx2 ex_cells) = 8 /\
  map fst (text_places ex_ctx2 ex_cells true 4) = [(0, 0); (0, 1); (0, 2); (1, 0); (1, 1); (1, 2); (2, 0); (2, 3)] /\
  text_size ex_ctx2 ex_cells false 4 = (3, 4) /\
  map fst (text_places ex_ctx2 ex_cells false 4) = [(0, 0); (0, 1); (0, 2); (1, 0); (1, 3)].
Proof. vm_compute. repeat split; reflexivity. Qed.

(* the same text laid out under min 0x0 / max 9x4 and rendered at position (1, 2) of a 7 x 8 view of a
   transposed 10 x 9 canvas *)
Example C09_text_view_nonvacuous :
  let ops := [OpT; OpView (Rng 1 8) (Rng 1 9)] in
  let sh := apply_chain (of_size 10 9) ops in
  text_layout ex_ctx2 ex_cells true 0 0 9 4 = (4, 4) /\
  Rep 10 9 sh (win_chain (win_root 10 9) ops) /\ sh_height sh = 7 /\ sh_width sh = 8 /\
  match text_render ex_ctx2 sh (repeat blank 90) 1 2 4 4 ex_cells true with
  | Ok st => length (filter (fun k => match k with KChar 32 => false | _ => true end) (kinds (w_data st))) = 8
  | _ => False
  end.
Proof.
  split; [vm_compute; reflexivity|]. split; [apply rep_chain; [vm_compute; discriminate|reflexivity|apply rep_root]|].
  vm_compute. repeat split; reflexivity.
Qed.

(* one tty_writer() adapter: ESC [ 1 | parent put_char 'x' | m c -- the sequence is completed after the
   parent operation, so 'x' is written before the face changes and 'c' after; cutting the bytes between
   parent operations differently changes nothing *)
Example C09_session_nonvacuous :
  let st := writer_new (of_size 1 4) (repeat blank 4) in
  let items := [SBytes [27; 91]; SBytes [49]; SParent (PChar 120); SBytes [109]; SBytes [99]]%N in
  merge_items items = [SBytes [27; 91; 49]; SParent (PChar 120); SBytes [109; 99]]%N /\
  match wop_step ex_ctx (set_face st (mkFace (Some 255%N) None 8%N)) (OSessT items) with
  | Ok (st', _) => map c_kind (firstn 2 (w_data st')) = [KChar 120; KChar 99]
  | _ => False
  end.
Proof. vm_compute. split; reflexivity. Qed.

(* ["a", {face: fg, text: ["b", {face: bg, glyph}]}, {wraps: false}] *)
Example C09_json_text_nonvacuous :
  let g := KGlyph 999 1 2 [120%N] in
  let doc := TxArr [TxStr [97%N]; TxObj (Some (mkFace (Some 255%N) None 0%N)) None
                                   (JBText (TxArr [TxStr [98%N]; TxObj (Some (mkFace None (Some 65535%N) 0%N)) None (JBGlyph g (Some (TxStr [122%N])))]));
                   TxObj None (Some false) JBNone] in
  jt_collect j0 doc =
  mkJ [mkCell face0 (KChar 97); mkCell (mkFace (Some 255%N) None 0%N) (KChar 98);
       mkCell (mkFace (Some 255%N) (Some 65535%N) 0%N) g] false face0.
Proof. vm_compute. reflexivity. Qed.

(* one utf8_writer() adapter: E2 | 82 | parent set_cursor | AC 'a': the euro sign is completed after the
   parent operation and lands where the cursor was moved to; joining E2 and 82 into one call changes nothing *)
Example C09_session_chunking_utf8_nonvacuous :
  let st := writer_new (of_size 1 4) (repeat blank 4) in
  let items := [SBytes [226]; SBytes [130]; SParent (PCursor 0 2); SBytes [172; 97]]%N in
  merge_items items = [SBytes [226; 130]; SParent (PCursor 0 2); SBytes [172; 97]]%N /\
  sess_u ex_ctx st (merge_items items) = sess_u ex_ctx st items /\
  match sess_u ex_ctx st items with
  | Ok (st', ok) => map c_kind (w_data st') = [KChar 32; KChar 32; KChar 8364; KChar 97] /\ ok = true
  | _ => False
  end.
Proof. vm_compute. repeat split; reflexivity. Qed.

(* "ab" + tab + wide + newline + "c" at width 4 without wrapping: the reference of the predicate and the
   placement of the theorems keep the same cells (the wide character does not fit after the tab) *)
Example C09_reference_link_nonvacuous :
  let cells := [mkCell face0 (KChar 97); mkCell face0 (KChar 98); mkCell face0 (KChar 9); mkCell face0 (KChar 28450);
                mkCell face0 (KChar 10); mkCell face0 (KChar 99)]%N in
  map c_kind (C09Corr.expected_cells ex_ctx cells false 4) = [KChar 97; KChar 98; KChar 99]%N /\
  map c_kind (C09Corr.expected_cells ex_ctx cells true 4) = [KChar 97; KChar 98; KChar 28450; KChar 99]%N.
Proof. vm_compute. split; reflexivity. Qed.
