(* C06 -- The library reads back its own SGR output and applies it with SGR semantics.

   Property text: "Any face change and any text the encoder writes in true-colour mode is read
   back by the library's own command decoder as the same face change (for everything a
   face-modification record can express: colours, underline style and colour, bold, italic,
   blink, strike, reset) and the same characters.  ANSI-coloured text written through the
   escape-sequence cell writer yields cells whose faces follow SGR semantics: each attribute
   and colour is set or cleared independently, later parameters override earlier ones, and
   reset restores the default face."  Quantifier: all face modifications and faces with opaque
   colours, all characters except ESC, all finite sequences of SGR sequences interleaved with
   text, under every chunking of the written bytes.

   Objects (models of the code, tied to it by the correspondence run and the regenerated
   automaton / tables):
     encode            TTYEncoder::encode for Face / FaceModify / Char, ColorDepth::TrueColor
     decode_chunks     TTYCommandDecoder fed one decode_into per chunk (MatcherDecoder over the
                       crate's compiled command automaton, sgr_face, utf8_decode)
     fm_apply          FaceModify::apply
     tty_write_chunks  CellWrite::tty_writer().write(chunk) per chunk into a recording CellWrite
   Specification side: SgrRef.v (ref_sgr, ref_cells, rapply, abs_face), written from ECMA-48 /
   xterm / the kitty underline extension.

   Final state.  Counted theorems (10): C06_roundtrip_modify, C06_roundtrip_face, C06_text,
   C06_stream, C06_chunking, C06_apply, C06_sgr_sequence, C06_semantics_wf, C06_palette,
   C06_inexpressible_refuted.  Audited, not counted: lemmas C06_roundtrip_empty_modify,
   C06_text_same, C06_semantics_recorded; the three *_nonvacuous examples.
   Restrictions visible in the statements: opaque colours; attribute word < 256; C06_text holds for
   EVERY scalar value but ESC and the C1 introducers read back as U+FFFD because the encoder
   writes them so on purpose (char_out; crate 73d8d1c); C06_semantics_wf needs item_ok = sgr_wf
   (parameters completely defined by the standards, numbers of at most 19 digits) and no 7/27/39/49
   (open known finding C06-inexpressible, witness C06_inexpressible_refuted); text in written
   histories excludes ESC (it would open a sequence).

   Statements only; proofs are in Decoder/C06Main.v and the files it imports. *)
From Coq Require Import List NArith Bool.
From SNT Require Import Render.FaceModel Render.FaceModelProofs Decoder.Sgr Decoder.SgrRef Encoder.FaceEnc
  Decoder.SgrRoundtrip Decoder.SgrSemProofs Decoder.CmdTok Decoder.CmdTokProofs Decoder.History Decoder.C06Main.
Import ListNotations.
Local Open Scope N_scope.

(* 1. round trip of a modification record: every record with opaque colours, every chunking *)
Theorem C06_roundtrip_modify : forall (m : face_modify) (chunks : list (list N)),
  fm_opaque m -> m <> fm_default ->
  concat chunks = encode (CmdFaceModify m) ->
  decode_chunks st_init chunks = Some ([CmdFaceModify m], st_init).
Proof. exact roundtrip_modify. Qed.

(* the empty modification is the only one that encodes to nothing (and nothing decodes to nothing) *)
(* (a fact about the model of the encoder alone: a lemma, not counted as an obligation) *)
Lemma C06_roundtrip_empty_modify : forall m : face_modify,
  encode (CmdFaceModify m) = [] <-> m = fm_default.
Proof. exact roundtrip_empty_modify. Qed.

(* 2. round trip of a face: the decoded modification, applied to ANY current face, yields the
   encoded face on everything a modification record can express (all but inverse video) *)
Theorem C06_roundtrip_face : forall (f : face) (chunks : list (list N)),
  face_opaque f -> face_ok f ->
  concat chunks = encode (CmdFace f) ->
  exists m', decode_chunks st_init chunks = Some ([CmdFaceModify m'], st_init)
             /\ forall g, face_ok g -> abs_face (fm_apply m' g) = expressible (abs_face f).
Proof. exact roundtrip_face. Qed.

(* 3. text: every Unicode scalar value. ESC and the C1 introducers (DCS SOS CSI OSC PM APC) are
   written as U+FFFD by the encoder on purpose (crate commit 73d8d1c), so they read back as U+FFFD;
   every other character reads back as itself *)
Theorem C06_text : forall (c : N) (chunks : list (list N)),
  scalar_ok c = true ->
  concat chunks = encode (CmdChar c) ->
  decode_chunks st_init chunks = Some ([CmdChar (char_out c)], st_init).
Proof. exact roundtrip_text. Qed.

Lemma C06_text_same : forall (c : N) (chunks : list (list N)),
  scalar_ok c = true -> char_unsafe c = false ->
  concat chunks = encode (CmdChar c) ->
  decode_chunks st_init chunks = Some ([CmdChar c], st_init).
Proof. exact roundtrip_text_same. Qed.

(* 4. any stream of such commands, any chunking: the decoder returns to its initial state after
   every command, so sequences are never merged with or corrupted by their neighbours *)
Theorem C06_stream : forall (cmds : list command) (chunks : list (list N)),
  Forall cmd_ok cmds -> concat chunks = concat (map encode cmds) ->
  decode_chunks st_init chunks = Some (flat_map readback cmds, st_init).
Proof. exact stream_roundtrip. Qed.

(* 5. chunking never matters, for arbitrary bytes *)
Theorem C06_chunking : forall chunks : list (list N),
  decode_chunks st_init chunks = decode_chunks st_init [concat chunks].
Proof. exact decode_chunks_whole. Qed.

(* 6. FaceModify::apply means what the record says (each field set or cleared independently) *)
Theorem C06_apply : forall (m : face_modify) (f : face),
  face_ok f -> abs_face (fm_apply m f) = rapply m (abs_face f) /\ face_ok (fm_apply m f).
Proof. exact apply_meaning. Qed.

(* 7. one SGR sequence: the decoded modification acts on a rendition as the reference machine *)
Theorem C06_sgr_sequence : forall params : list N,
  sgr_wf params = true -> sgr_inexpressible params = false ->
  exists m, sgr_face params = Some m /\ forall r, rapply m r = ref_sgr params r.
Proof. exact sgr_face_sem. Qed.

(* 8. semantics, unbounded histories, every chunking: the cells carry the faces of the
   reference SGR state machine.  Domain (`_wf`): item_ok = every parameter completely defined by
   the standards (sgr_wf: no `38;5;256`, `4:6`, `4:`, `1:2`, truncated colour ...; numbers of at
   most 19 digits) and none of 7/27/39/49 (known finding; see 8b) *)
Theorem C06_semantics_wf : forall (f0 : face) (hist : list hitem) (chunks : list (list N)),
  face_ok f0 -> Forall item_ok hist -> concat chunks = render hist ->
  exists cells, tty_write_chunks f0 chunks = Some cells
                /\ map abs_cell cells = ref_cells (abs_face f0) hist.
Proof. exact writer_semantics. Qed.

(* 8b. every history of well-formed sequences, INCLUDING the inexpressible parameters 7/27/39/49:
   the cells carry the faces of the recorded machine (reference machine with those four parameters
   as no-ops).  Together with 8 this pins the known finding exactly: nothing else may differ. *)
(* (pins the recorded defect: a lemma, not counted as an obligation of the property) *)
Lemma C06_semantics_recorded : forall (f0 : face) (hist : list hitem) (chunks : list (list N)),
  face_ok f0 -> Forall item_wfp hist -> concat chunks = render hist ->
  exists cells, tty_write_chunks f0 chunks = Some cells
                /\ map abs_cell cells = ref_cells_lib (abs_face f0) hist.
Proof. exact writer_semantics_lib. Qed.

(* 9. the reference palette is the library's table (re-checked on the regenerated tables) *)
Theorem C06_palette : (forall i, color256 i = palette256 i)
                      /\ map (fun '(r, g, b) => (r, g, b, 255)) ansi16 = SGR_COLORS.
Proof. exact palette_tables. Qed.

(* 10. known finding (C06-inexpressible): outside the hypothesis `item_expressible` of
   C06_semantics_wf the statement is false -- SGR 39 does not restore the default foreground *)
Theorem C06_inexpressible_refuted :
  exists hist, hist_wf hist = true /\ hist_expressible hist = false
    /\ option_map (map abs_cell) (tty_write_chunks face_default [render hist])
       <> Some (ref_cells (abs_face face_default) hist).
Proof. exact inexpressible_refuted. Qed.

Check C06_roundtrip_modify : forall (m : face_modify) (chunks : list (list N)),
  fm_opaque m -> m <> fm_default -> concat chunks = encode (CmdFaceModify m) ->
  decode_chunks st_init chunks = Some ([CmdFaceModify m], st_init).
Check C06_roundtrip_face : forall (f : face) (chunks : list (list N)),
  face_opaque f -> face_ok f -> concat chunks = encode (CmdFace f) ->
  exists m', decode_chunks st_init chunks = Some ([CmdFaceModify m'], st_init)
             /\ forall g, face_ok g -> abs_face (fm_apply m' g) = expressible (abs_face f).
Check C06_text : forall (c : N) (chunks : list (list N)),
  scalar_ok c = true -> concat chunks = encode (CmdChar c) ->
  decode_chunks st_init chunks = Some ([CmdChar (char_out c)], st_init).
Check (eq_refl : map char_out [26; 27; 28; 143; 144; 152; 155; 156; 157; 158; 159; 160]
                 = [26; 65533; 28; 143; 65533; 65533; 65533; 156; 65533; 65533; 65533; 160]).
Check C06_semantics_wf : forall (f0 : face) (hist : list hitem) (chunks : list (list N)),
  face_ok f0 -> Forall item_ok hist -> concat chunks = render hist ->
  exists cells, tty_write_chunks f0 chunks = Some cells
                /\ map abs_cell cells = ref_cells (abs_face f0) hist.

(* ---- non-vacuity ---- *)
Definition ex_modify : face_modify :=
  mkFM true (Some (RGBA 1 2 3 255)) (Some (RGBA 0 255 100 255)) (Some UCurly) (Some (RGBA 9 9 9 255))
       (Some false) (Some true) None (Some true).
Example C06_roundtrip_modify_nonvacuous :
  fm_opaque ex_modify /\ ex_modify <> fm_default
  /\ encode (CmdFaceModify ex_modify)
     = [27; 91; 48; 59; 51; 56; 59; 50; 59; 49; 59; 50; 59; 51; 59; 52; 56; 59; 50; 59; 48; 59; 50; 53; 53; 59;
        49; 48; 48; 59; 52; 58; 51; 59; 53; 56; 59; 50; 59; 57; 59; 57; 59; 57; 59; 50; 50; 59; 51; 59; 57; 109]
  /\ decode_chunks st_init [[27; 91; 48; 59; 51; 56; 59; 50]; []; [59; 49; 59; 50; 59; 51; 59; 52; 56; 59; 50; 59; 48; 59; 50; 53; 53; 59;
        49; 48; 48; 59; 52; 58; 51; 59; 53; 56; 59; 50; 59; 57; 59; 57; 59; 57; 59; 50; 50; 59; 51; 59; 57]; [109]]
     = Some ([CmdFaceModify ex_modify], st_init).
Proof.
  split; [cbn; repeat split; reflexivity|]. split; [discriminate|]. split; vm_compute; reflexivity.
Qed.

Definition ex_face : face := mkFace (Some (RGBA 1 2 3 255)) (Some (RGBA 4 5 6 255)) (N.lor 3 (N.lor FA_BOLD (N.lor FA_REVERSE FA_STRIKE))).
Example C06_roundtrip_face_nonvacuous :
  face_opaque ex_face /\ face_ok ex_face
  /\ option_map fst (decode_chunks st_init [encode (CmdFace ex_face)])
     = Some [CmdFaceModify (mkFM true (Some (RGBA 1 2 3 255)) (Some (RGBA 4 5 6 255)) (Some UCurly) None
                                 (Some true) None None (Some true))].
Proof. split; [cbn; repeat split; reflexivity|]. split; vm_compute; reflexivity. Qed.

(* ls-style coloured text: CSI 01;31 m A CSI 38;2;1;2;3;4:3 m e-acute CSI 24;22 m B CSI m C *)
Definition ex_hist : list hitem :=
  [HSgr [48; 49; 59; 51; 49]; HText [65];
   HSgr [51; 56; 59; 50; 59; 49; 59; 50; 59; 51; 59; 52; 58; 51]; HText [233];
   HSgr [50; 52; 59; 50; 50]; HText [66]; HSgr []; HText [67]].
Example C06_semantics_nonvacuous :
  Forall item_ok ex_hist
  /\ ref_cells rface_default ex_hist
     = [ (65, mkR (Some (RGBA 128 0 0 255)) None UNone true false false false false);
         (233, mkR (Some (RGBA 1 2 3 255)) None UCurly true false false false false);
         (66, mkR (Some (RGBA 1 2 3 255)) None UNone false false false false false);
         (67, rface_default) ].
Proof.
  split; [|vm_compute; reflexivity].
  repeat (constructor; [split; vm_compute; reflexivity|]). constructor.
Qed.
