(* C06 -- the library reads back its own SGR output and applies it with SGR semantics. *)
From Coq Require Import List NArith Bool.
From SNT Require Import Decoder.CmdTok Decoder.SgrRef.
Import ListNotations.
Local Open Scope N_scope.

Theorem C06_placeholder : cmd_start = 0.
Proof. reflexivity. Qed.
