(* C18 — key-chord maps are last-writer-wins, prefix-free dictionaries.
   Statements only (under construction). *)
From Coq Require Import List NArith Bool.
From SNT Require Import Base.Outcome Keys.KeyMap Keys.KeyParse.
Import ListNotations.
Local Open Scope N_scope.

Theorem C18_placeholder : lookup key_cmp (register key_cmp TNil [Key (KChar 97) 0] 1) [Key (KChar 97) 0] = Success 1.
Proof. reflexivity. Qed.
