(* C18 — key-chord maps behave as a last-writer-wins, prefix-free dictionary of
   chords; the stateful matcher; the key / chord parsers and printers.
   Statements only; each is closed by a lemma proved under Keys/.

   Vocabulary
     key                 the concrete Key {name, mode} of src/keys.rs, ordered by key_cmp (derived Ord)
     build h             the KeyMap after the registration history h (a list of (chord, value))
     lookup / for_each / register_override / lookup_state / run   model of the code (Keys/KeyMap.v)
     spec_build h        the dictionary of chords after h:  reg c v d = (c,v) :: [entries of d unrelated to c]
     related a b         one of the chords is a prefix of the other (equal chords included)
     mexp                every map obtainable from new / register / register_override / clear, nested to any depth *)
From Coq Require Import String.
From Coq Require Import List NArith Bool.
From SNT Require Import Base.Outcome Keys.KeyMap Keys.KeyParse Keys.KeyOrder
  Keys.KeyMapProofs Keys.KeyMapDict Keys.KeyMapEnum Keys.KeyMapMatcher Keys.KeyMapInst
  Keys.KeyParseProofs Keys.KeyParseRoundTrip Gen.C18Keys Keys.KeyOrderGen.
Import ListNotations.
Local Open Scope N_scope.

Section Statements.
  Context {V : Type}.
  Local Notation chord := (list key).
  Local Notation history := (list (chord * V)).
  Local Notation build := (build key_cmp).
  Local Notation spec_build := (spec_build key_cmp).
  Local Notation lookup := (lookup key_cmp).

  (* every registration history, every non-empty lookup chord: the trie
     answers exactly like the dictionary of chords *)
  Theorem C18_lookup_refines : forall (h : history) (c : chord),
    c <> [] -> lookup (build h) c = spec_lookup key_cmp (spec_build h) c.
  Proof. exact k_lookup_refines. Qed.

  (* ... and what the three answers mean: Success v exactly for chords bound
     to v, Continue exactly for proper prefixes of bound chords, Failure otherwise *)
  Theorem C18_lookup_meaning : forall (h : history) (c : chord),
    c <> [] ->
    (forall v, lookup (build h) c = Success v <-> In (c, v) (spec_build h))
    /\ (lookup (build h) c = Continue <->
        exists c' v', In (c', v') (spec_build h) /\ proper_prefix key_cmp c c' = true)
    /\ (lookup (build h) c = Failure <->
        (forall v, ~ In (c, v) (spec_build h))
        /\ (forall c' v', In (c', v') (spec_build h) -> proper_prefix key_cmp c c' = false)).
  Proof. intros h c. exact (k_meaning (build h) (spec_build h) c (k_repr_build h)). Qed.

  (* specification-side fact (about the dictionary only; it validates `reg` against the property text):
     "bound and not superseded", in terms of the history alone: c is bound to v
     iff (c, v) was registered and no chord related to c (a prefix, an
     extension, or c itself) has been registered since — last writer wins *)
  Lemma C18_last_writer : forall (h : history) (c : chord) (v : V),
    In (c, v) (spec_build h) <->
    exists h1 h2, h = h1 ++ (c, v) :: h2 /\ c <> []
                  /\ (forall c2 v2, In (c2, v2) h2 -> c2 = [] \/ related key_cmp c2 c = false).
  Proof. exact k_last_writer. Qed.

  (* one registration, on an arbitrary trie: the registered chord succeeds, its
     proper prefixes continue, its proper extensions fail, every other chord
     keeps its answer *)
  Theorem C18_register_supersedes : forall (t : trie key V) (c : chord) (v : V) (c' : chord),
    c <> [] -> c' <> [] ->
    lookup (register key_cmp t c v) c' =
    if chord_eqb key_cmp c c' then Success v
    else if is_prefix key_cmp c' c then Continue
    else if is_prefix key_cmp c c' then Failure
    else lookup t c'.
  Proof. exact k_lookup_register. Qed.

  (* enumeration lists exactly the bound chords, each once *)
  Theorem C18_for_each : forall (h : history),
    (forall x, In x (for_each (build h)) <-> In x (spec_build h))
    /\ NoDup (map fst (for_each (build h))).
  Proof. intros h. exact (k_enum (build h) (spec_build h) (k_repr_build h)). Qed.

  (* maps built by any combination of new / register / register_override / clear
     (override merging of two maps, to any depth): lookups, enumeration and
     prefix-freeness as above, against the dictionary built by reg /
     spec_override; the non-empty lookup chords get the three meanings *)
  Theorem C18_override : forall (m : mexp),
    let t := eval_trie key_cmp m in
    let d : dict key V := eval_dict key_cmp m in
    (forall c, c <> [] -> lookup t c = spec_lookup key_cmp d c)
    /\ (forall c, c <> [] ->
          (forall v, lookup t c = Success v <-> In (c, v) d)
          /\ (lookup t c = Continue <-> exists c' v', In (c', v') d /\ proper_prefix key_cmp c c' = true)
          /\ (lookup t c = Failure <->
              (forall v, ~ In (c, v) d) /\ (forall c' v', In (c', v') d -> proper_prefix key_cmp c c' = false)))
    /\ (forall x, In x (for_each t) <-> In x d)
    /\ NoDup (map fst (for_each t))
    /\ prefix_free key_cmp d.
  Proof.
    intros m t d. pose proof (k_repr_mexp m) as R. fold t d in R.
    split; [exact (repr_refines _ _ _ R)|].
    split; [intros c Hc; exact (k_meaning t d c R Hc)|].
    split; [exact (proj1 (k_enum t d R))|].
    split; [exact (proj2 (k_enum t d R)) | exact (repr_pf _ _ _ R)].
  Qed.

  (* specification-side fact: what an override leaves bound: everything of the other map, and of this
     map the chords unrelated to every chord of the other *)
  Lemma C18_override_entries : forall (d o : dict key V) x,
    In x (spec_override key_cmp d o) <->
    In x o \/ (In x d /\ forall q, In q o -> related key_cmp (fst q) (fst x) = false).
  Proof. exact k_In_override. Qed.

  (* ---- the stateful matcher.  All statements are for every map obtainable from new / register /
     register_override / clear in any combination (mexp), hence in particular for build h. *)

  (* every key sequence, every pending state: the coded two-pass loop computes the same as the
     matcher described over the dictionary (spec_handle).  This is a refinement of the code's loop to
     the dictionary, not yet the English clauses: those are the next four theorems. *)
  Lemma C18_matcher_refines : forall (m : mexp) (keys st : chord),
    run key_cmp (eval_trie key_cmp m) st keys = spec_run key_cmp (eval_dict key_cmp m : dict key V) st keys.
  Proof. intros m. exact (k_run_spec _ _ (k_repr_mexp m)). Qed.

  (* typed from the idle state, a bound chord fires exactly at its last key:
     nothing for the first n-1 keys, then the value; the matcher is idle again *)
  Theorem C18_matcher_fires : forall (m : mexp) (c : chord) (v : V),
    In (c, v) (eval_dict key_cmp m) ->
    run key_cmp (eval_trie key_cmp m) [] c = ([], repeat None (length c - 1) ++ [Some v]).
  Proof. intros m c v. exact (k_fires _ _ c v (k_repr_mexp m)). Qed.

  (* converse: whenever the matcher fires it fires a bound chord — the pending keys followed by the
     key just typed, or, when that sequence is neither bound nor a proper prefix, the key alone *)
  Theorem C18_matcher_fires_only_bound : forall (m : mexp) (st : chord) (k : key) (st' : chord) (v : V),
    lookup_state key_cmp (eval_trie key_cmp m) st k = (st', Some v) ->
    st' = [] /\ (In (st ++ [k], v) (eval_dict key_cmp m)
                 \/ (lookup (eval_trie key_cmp m) (st ++ [k]) = Failure /\ In ([k], v) (eval_dict key_cmp m))).
  Proof. intros m st k st' v. exact (k_fires_only_bound _ _ st k st' v (k_repr_mexp m)). Qed.

  (* an unbound key (one that begins no bound chord) does not prevent the chord typed immediately
     after it from firing — from the idle state: *)
  Theorem C18_matcher_recovers_idle : forall (m : mexp) (u : key) (c : chord) (v : V),
    (forall c' v', In (c', v') (eval_dict key_cmp m : dict key V) -> forall r, c' <> u :: r) ->
    In (c, v) (eval_dict key_cmp m) ->
    run key_cmp (eval_trie key_cmp m) [] (u :: c) = ([], None :: repeat None (length c - 1) ++ [Some v]).
  Proof. intros m u c v. exact (k_recovers_idle _ _ u c v (k_repr_mexp m)). Qed.

  (* ... and from any pending state st, EXCEPT when the unbound key itself continues the pending
     chord (st ++ [u] is a proper prefix of a bound chord: lookup answers Continue).  The exception is
     necessary: C18_matcher_never_prevents_refuted below. *)
  Theorem C18_matcher_recovers_unless_continues : forall (m : mexp) (u : key) (c : chord) (v : V) (st : chord),
    (forall c' v', In (c', v') (eval_dict key_cmp m : dict key V) -> forall r, c' <> u :: r) ->
    In (c, v) (eval_dict key_cmp m) ->
    lookup (eval_trie key_cmp m) (st ++ [u]) <> Continue ->
    exists st' o, lookup_state key_cmp (eval_trie key_cmp m) st u = (st', o)
                  /\ run key_cmp (eval_trie key_cmp m) st' c = ([], repeat None (length c - 1) ++ [Some v]).
  Proof. intros m u c v st. exact (k_recovers _ _ u c v st (k_repr_mexp m)). Qed.

End Statements.

(* The clause of the property text "an unbound key never prevents the chord typed immediately after
   it from firing", read for every state reachable by typing keys from idle, is FALSE of the code (and
   of any matcher that also fires multi-key chords at their last key): bound  a u c -> 1  and  c -> 2,
   u begins no bound chord; after a, typing u c fires 1 (the chord a u c), so the chord c typed right
   after the unbound key u does not fire.  Known finding C18-unbound-key-inside-chord. *)
Theorem C18_matcher_never_prevents_refuted : exists h, ~ literal_never_prevents h.
Proof. exact literal_never_prevents_refuted. Qed.

(* parsing never panics: every input string, every to_lowercase satisfying lower_spec *)
Theorem C18_parse_total : forall (lower : str -> str), lower_spec lower ->
  forall s : str,
    no_panic (parse_name lower s) /\ no_panic (parse_key lower s) /\ no_panic (parse_chord lower s).
Proof.
  intros lower LS s. split; [apply parse_name_total, LS | split; [apply parse_key_total, LS | apply parse_chord_total, LS]].
Qed.

(* whatever a parser accepts prints to a string that parses back to the same value *)
Theorem C18_parse_roundtrip : forall (lower : str -> str), lower_spec lower ->
  (forall s n, parse_name lower s = Ok n -> parse_name lower (print_name n) = Ok n)
  /\ (forall s k, parse_key lower s = Ok k -> parse_key lower (print_key k) = Ok k)
  /\ (forall s ks, parse_chord lower s = Ok ks -> parse_chord lower (print_chord ks) = Ok ks).
Proof.
  intros lower LS. split; [exact (name_roundtrip lower LS) | split; [exact (key_roundtrip lower LS) | exact (chord_roundtrip lower LS)]].
Qed.

(* the parsers' vocabulary is the source's: the model's tables of key names and modifier names ARE the
   literal match arms of KeyName::from_str / Key::from_str as re-extracted from src/keys.rs on every run
   (no arm dropped), and every value a name arm returns is one that prints to a string the parser accepts
   (so C18_parse_roundtrip is re-proved against the code's current vocabulary: an alias such as
   "plus" => Char('+'), whose value prints quoted, breaks this theorem) *)
Theorem C18_parser_vocabulary_is_source :
  tables_complete = true /\ Forall (fun p => name_canon (snd p)) named_keys.
Proof. exact (conj tables_are_complete named_keys_canon). Qed.

(* the order model is the source's: every KeyName constructor of the model sits at the position its
   variant has in `pub enum KeyName` of src/keys.rs (what the derived Ord compares first), and the
   modifier masks of the parse / print tables are the source's KeyMod constants; both re-extracted from
   the source on every run (translate/c18keys.py -> Gen/C18Keys.v) *)
Theorem C18_key_order_is_source_order :
  (forall n : key_name, nth_error keyname_variants (N.to_nat (name_idx n)) = Some (name_label n))
  /\ List.length keyname_variants = 22%nat
  /\ forallb (fun p => match const_of (upper (fst p)) with Some b => N.eqb b (snd p) | None => false end) mod_parse_table = true
  /\ forallb (fun p => match const_of (upper (snd p)) with Some b => N.eqb b (fst p) | None => false end) mod_print_table = true.
Proof.
  destruct name_idx_is_source_order as [H1 H2]. destruct mod_tables_are_source_consts as [H3 H4].
  exact (conj H1 (conj H2 (conj H3 H4))).
Qed.

(* specification-side fact (says nothing about the code): no matcher whatsoever satisfies both matcher
   clauses as the property text words them, so the known finding has no repair *)
Lemma C18_clauses_incompatible : forall (v1 v2 : N) (o1 o2 o3 : option N),
  v1 <> v2 -> [o1; o2; o3] = fires_at_last v1 3 -> [o3] = fires_at_last v2 1 -> False.
Proof. exact clauses_incompatible. Qed.

(* specification-side fact: the derived order on keys is a strict total order (what BTreeMap relies on) *)
Lemma C18_key_order :
  (forall a b, key_cmp a b = Eq <-> a = b)
  /\ (forall a b, key_cmp a b = CompOpp (key_cmp b a))
  /\ (forall a b c, key_cmp a b = Lt -> key_cmp b c = Lt -> key_cmp a c = Lt).
Proof. exact (conj key_cmp_eq (conj key_cmp_antisym key_cmp_trans)). Qed.

(* ---- statement pins *)
Check @C18_lookup_refines : forall (V : Type) (h : list (list key * V)) (c : list key),
  c <> [] -> lookup key_cmp (build key_cmp h) c = spec_lookup key_cmp (spec_build key_cmp h) c.
Check @C18_for_each : forall (V : Type) (h : list (list key * V)),
  (forall x, In x (for_each (build key_cmp h)) <-> In x (spec_build key_cmp h))
  /\ NoDup (map fst (for_each (build key_cmp h))).
Check @C18_matcher_fires : forall (V : Type) (m : mexp) (c : list key) (v : V),
  In (c, v) (eval_dict key_cmp m) ->
  run key_cmp (eval_trie key_cmp m) [] c = ([], repeat None (length c - 1) ++ [Some v]).
Check @C18_matcher_recovers_unless_continues : forall (V : Type) (m : mexp) (u : key) (c : list key) (v : V) (st : list key),
  (forall c' v', In (c', v') (eval_dict key_cmp m : dict key V) -> forall r, c' <> u :: r) ->
  In (c, v) (eval_dict key_cmp m) ->
  lookup key_cmp (eval_trie key_cmp m) (st ++ [u]) <> Continue ->
  exists st' o, lookup_state key_cmp (eval_trie key_cmp m) st u = (st', o)
                /\ run key_cmp (eval_trie key_cmp m) st' c = ([], repeat None (length c - 1) ++ [Some v]).
Check C18_parse_total : forall lower : str -> str, lower_spec lower ->
  forall s : str, no_panic (parse_name lower s) /\ no_panic (parse_key lower s) /\ no_panic (parse_chord lower s).

(* ---- non-vacuity *)
Definition kc (c : N) : key := Key (KChar c) 0.
Definition ctrl_x : key := Key (KChar 120) 4.

(* the crate's own unit test, plus supersession in both directions *)
Example C18_history_example :
  let h := [([ctrl_x], 0); ([ctrl_x; kc 102], 1); ([ctrl_x; kc 97; kc 98], 2)] in
  lookup key_cmp (build key_cmp h) [ctrl_x] = Continue
  /\ lookup key_cmp (build key_cmp h) [ctrl_x; kc 102] = Success 1
  /\ lookup key_cmp (build key_cmp h) [ctrl_x; kc 97; kc 98] = Success 2
  /\ lookup key_cmp (build key_cmp h) [ctrl_x; kc 97] = Continue
  /\ lookup key_cmp (build key_cmp h) [kc 97] = Failure
  /\ spec_build key_cmp h = [([ctrl_x; kc 97; kc 98], 2); ([ctrl_x; kc 102], 1)]
  /\ for_each (build key_cmp h) = [([ctrl_x; kc 97; kc 98], 2); ([ctrl_x; kc 102], 1)]
  /\ lookup key_cmp (build key_cmp (h ++ [([ctrl_x], 7)])) [ctrl_x; kc 102] = Failure
  /\ for_each (build key_cmp (h ++ [([ctrl_x], 7)])) = [([ctrl_x], 7)].
Proof. vm_compute. repeat split; reflexivity. Qed.

Example C18_matcher_example :
  let h := [([ctrl_x; kc 102], 1); ([kc 97], 2)] in
  run key_cmp (build key_cmp h) [] [kc 122; ctrl_x; kc 102; kc 97] = ([], [None; None; Some 1; Some 2])
  /\ (forall c' v', In (c', v') (spec_build key_cmp h) -> forall r, c' <> kc 122 :: r)
  /\ In ([ctrl_x; kc 102], 1) (spec_build key_cmp h).
Proof.
  split; [vm_compute; reflexivity|]. split.
  - cbn. intros c' v' [E|[E|[]]] r; injection E as <- _; discriminate.
  - cbn. right. left. reflexivity.
Qed.

(* the matcher theorems on a map built with override and clear, from a non-empty pending state *)
Example C18_matcher_mexp_example :
  let a := MRegister (MRegister (MClear (MRegister MNew [kc 98] 9)) [kc 97; ctrl_x; kc 99] 1) [kc 99] 2 in
  let m : mexp := MOverride (MRegister MNew [kc 120] 5) a in
  let t := eval_trie key_cmp m in
  eval_dict key_cmp m = [([kc 99], 2); ([kc 97; ctrl_x; kc 99], 1); ([kc 120], 5)]
  (* recovers_unless_continues, pending [kc 97], unbound key kc 122: [kc 97; kc 122] is not a prefix *)
  /\ lookup key_cmp t ([kc 97] ++ [kc 122]) = Failure
  /\ lookup_state key_cmp t [kc 97] (kc 122) = ([kc 122], None)
  /\ run key_cmp t [kc 122] [kc 97; ctrl_x; kc 99] = ([], [None; None; Some 1])
  (* the excluded class: ctrl_x begins no chord but continues the pending [kc 97] *)
  /\ lookup key_cmp t ([kc 97] ++ [ctrl_x]) = Continue
  /\ run key_cmp t [kc 97] [ctrl_x; kc 99] = ([], [None; Some 1])
  (* fires_only_bound: second pass *)
  /\ lookup_state key_cmp t [kc 97] (kc 120) = ([], Some 5)
  /\ lookup key_cmp t ([kc 97] ++ [kc 120]) = Failure.
Proof. vm_compute. repeat split; reflexivity. Qed.

Example C18_override_example :
  let a := MRegister (MRegister MNew [ctrl_x; kc 102] 1) [kc 97] 2 in
  let b := MRegister (MRegister MNew [ctrl_x] 3) [kc 98] 4 in
  for_each (eval_trie key_cmp (MOverride a b)) = [([kc 97], 2); ([kc 98], 4); ([ctrl_x], 3)]
  /\ eval_dict key_cmp (MOverride a b) = [([kc 98], 4); ([ctrl_x], 3); ([kc 97], 2)].
Proof. vm_compute. split; reflexivity. Qed.

Example C18_lower_spec_nonvacuous : lower_spec ascii_lower.
Proof. exact ascii_lower_spec. Qed.

Example C18_parse_example :
  parse_chord ascii_lower (s2l "Ctrl+X  f") = Ok [ctrl_x; kc 102]
  /\ print_chord [ctrl_x; kc 102] = s2l "ctrl+x f"
  /\ parse_key ascii_lower (s2l "shift+alt+F12") = Ok (Key (KF 12) 3)
  /\ parse_key ascii_lower (s2l "a+??") = Ok (kc 97)
  /\ parse_name ascii_lower (s2l "f99999999999999999999999") = Err 1
  /\ parse_name ascii_lower (s2l "f18446744073709551615") = Ok (KF 18446744073709551615).
Proof. vm_compute. repeat split; reflexivity. Qed.

(* the defect found: the code as it was (`.expect("coding error")`) panics *)
Example C18_parse_orig_refuted :
  exists s, parse_name_orig ascii_lower s = Panic 290
            /\ parse_chord_orig ascii_lower (s2l "ctrl+x " ++ s) = Panic 290.
Proof. exists (s2l "f99999999999999999999999"). vm_compute. split; reflexivity. Qed.
