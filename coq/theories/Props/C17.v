(* C17 - wake-ups and signals are never lost and the tty is restored on every exit path.
   PARTIAL BY NATURE: these are theorems about the transition-system model IO/PollLoop.v of the
   poll loop, the waker socket, signal delivery and dispose, with the environment's moves
   interleaved at every point where the loop can observe them and `select` assumed
   level-triggered, sound and complete.  Real preemption inside system calls, signal latency
   and wall-clock time are outside the model (design/C17.md).

   Counted (16 theorems, with C17_resize_final_size_partial on the separate model IO/SizeQuery.v of
   escape sequence resize mode; listed below are the 15 on IO/PollLoop.v): C17_invariant, _wake, _wake_never_sleeps, _wake_progress,
   _resize_progress, _returns_within, _wake_returns_within, _fifo, _quit, _poll_keeps_settings,
   _restore, _restore_any_tee (dispose with the copy of the output as an oracle), _closing_delivered, _closing_delivered_short_writes (all _partial) and
   C17_closing_needs_a_reading_peer_refuted (boundary witness of the domain assumption "the peer
   eventually reads").  Not counted: the lemmas C17_wake_request_partial,
   C17_returns_when_idle_partial, C17_wake_returns_now_partial (true by definition of the model),
   C17_dispose_without_tee,
   the examples and the pin.  Only wake requests have a bound on the return of poll; every other
   event keeps poll's flush-first contract.  Model = the code on /repo main (fixes de62e95,
   68e120b, 1cf853f + afe2796, adc719b, ab83088, 58259f6, cc7dfd1 included; e293376 concerns escape sequence
   resize mode, which is outside the model and run on the pty only).

   Vocabulary
     poll finite s sched   one call of poll (finite = a timeout was given) from state s under an
                           arbitrary schedule `sched` (one `round_env` per evaluation of the loop
                           test: clock, arrivals before select, EINTR, what the kernel lets the
                           write step do, arrivals before each of the three reads, size of the tty
                           read); result PRet (Some e) / PRet None / PErr / PBlocked / PMore
     arrive s m            an environment move: wake() from any thread, SIGWINCH, a termination
                           signal, tty input, hang-up
     PI                    the invariant; Wk s = "a wake is in the pipeline" *)
From Coq Require Import List NArith Arith Bool.
From SNT Require Import Base.Outcome IO.IOQueue IO.IOQueueProofs IO.TermIO IO.PollLoop
  IO.PollLoopProofs IO.PollLoopClosing IO.PollLoopTee IO.SizeQuery.
Import ListNotations.

Section Statements.
  Context {A T : Type}.
  Notation pstate := (pstate A T).

  (* the invariant holds initially, is kept by every environment move and by every poll,
     whatever the schedule and however the poll ends (event, timeout, error, blocked):
       - a wake request not yet answered by a Wake event leaves a byte in the waker socket
       - a SIGWINCH not yet answered by a Resize event leaves its flag set
       - a flagged termination signal keeps the signal pipe readable
       - input: returned ++ queued ++ waiting in the tty = arrived  (exactly once, in order) *)
  Theorem C17_invariant_partial :
    (forall orig raw, PI (opened (A := A) (T := T) orig raw))
    /\ (forall (s : pstate) m, PI s -> PI (arrive s m))
    /\ (forall finite (s : pstate) sched, PI s -> PI (snd (fst (poll finite s sched)))).
  Proof. split; [exact PI_opened|]. split; [exact PI_arrive|exact PI_poll]. Qed.

  (* a wake is never lost: with a byte in the socket or a Wake event queued, every poll either
     returns the Wake event or leaves the wake in the pipeline; coalescing is allowed *)
  Theorem C17_wake_partial : forall finite (s : pstate) sched, Wk s ->
    let '(res, s', _) := poll finite s sched in
    res = PRet (Some EvWake) \/ Wk s'.
  Proof. exact wake_not_lost. Qed.

  (* ... and it does not sleep: the result is never "blocked in select" *)
  Theorem C17_wake_never_sleeps_partial : forall finite (s : pstate) sched, Wk s ->
    fst (fst (poll finite s sched)) <> PBlocked.
  Proof. exact wake_never_sleeps. Qed.

  (* a wake request puts the wake in the pipeline, also when the socket is full (EAGAIN is
     swallowed, the socket is not empty then).  By definition of `arrive`: the model assumes the
     one-byte non-blocking write succeeds or fails with EAGAIN; the code also swallows EINTR,
     which a non-blocking socket write does not produce (design/C17.md).  A lemma, not counted
     among the theorems: it holds by the definition of `arrive`. *)
  Lemma C17_wake_request_partial : forall s : pstate, Wk (arrive s MWake).
  Proof. intro s. left. cbn. unfold pipe_cap. apply Nat.lt_0_succ. Qed.

  (* an iteration of the loop that gets through select with a byte in the socket queues Wake *)
  Theorem C17_wake_progress_partial : forall (s : pstate) r nodelay s' w,
    0 < pipe (arrive_all s (r_before r)) -> round_body s r nodelay = inr (s', w) ->
    In EvWake (events s').
  Proof. exact round_queues_wake. Qed.

  (* ... and the same for SIGWINCH: an iteration that gets through select with the flag set and
     the signal pipe readable, and that completes (the tty is not gone, no termination signal
     came with it - those cases end the poll with an error, C17_quit_partial), has queued a
     Resize event *)
  Theorem C17_resize_progress_partial : forall (s : pstate) r nodelay s' w,
    winch (arrive_all s (r_before r)) = true -> sigpipe (arrive_all s (r_before r)) = true ->
    round_body s r nodelay = inr (s', w) ->
    In EvResize (events s').
  Proof. exact round_queues_resize. Qed.

  (* "the current poll returns": the loop ends with an event as soon as one is queued and
     nothing is left to write (every event; output is flushed first: poll's contract), and for a
     wake request also when the tty does not take more - in the very iteration in which the wake
     byte is read while the tty is stalled.  Only wake requests cut the flush short: a key or a
     resize arriving during a large frame is returned after the queue has drained, or at the
     timeout *)
  (* (the next two are readings of the loop test of the model, lemmas not counted among the
     theorems; the bounds that need an argument are C17_returns_within_partial and
     C17_wake_returns_within_partial) *)
  Lemma C17_returns_when_idle_partial : forall finite first (s : pstate) sched,
    queue_empty s = true -> events s <> [] ->
    exists e, fst (fst (poll_loop finite first s sched)) = PRet (Some e).
  Proof. exact returns_when_idle. Qed.

  Lemma C17_wake_returns_now_partial : forall finite first (s : pstate) r rest s',
    (queue_empty s && negb (events_empty s)) = false ->
    (finite && r_expired r && negb first) = false -> r_eintr r = false ->
    0 < pipe (arrive_all s (r_before r)) ->
    round_body s r (negb finite) = inr (s', false) ->      (* false: the iteration sent nothing *)
    exists e, fst (fst (poll_loop finite first s (r :: rest))) = PRet (Some e).
  Proof. exact wake_returns_now. Qed.

  (* "within bounded time", counted in iterations of the loop: with a Wake event queued the loop
     leaves at the first iteration that sends nothing, and every other iteration sends at least
     one byte, so the poll is over within |pending| + 1 iterations (iterations cut short by
     EINTR need a signal each and are not counted); in particular it does not go round on a
     tty that select reports writable and that accepts nothing.  With a wake request in the
     socket: within |pending| + 2 iterations, never asleep. *)
  Theorem C17_returns_within_partial : forall sched finite first (s : pstate),
    QI s -> wake_queued s = true -> Forall (fun r => r_eintr r = false) sched ->
    plen s < length sched ->
    fst (fst (poll_loop finite first s sched)) <> PMore.
  Proof. exact returns_within. Qed.

  Theorem C17_wake_returns_within_partial : forall sched finite (s : pstate),
    QI s -> Wk s -> Forall (fun r => r_eintr r = false) sched ->
    plen s + 1 < length sched ->
    let res := fst (fst (poll_loop finite true s sched)) in
    res <> PMore /\ res <> PBlocked.
  Proof. exact wake_returns_within. Qed.

  (* events leave oldest first: a poll that returns, returns the oldest queued event and leaves
     the rest followed by what arrived meanwhile; an event with i events ahead of it is returned
     by the (i+1)-th poll that returns *)
  Theorem C17_fifo_partial : forall finite (s : pstate) sched res s' rest,
    poll finite s sched = (PRet res, s', rest) ->
    exists add, popped (events s ++ add) (PRet res) s'.
  Proof. exact poll_fifo. Qed.

  (* a termination signal flagged when select is called makes that iteration return an error
     (quit; or the write error that came first) *)
  Theorem C17_quit_partial : forall (s : pstate) r nodelay,
    PI s -> termsig (arrive_all s (r_before r)) = true ->
    match round_body s r nodelay with
    | inl (PErr _, _) => True
    | _ => False
    end.
  Proof. exact term_signal_quits. Qed.

  (* a poll neither changes the saved nor the current line settings and moves bytes from the
     queue to the tty without losing, duplicating or reordering any *)
  Theorem C17_poll_keeps_settings_partial : forall finite (s : pstate) sched, QI s ->
    Out s (snd (fst (poll finite s sched))).
  Proof. exact Out_poll. Qed.

  (* every path through dispose that returns restores the line settings (unless the tty is
     gone), closes the signal handler, and has queued the closing sequence behind the chunk in
     flight; if the queue is empty at the end the closing sequence is the last thing the tty got *)
  Theorem C17_restore_partial : forall (is_da : T -> bool) (closing : list A) fuel (s : pstate) sched s',
    QI s -> (N.of_nat (total_len (chunks (tq (io s))) + length closing) <= usize_max)%N ->
    dispose is_da closing fuel s sched = Some s' ->
    saved s' = saved s
    /\ sig_closed s' = true
    /\ (hup s' = false -> cur s' = saved s)
    /\ stream s' = tty (io s) ++ front_slice (tq (io s)) ++ closing.
  Proof. exact dispose_restores. Qed.

  (* ... and the same with the debugging copy of the output (duplicate_output) as a component of
     dispose (IO/PollLoopTee.v: the real step order, the tee as an oracle with one result per poll
     of the wait loop): for EVERY behaviour of the tee - none, healthy, failing in any poll - every
     returning path restores the settings and has queued the closing sequence.  The only step of
     dispose whose error is returned is the restore itself, and it is the last one; a fallible
     step put in front of it with an early return (a flush of the tee, say) is outside this model
     and shows in the correspondence (sessions with a tee on /dev/full or a dead fifo). *)
  Theorem C17_restore_any_tee_partial :
    forall (is_da : T -> bool) (closing : list A) fuel (tee : option (list bool)) (s : pstate) sched s',
    QI s -> (N.of_nat (total_len (chunks (tq (io s))) + length closing) <= usize_max)%N ->
    dispose_t is_da closing fuel tee s sched = Some s' ->
    saved s' = saved s
    /\ sig_closed s' = true
    /\ (hup s' = false -> cur s' = saved s)
    /\ stream s' = tty (io s) ++ front_slice (tq (io s)) ++ closing.
  Proof. exact dispose_t_restores. Qed.

  (* without a tee it is the dispose of the other theorems *)
  Lemma C17_dispose_without_tee : forall (is_da : T -> bool) (closing : list A) fuel (s : pstate) sched,
    dispose_t is_da closing fuel None s sched = dispose is_da closing fuel s sched.
  Proof. exact dispose_t_none. Qed.

  (* the closing sequence is delivered whenever, in the first iteration of dispose's first poll,
     the tty is writable and takes the slice it is given (the peer is reading, it has not hung
     up) - whatever else
     happens: flagged signals (forgotten before the wait), later hang-up, timeouts, the answer
     arriving or not *)
  Theorem C17_closing_delivered_partial : forall (is_da : T -> bool) (closing : list A) fuel (s : pstate) r rest k s',
    0 < fuel -> QI s -> (N.of_nat (total_len (chunks (tq (io s))) + length closing) <= usize_max)%N ->
    r_eintr r = false -> r_wr_err r = false -> r_accept r = Some k -> (usize_max <= k)%N ->
    hup s = false -> Forall (fun m => m <> MHup) (r_before r) ->
    dispose is_da closing fuel s (r :: rest) = Some s' ->
    tty (io s') = tty (io s) ++ front_slice (tq (io s)) ++ closing.
  Proof. exact dispose_delivers_when_tty_accepts. Qed.

  (* ... and the same when the kernel takes the output in as many short writes as it likes: a
     prefix `goods` of the schedule of dispose's first poll in which every iteration finds the tty
     writable and write(2) accepts at least one byte (no hang-up, write error, EINTR, expiry of the
     one second timeout; no wake request in the pipeline or arriving: a Wake event would make the
     poll return early and dispose poll again, counted against its deadline).  With
     |slice in flight ++ closing| + 2 such iterations everything is delivered, whatever follows. *)
  Theorem C17_closing_delivered_short_writes_partial :
    forall (is_da : T -> bool) (closing : list A) fuel (s : pstate) goods rest s',
    0 < fuel -> QI s -> (N.of_nat (total_len (chunks (tq (io s))) + length closing) <= usize_max)%N ->
    hup s = false -> pipe s = 0 -> wake_queued s = false ->
    Forall good goods ->
    length (front_slice (tq (io s)) ++ closing) + 2 <= length goods ->
    dispose is_da closing fuel s (goods ++ rest) = Some s' ->
    tty (io s') = tty (io s) ++ front_slice (tq (io s)) ++ closing.
  Proof. exact dispose_delivers_under_short_writes. Qed.
End Statements.

(* ---- escape sequence resize mode (the terminal is asked for its size on SIGWINCH): a transition
   system of its own, IO/SizeQuery.v - the peer's size, the SIGWINCH flag, the write queue item by
   item, queries the peer has not read, answers poll has not read (an oracle queue), the
   `size_query` flag, frames_drop.  After ANY interleaving of resizes, signal steps, writes of
   the application, sends, answers, reads and drops: once nothing is in the pipeline any more
   (no flagged signal, no query queued or unread, no answer unread) the last Resize event reports
   the peer's final size.  Items are whole and each is a chunk of its own; hang-up, write errors
   and a peer that never answers are outside (then the state is not quiescent). *)
Theorem C17_resize_final_size_partial : forall d ms,
  let s := srun (sopened d) ms in
  quiescent s -> last (zreported s) 0%N = zpsize s.
Proof. exact last_resize_is_final_size. Qed.

(* ---- boundaries, exhibited on the model *)

Definition stall : round_env N := mkR false [] false None false [] [] [] 1024.

(* a wake is pending, 3 bytes of output are queued, the tty never becomes writable and the poll
   has no timeout: the Wake event is queued in the first iteration and the poll returns it at
   once (before the third `fix:` of this property the poll blocked here, see design/C17.md) *)
Example C17_wake_with_stalled_output_example :
  let s0 : pstate N N := opened 7 8 in
  let s1 := arrive (upd_io s0 (mkT (write (tq (io s0)) [1;2;3]%N) [] 0)) MWake in
  let '(res, s', _) := poll false s1 [stall; stall; stall] in
  res = PRet (Some EvWake) /\ queue_empty s' = false.
Proof. vm_compute. split; reflexivity. Qed.

(* ... while a key typed during a stalled frame does not cut the flush short: poll(None) keeps
   waiting for the tty (flush-first contract), and returns the key once the output has drained *)
Example C17_key_waits_for_the_flush_example :
  let s0 : pstate N N := opened 7 8 in
  let s1 := arrive (upd_io s0 (mkT (write (tq (io s0)) [1;2;3]%N) [] 0)) (MInput [97%N]) in
  let go : round_env N := mkR false [] false (Some 100%N) false [] [] [] 1024 in
  fst (fst (poll false s1 [stall; stall])) = PBlocked
  /\ fst (fst (poll false s1 [stall; go; go])) = PRet (Some (EvInput 97%N)).
Proof. vm_compute. split; reflexivity. Qed.

(* domain assumption "the peer eventually reads": dispose with a peer that never reads - the
   one-second polls time out, the line settings are restored, the closing sequence is still in
   the queue.  No bounded Drop can do better; not a finding. *)
Theorem C17_closing_needs_a_reading_peer_refuted :
  let expired : round_env N := mkR true [] false None false [] [] [] 1024 in
  let s0 : pstate N N := opened 7 8 in
  match dispose (fun t => N.eqb t 9) [27; 99]%N 5 s0 [stall; expired; expired] with
  | Some s' => cur s' = 7%N /\ queue_empty s' = false /\ tty (io s') = []
  | None => False
  end.
Proof. vm_compute. repeat split; reflexivity. Qed.

(* a termination signal flagged when the object is dropped no longer cuts the delivery short *)
Example C17_quit_pending_at_drop_example :
  let r0 : round_env N := mkR false [] false (Some 18446744073709551615%N) false [] [] [] 1024 in
  let s0 : pstate N N := arrive (opened 7 8) MTerm in
  match dispose (fun t => N.eqb t 9) [27; 99]%N 5 s0 [r0; stall; mkR true [] false None false [] [] [] 1024] with
  | Some s' => cur s' = 7%N /\ tty (io s') = [27; 99]%N /\ termsig s' = false
  | None => False
  end.
Proof. vm_compute. repeat split; reflexivity. Qed.

(* the closing sequence in short writes: three bytes of a frame in flight (one already sent), a
   second frame behind it (dropped), a two byte closing sequence; the kernel takes one byte per
   iteration, a key arrives meanwhile, then the timeout expires: all four bytes arrive in order *)
Example C17_closing_in_short_writes_example :
  let one : round_env N := mkR false [] false (Some 1%N) false [] [] [] 1024 in
  let key : round_env N := mkR false [MInput [97%N]] false (Some 1%N) false [] [] [] 1024 in
  let expired : round_env N := mkR true [] false None false [] [] [] 1024 in
  let s0 : pstate N N := opened 7 8 in
  let q := write (flush (write (tq (io s0)) [1;2;3]%N)) [4;5]%N in
  let s1 := upd_io s0 (mkT q [] 0) in
  let '(_, s2, _) := poll true s1 [one; expired] in
  let goods := [one; key; one; one; one; one] in
  Forall good goods
  /\ length (front_slice (tq (io s2)) ++ [27; 99]%N) + 2 <= length goods
  /\ match dispose (fun t => N.eqb t 9) [27; 99]%N 5 s2 (goods ++ [expired; expired]) with
     | Some s' => cur s' = 7%N /\ tty (io s') = [1; 2; 3; 27; 99]%N /\ queue_empty s' = true
     | None => False
     end.
Proof.
  split; [repeat constructor; try (eexists; split; [reflexivity|reflexivity])|].
  vm_compute. repeat split; try reflexivity; repeat constructor.
Qed.

(* a failing copy of the output: three bytes in flight, the kernel takes one byte per iteration, the
   copy fails in the first poll of the wait.  As found (the error ended the wait: here the tty's own
   write error in the second iteration stands for it) the settings are restored but the rest of the
   frame and the closing sequence never arrive; as repaired (cc7dfd1: the tee is forgotten, the wait
   goes on) everything arrives *)
Example C17_failing_tee_example :
  let one : round_env N := mkR false [] false (Some 1%N) false [] [] [] 1024 in
  let err : round_env N := mkR false [] false None true [] [] [] 1024 in
  let expired : round_env N := mkR true [] false None false [] [] [] 1024 in
  let s0 : pstate N N := opened 7 8 in
  let s1 := upd_io s0 (mkT (write (tq (io s0)) [1;2;3]%N) [] 0) in
  match dispose (fun t => N.eqb t 9) [27; 99]%N 5 s1 [one; err; one; one; one; one; expired] with
  | Some s' => cur s' = 7%N /\ tty (io s') = [1]%N /\ queue_empty s' = false
  | None => False
  end
  /\ match dispose_t (fun t => N.eqb t 9) [27; 99]%N 5 (Some [false]) s1
                     [one; one; one; one; one; one; one; expired; expired] with
     | Some s' => cur s' = 7%N /\ tty (io s') = [1; 2; 3; 27; 99]%N /\ queue_empty s' = true
     | None => False
     end.
Proof. vm_compute. repeat split; reflexivity. Qed.

(* the same tty opened twice in a row, its settings changed from outside in between (7, then 5): every
   object saves what it finds when it is opened and its release restores exactly that - the model has
   no state outside the terminal object (a process-wide table of "original" settings would show in
   the correspondence: `reopen` cases and sessions that find the tty with varying settings) *)
Example C17_reopen_example :
  let r0 : round_env N := mkR false [] false (Some 100%N) false [] [] [] 1024 in
  let r1 : round_env N := mkR false [MInput [9%N]] false (Some 100%N) false [] [] [] 1024 in
  match dispose (fun t => N.eqb t 9) [27; 99]%N 5 (opened 7 8 : pstate N N) [r0; r1; r1],
        dispose (fun t => N.eqb t 9) [27; 99]%N 5 (opened 5 8 : pstate N N) [r0; r1; r1] with
  | Some a, Some b => cur a = 7%N /\ cur b = 5%N
  | _, _ => False
  end.
Proof. vm_compute. split; reflexivity. Qed.

(* SIGWINCH flagged together with a termination signal: the Resize event is queued before the
   quit error is returned, and the next poll returns it *)
Example C17_winch_with_quit_example :
  let r0 : round_env N := mkR true [] false None false [] [] [] 1024 in
  let s0 : pstate N N := arrive (arrive (opened 7 8) MWinch) MTerm in
  let '(a, s1, _) := poll true s0 [r0; r0] in
  let '(b, s2, _) := poll true s1 [r0; r0] in
  (a, b) = (PErr Quit, PRet (Some EvResize)).
Proof. vm_compute. reflexivity. Qed.

(* ---- non-vacuity: three wakes from other threads and two keys typed before a poll with
   timeout zero: the poll returns Wake; the next two return the keys in order; then nothing *)
Example C17_session_example :
  let r0 : round_env N := mkR true [] false None false [] [] [] 1024 in
  let s0 : pstate N N := opened 7 8 in
  let s1 := arrive_all s0 [MWake; MInput [97; 98]%N; MWake; MWake] in
  let '(a, s2, _) := poll true s1 [r0; r0] in
  let '(b, s3, _) := poll true s2 [r0; r0] in
  let '(c, s4, _) := poll true s3 [r0; r0] in
  let '(d, s5, _) := poll true s4 [r0; r0] in
  (a, b, c, d) = (PRet (Some EvWake), PRet (Some (EvInput 97%N)), PRet (Some (EvInput 98%N)), PRet None)
  /\ pipe s5 = 0 /\ g_owed_wake s5 = false.
Proof. vm_compute. repeat split; reflexivity. Qed.

(* a termination signal: quit error; the drop afterwards restores the settings and delivers the
   closing sequence (the peer answers the device attributes request with token 9) *)
Example C17_quit_and_restore_example :
  let r0 : round_env N := mkR true [] false (Some 100%N) false [] [] [] 1024 in
  let r1 : round_env N := mkR false [MInput [9%N]] false (Some 100%N) false [] [] [] 1024 in
  let s0 : pstate N N := opened 7 8 in
  let '(a, s1, _) := poll true (arrive s0 MTerm) [r0; r0] in
  a = PErr Quit
  /\ match dispose (fun t => N.eqb t 9) [27; 99]%N 5 s1 [r0; r1; r1; r1] with
     | Some s' => cur s' = 7%N /\ tty (io s') = [27; 99]%N /\ queue_empty s' = true
     | None => False
     end.
Proof. vm_compute. repeat split; reflexivity. Qed.

Check @C17_wake_partial : forall (A T : Type) finite (s : pstate A T) sched, Wk s ->
  let '(res, s', _) := poll finite s sched in res = PRet (Some EvWake) \/ Wk s'.
