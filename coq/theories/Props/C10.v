(* C10 — view layout honours constraints, never panics, and draws where it says it does.
   Statements only; proofs in View/*.v.

   Vocabulary (View/ViewModel.v):
     vtree        a tree of library views: text, str, flex (direction, justification, children with flex
                  factor / face / alignment, zero or more), container (size, alignments, margins, face), frame,
                  scroll bar, tag, Option::None, dynamic (any function from the constraint to a view), fill
                  (RGBA), unit, image, glyph, and the harness's probe leaf.  Option::Some / Either are the
                  wrapped view itself.  Trees deserialised from JSON are trees of this type.
     ct, Valid    BoxConstraint with min <= max per axis (any extents, including 0 and 1)
     vctx         glyph capability, char widths, pixels per cell
     layout       View::layout: outcome of a layout tree (Panic where the code would panic)
     render       View::render over a surface `sh` of a backing slice, through Layout::apply_to
     Rep H W sh w (C07) `sh` is the surface of window `w` of an H x W canvas (plain, offset, strided,
                  transposed views) *)
From Coq Require Import List Arith Bool NArith ZArith.
From SNT Require Import Base.Outcome Surface.Bounds Surface.Shape Surface.ShapeProofs
  Render.CellLayout Render.Writer Render.WriterFrame View.ViewModel View.LayoutProofs View.RenderProofs.
Import ListNotations.
Local Open Scope N_scope.

(* (1) Layout is total: for every view tree, both glyph settings (any context) and every valid
   constraint, View::layout returns a layout tree; it never panics. *)
Theorem C10_layout_total : forall (vc : vctx) (v : vtree) (c : ct),
  Valid c -> exists t, layout vc v c = Ok t.
Proof. exact layout_total. Qed.

(* (2) The size reported by text, str, flex, container, fill, unit, image, glyph (and probe) views lies
   within the given constraint. *)
Theorem C10_within : forall (vc : vctx) (v : vtree) (c : ct) (t : ltree),
  claimed_kind v = true -> Valid c -> layout vc v c = Ok t ->
  c_minh c <= l_hh t <= c_maxh c /\ c_minw c <= l_ww t <= c_maxw c.
Proof. exact layout_within. Qed.

(* (3) Rendering any view tree with ANY layout tree (in particular the one layout produced) into any
   surface cut out of a canvas never panics -- it completes, or reports InvalidLayout when the layout
   tree does not have the nodes the view expects -- and a completed rendering pass leaves every element
   of the backing slice outside the surface unchanged. *)
Theorem C10_render_contained : forall (H W : nat) (vc : vctx) (v : vtree) (t : ltree) (sh : shape) (w : window) (s : rst),
  (Z.of_nat (Nat.max H W) <= i64_max)%Z -> Rep H W sh w -> (H * W <= length (r_data s))%nat ->
  match render vc v t sh s with
  | Ok s' => Frame sh (r_data s) (r_data s')
  | Err _ => True
  | Panic _ => False
  | OutOfFuel => False
  end.
Proof. intros H W vc v t sh w s Hmax Hrep Hlen. exact (render_safe H W Hmax vc v t sh w s Hrep Hlen). Qed.

(* Layout::apply_to always cuts a sub-window of the surface it is given *)
Theorem C10_apply_to_inside : forall (H W : nat) (sh : shape) (w : window) (t : ltree),
  (Z.of_nat (Nat.max H W) <= i64_max)%Z -> Rep H W sh w ->
  exists w', Rep H W (apply_to sh t) w' /\ forall k, in_view (apply_to sh t) k -> in_view sh k.
Proof. exact rep_apply_to. Qed.

Check C10_layout_total : forall (vc : vctx) (v : vtree) (c : ct), Valid c -> exists t, layout vc v c = Ok t.
Check C10_within : forall (vc : vctx) (v : vtree) (c : ct) (t : ltree),
  claimed_kind v = true -> Valid c -> layout vc v c = Ok t ->
  c_minh c <= l_hh t <= c_maxh c /\ c_minw c <= l_ww t <= c_maxw c.

(* ---------- the arithmetic of flex_layout / Container::layout as coded before the repairs ---------- *)
(* usize division and subtraction as debug Rust performs them *)
Definition udiv (a b : N) : outcome N := if b =? 0 then Panic 1 else Ok (a / b).
Definition usub (a b : N) : outcome N := if a <? b then Panic 2 else Ok (a - b).
Definition uadd (a b : N) : outcome N := if UMAX <? a + b then Panic 3 else Ok (a + b).

(* Justify::SpaceAround: unused / children.len() *)
Lemma C10_space_around_refuted : exists unused n, 0 < unused /\ udiv unused n = Panic 1.
Proof. exists 5, 0. split; reflexivity. Qed.

(* major_remain -= child_major, with a Frame (size child + 2) offered one cell *)
Lemma C10_flex_share_refuted : exists remain child_major, usub remain child_major = Panic 2.
Proof. exists 1, 2. reflexivity. Qed.

(* child.height + margins.top + margins.bottom *)
Lemma C10_margins_refuted : exists h top bottom, (let* a := uadd h top in uadd a bottom) = Panic 3.
Proof. exists 1, UMAX, 1. reflexivity. Qed.

(* ---------- non-vacuity ---------- *)
Definition ex_vc : vctx := mkV (mkCtx true [] dfa0 []) 20 10.
Definition ex_tree : vtree :=
  VFlex Hor JAround
    [(VContainer (VProbe 1 2 3) face0 AShrink ACenter (mkM 1 0 UMAX 1) 0 4, None, None, AEnd);
     (VFrame (VProbe 2 1 1) 255, Some 3%positive, Some (mkFace None (Some 255) 0), AStart);
     (VDynamic (fun c => if 2 * c_maxh c <? c_maxw c then VDynamic (fun _ => VFill 7) else VNone), Some 1%positive, None, AOffset (-1));
     (VFlex Ver JAround [], None, None, AStart)].

Example C10_layout_nonvacuous :
  Valid (mkCt 0 1 5 12) /\
  match layout ex_vc ex_tree (mkCt 0 1 5 12) with
  | Ok t => length (l_kids t) = 4%nat /\ l_hh t <= 5 /\ l_ww t = 11
  | _ => False
  end.
Proof. vm_compute. repeat split; try reflexivity; discriminate. Qed.

Example C10_render_nonvacuous :
  let sh := apply_chain (of_size 8 16) [OpT; OpView (Rng 1 (-1)) (From 1)] in
  match layout ex_vc ex_tree (mkCt 0 1 5 12) with
  | Ok t =>
      match render ex_vc ex_tree t sh (mkR (repeat (mkCell face0 (KChar 32)) 128) []) with
      | Ok s => map fst (r_log s) = [1; 2]
      | _ => False
      end
  | _ => False
  end.
Proof. vm_compute. reflexivity. Qed.
