(* C10 — view layout honours constraints, never panics, and draws where it says it does.
   Statements only; proofs in View/*.v.

   Vocabulary (View/ViewModel.v):
     vtree        a tree of library views: text, str, flex (direction, justification, children with flex
                  factor / face / alignment, zero or more), container (size, alignments, margins, face), frame,
                  scroll bar, tag, Option::None, dynamic (any function from the constraint to a view), fill
                  (RGBA), unit, image, glyph, surface view (SurfaceView<Cell>), image as half blocks
                  (ImageAsciiView), cached view (JSON "ref"), and the harness's probe leaf.  Option::Some /
                  Either / Box / Arc / TraceLayout are the wrapped view itself.  Trees deserialised from JSON
                  (types text, flex, container, tag, image, image_ascii, glyph, ref) are trees of this type;
                  "color" cannot be deserialised at all, custom handler types are whatever they return.
     ct, Valid    BoxConstraint with min <= max per axis (any extents, including 0 and 1)
     vctx         glyph capability, char widths, pixels per cell (ppc_h, ppc_w: any numbers in the model, 0
                  included; the code additionally needs surface extent x ppc <= usize::MAX and an allocatable
                  3x3-cell raster: assumption, props.d/C10.py),
                  v_share: the flex share as a function of (positive factors, index of the flex child,
                  remaining space) -- ANY function: every theorem below holds for every share function, hence
                  for whatever binary64 arithmetic yields for the factors that pass the filter (finite, > 0;
                  all other factors make the child a non-flex child) --, v_frag: the images of the nine
                  fragments of a Frame border -- any nine images
     layout       View::layout: outcome of a layout tree (Panic where the code would panic)
     render       View::render over a surface `sh` of a backing slice, through Layout::apply_to
     Rep H W sh w (C07) `sh` is the surface of window `w` of an H x W canvas (plain, offset, strided,
                  transposed views)

   Counted theorems (14): C10_layout_total, C10_within, C10_render_contained, C10_apply_to_inside, C10_total,
   C10_paint_rect, C10_hit_test, C10_siblings_disjoint, C10_hit_order_free, C10_painted_cell_hits_leaf,
   C10_align_checked, C10_find_path_checked, C10_leaf_confined, C10_text_cap_exact.  The _nonvacuous Examples
   are audited, not counted.  Final state and limits: design/C10.md. *)
From Coq Require Import List Arith Bool NArith ZArith.
From SNT Require Import Base.Outcome Surface.Bounds Surface.Shape Surface.ShapeProofs
  Render.CellLayout Render.Writer Render.WriterFrame View.ViewModel View.LayoutProofs View.RenderProofs
  View.PaintProofs View.FitsProofs View.DisjointProofs View.HitProofs.
Import ListNotations.
Local Open Scope N_scope.

(* (1) Layout is total: for every view tree, both glyph settings (any context) and every valid
   constraint -- any extents, usize::MAX included: the model saturates where the repaired code
   saturates -- View::layout returns a layout tree; it never panics.  The share a flex child is
   offered is `min (v_share vc factors idx remain) remain` for an arbitrary v_share (the repaired code
   caps `(remain * (flex / total)).round() as usize` by the remaining space; the intermediate doubles
   need not be finite -- 1.0 / 1e-320 is +inf -- and the `as usize` cast maps NaN to 0 and +inf to
   usize::MAX, which is why the cap, not the arithmetic, bounds the share).  The correspondence
   check instantiates v_share with exact_share (round half up of remain * f / total) for factors
   that are small dyadic numbers, where binary64 is exact. *)
Theorem C10_layout_total : forall (vc : vctx) (v : vtree) (c : ct),
  Valid c -> exists t, layout vc v c = Ok t.
Proof. exact layout_total. Qed.

(* (2) The size reported by text, str, flex, container, fill, unit, image, glyph, surface, half-block image
   (and probe) views lies within the given constraint. *)
Theorem C10_within : forall (vc : vctx) (v : vtree) (c : ct) (t : ltree),
  claimed_kind v = true -> Valid c -> layout vc v c = Ok t ->
  c_minh c <= l_hh t <= c_maxh c /\ c_minw c <= l_ww t <= c_maxw c.
Proof. exact layout_within. Qed.

(* (3) Rendering any view tree with ANY layout tree (in particular the one layout produced) into any
   surface cut out of a canvas never panics -- it completes, or reports InvalidLayout when the layout
   tree does not have the nodes the view expects -- and a completed rendering pass leaves every element
   of the backing slice outside the surface unchanged. *)
Theorem C10_render_contained : forall (H W : nat) (vc : vctx) (v : vtree) (t : ltree) (sh : shape) (w : window) (s : rst),
  (Z.of_nat (Nat.max H W) <= i64_max)%Z -> Rep H W sh w -> (H * W <= length (r_data s))%nat ->
  match render vc v t sh s with
  | Ok s' => Frame sh (r_data s) (r_data s')
  | Err _ => True
  | Panic _ => False
  | OutOfFuel => False
  end.
Proof. intros H W vc v t sh w s Hmax Hrep Hlen. exact (render_safe H W Hmax vc v t sh w s Hrep Hlen). Qed.

(* Layout::apply_to always cuts a sub-window of the surface it is given *)
Theorem C10_apply_to_inside : forall (H W : nat) (sh : shape) (w : window) (t : ltree),
  (Z.of_nat (Nat.max H W) <= i64_max)%Z -> Rep H W sh w ->
  exists w', Rep H W (apply_to sh t) w' /\ forall k, in_view (apply_to sh t) k -> in_view sh k.
Proof. exact rep_apply_to. Qed.

(* (4) Layout followed by render is total: for every view tree, context and valid constraint, and every
   surface cut out of a canvas, layout returns a tree and rendering with it completes (no panic, no
   InvalidLayout), changing nothing outside the surface. *)
Theorem C10_total : forall (H W : nat) (vc : vctx) (v : vtree) (c : ct) (sh : shape) (w : window) (s : rst),
  (Z.of_nat (Nat.max H W) <= i64_max)%Z -> Valid c -> Rep H W sh w -> (H * W <= length (r_data s))%nat ->
  exists t s', layout vc v c = Ok t /\ render vc v t sh s = Ok s' /\ Frame sh (r_data s) (r_data s').
Proof. intros H W vc v c sh w s Hmax Hv Hrep Hlen. exact (layout_render_total H W Hmax vc v c sh w s Hv Hrep Hlen). Qed.

(* (5) Every leaf paints exactly the rectangle the layout tree records for it.  `paints` walks view
   and layout tree together and computes, in the plain-matrix window algebra of C07, the window each
   leaf must be handed: the (position, size) rectangles of the layout nodes on its path, cut one
   out of the other and clipped (win_apply).  Leaves of EVERY kind are listed: text (tag LEAF_TAG+1),
   str (+2), scroll bar (+6, unless its layout has no extent along its axis: then it returns before
   touching the surface), fill (+10), image (+12), glyph (+13), surface view (+15), half-block image
   (+16) and the harness's probe (its own id); unit and Option::None draw nothing.  A completed rendering
   pass has called the leaves it reaches in that order, each with a surface that IS that window (Rep);
   by C10_leaf_confined what the leaf changes lies inside that window. *)
Theorem C10_paint_rect : forall (H W : nat) (vc : vctx) (v : vtree) (t : ltree) (sh : shape) (w : window) (s s' : rst),
  (Z.of_nat (Nat.max H W) <= i64_max)%Z -> Rep H W sh w -> (H * W <= length (r_data s))%nat ->
  render vc v t sh s = Ok s' ->
  exists L, r_log s' = r_log s ++ L /\
    Forall2 (fun (e : N * shape) (x : N * window) => fst e = fst x /\ Rep H W (snd e) (snd x))
            L (paints (has_glyphs (v_r vc)) v t w).
Proof. intros H W vc v t sh w s s' Hmax Hrep Hlen E. exact (render_log H W Hmax vc v t sh w s s' Hrep Hlen E). Qed.

(* (6) Hit-testing: the path FindPath returns descends at every level into the first child whose
   rectangle contains the (relative) position and ends where no child contains it. *)
Theorem C10_hit_test : forall (t : ltree) (r c : N), follows t r c (find_path (depth t) t r c).
Proof. intros t r c. apply find_path_follows. apply Nat.le_refl. Qed.

(* (6b) Siblings never share a point: in every layout tree View::layout produces -- whatever the view
   tree, context (share function included) and constraint, valid or not -- the rectangles of the
   children of every node are pairwise disjoint (only Flex has several children; its placing pass
   starts every child where the previous one ended, saturating).  Hence hit-testing does not depend on
   the order in which children are tried: a child that contains the position is the one found.
   Layout trees built by hand (Layout::push at arbitrary positions) can overlap; for those (6) says the
   first match wins. *)
Theorem C10_siblings_disjoint : forall (vc : vctx) (v : vtree) (c : ct) (t : ltree),
  layout vc v c = Ok t -> DisjTree t.
Proof. exact layout_disjoint. Qed.

Theorem C10_hit_order_free : forall (kids : list ltree) (i : nat) (k : ltree) (r c : N),
  ForallOrdPairs no_common_point kids -> nth_error kids i = Some k -> contains k r c ->
  find_child kids 0 r c = Some (i, k).
Proof. exact disjoint_hit_unique. Qed.

(* (6c) The last clause of the property: hit-testing any cell a leaf paints leads to that leaf's node.
   paint_paths is `paints` with the chain of child indices of every leaf's layout node; for the tree layout
   produced, every cell (i, j) of the window a leaf is handed is the cell (R, C) of the surface the root
   node draws into (positions relative to the root node, as Layout::find_path takes them), and find_path
   from (R, C) starts with exactly that chain (HitOk). *)
Theorem C10_painted_cell_hits_leaf : forall (vc : vctx) (v : vtree) (c : ct) (t : ltree) (w : window),
  layout vc v c = Ok t ->
  map fst (paint_paths (has_glyphs (v_r vc)) v t w) = paints (has_glyphs (v_r vc)) v t w /\
  Forall (HitOk t w) (paint_paths (has_glyphs (v_r vc)) v t w).
Proof. exact layout_paint_hit. Qed.

(* (1b) The model performs the plain `-` and `/` of the code as checked operations (usub / udiv: Panic on
   underflow / zero divisor) at Align::align (container.rs:39-45), the spacing of Justify
   (flex.rs:431-436), the scroll bar position (scrollbar.rs:141) and FindPath::next (layout.rs:245-246);
   saturating_sub stays truncated subtraction.  C10_layout_total therefore says these never fire inside
   layout; the two statements below say it for Align::align and find_path on their own, for all inputs. *)
Theorem C10_align_checked : forall (a : align) (size space : N), align_chk a size space = Ok (align_pos a size space).
Proof. exact align_chk_ok. Qed.

Theorem C10_find_path_checked : forall (fuel : nat) (t : ltree) (r c : N),
  find_path_chk fuel t r c = Ok (find_path fuel t r c).
Proof. exact find_path_chk_ok. Qed.

Check C10_layout_total : forall (vc : vctx) (v : vtree) (c : ct), Valid c -> exists t, layout vc v c = Ok t.
Check C10_within : forall (vc : vctx) (v : vtree) (c : ct) (t : ltree),
  claimed_kind v = true -> Valid c -> layout vc v c = Ok t ->
  c_minh c <= l_hh t <= c_maxh c /\ c_minw c <= l_ww t <= c_maxw c.

(* (7) every leaf view changes the slice only inside the rectangle its own layout node records *)
Theorem C10_leaf_confined : forall (H W : nat) (vc : vctx) (v : vtree) (t : ltree) (sh : shape) (w : window) (s s' : rst),
  (Z.of_nat (Nat.max H W) <= i64_max)%Z -> is_leaf v = true -> Rep H W sh w -> (H * W <= length (r_data s))%nat ->
  render vc v t sh s = Ok s' ->
  Frame (apply_to sh t) (r_data s) (r_data s') /\ Rep H W (apply_to sh t) (win_apply w t).
Proof.
  intros H W vc v t sh w s s' Hmax Hl Hrep Hlen E. split.
  - exact (leaf_confined H W Hmax vc v t sh w s s' Hl Hrep Hlen E).
  - now apply rep_apply_win.
Qed.

(* (8) the cap on the available width inside the model of Text::layout does not change the result *)
Theorem C10_text_cap_exact : forall (vc : vctx) (cells : list ccell) (wraps : bool) (maxw : N),
  text_size (v_r vc) cells wraps (N.to_nat (N.min maxw (N.of_nat (text_bound vc cells)))) =
  text_size (v_r vc) cells wraps (N.to_nat maxw).
Proof. exact text_size_cap. Qed.

(* The defects repaired in the crate (division by zero, underflow, overflows, infinite share and infinite
   factor, endless loops, zero-width frame stroke) are documented by failing inputs replayed on the unrepaired code: corpus/C10/*.jsonl and
   known_findings.d/C10.json. *)

(* ---------- non-vacuity ---------- *)
Definition ex_vc : vctx := mkV (mkCtx true [] dfa0 []) 20 10 exact_share (fun i => 1000 + N.of_nat i).
Definition ex_tree : vtree :=
  VFlex Hor JAround
    [(VContainer (VProbe 1 2 3) face0 AShrink ACenter (mkM 1 0 UMAX 1) 0 4, None, None, AEnd);
     (VFrame (VProbe 2 1 1) 255, Some 3%positive, Some (mkFace None (Some 255) 0), AStart);
     (VDynamic (fun c => if 2 * c_maxh c <? c_maxw c then VDynamic (fun _ => VFill 7) else VNone), Some 1%positive, None, AOffset (-1));
     (VFlex Ver JAround [], None, None, AStart)].

Example C10_layout_nonvacuous :
  Valid (mkCt 0 1 5 12) /\
  match layout ex_vc ex_tree (mkCt 0 1 5 12) with
  | Ok t => length (l_kids t) = 4%nat /\ l_hh t <= 5 /\ l_ww t = 11
  | _ => False
  end.
Proof. vm_compute. repeat split; try reflexivity; discriminate. Qed.

Example C10_layout_huge_nonvacuous :
  Valid (mkCt 0 0 UMAX UMAX) /\
  match layout ex_vc (VFlex Hor JBetween [(VFill 1, None, None, AStart); (VFill 2, None, None, AEnd);
                                            (VFrame (VScrollBar Ver face0 1 1 0) 3, Some 2%positive, None, ACenter)])
               (mkCt 0 0 UMAX UMAX) with
  | Ok t => l_ww t = UMAX /\ length (l_kids t) = 3%nat
  | _ => False
  end.
Proof. vm_compute. repeat split; try reflexivity; discriminate. Qed.

Example C10_render_nonvacuous :
  let sh := apply_chain (of_size 8 16) [OpT; OpView (Rng 1 (-1)) (From 1)] in
  match layout ex_vc ex_tree (mkCt 0 1 5 12) with
  | Ok t =>
      match render ex_vc ex_tree t sh (mkR (repeat (mkCell face0 (KChar 32)) 128) []) with
      | Ok s => map fst (r_log s) = [1; 2] /\
                map fst (paints true ex_tree t (win_chain (win_root 8 16) [OpT; OpView (Rng 1 (-1)) (From 1)])) = [1; 2]
      | _ => False
      end
  | _ => False
  end.
Proof. vm_compute. split; reflexivity. Qed.

(* every leaf kind appears in the log, in drawing order, each with the window `paints` computes *)
Definition ex_leaves : vtree :=
  VFlex Ver JStart
    [(VText [mkCell face0 (KChar 97)] true, None, None, AStart); (VStr [98], None, None, AStart);
     (VFill 3, Some 1%positive, None, AStart); (VImage 5 40 20, None, None, AStart);
     (VGlyph 7 1 2 [99], None, None, AStart); (VSurface 1 1 (mkCell face0 (KChar 100)), None, None, AStart);
     (VImageAscii 2 2 9, None, None, AStart); (VScrollBar Hor face0 0 1 2, None, None, AStart);
     (VProbe 4 1 1, None, None, AStart); (VUnit, Some 1%positive, None, AStart)].

Example C10_paint_all_leaves_nonvacuous :
  match layout ex_vc ex_leaves (mkCt 0 0 12 9) with
  | Ok t =>
      match render ex_vc ex_leaves t (of_size 12 9) (mkR (repeat (mkCell face0 (KChar 32)) 108) []) with
      | Ok s => map fst (r_log s) = map (fun k => LEAF_TAG + k) [1; 2; 10; 12; 13; 15; 16; 6] ++ [4] /\
                map fst (paints true ex_leaves t (win_root 12 9)) = map fst (r_log s)
      | _ => False
      end
  | _ => False
  end.
Proof. vm_compute. split; reflexivity. Qed.

(* two flex children side by side: disjoint, and the second is found for a position inside it *)
Example C10_siblings_nonvacuous :
  match layout ex_vc (VFlex Hor JStart [(VProbe 1 2 3, None, None, AStart); (VProbe 2 2 3, None, None, AStart)]) (mkCt 0 0 4 10) with
  | Ok t => find_path (depth t) t 1 4 = [1%nat] /\ find_path (depth t) t 1 2 = [0%nat] /\ find_path (depth t) t 1 7 = []
  | _ => False
  end.
Proof. vm_compute. repeat split. Qed.

(* the two probes of C10_siblings_nonvacuous: chains [0] and [1]; cell (1, 1) of the second probe's window
   is cell (1, 4) of the root surface, where find_path yields [1] *)
Example C10_painted_cell_hits_leaf_nonvacuous :
  let v := VFlex Hor JStart [(VProbe 1 2 3, None, None, AStart); (VProbe 2 2 3, None, None, AStart)] in
  match layout ex_vc v (mkCt 0 0 4 10) with
  | Ok t => map snd (paint_paths true v t (win_root 4 10)) = [[0%nat]; [1%nat]] /\
            map (fun e => win_coord (snd (fst e)) 1 1) (paint_paths true v t (win_root 4 10)) = [(1, 1); (1, 4)]%nat /\
            find_path_chk (depth t) t 1 4 = Ok [1%nat]
  | _ => False
  end.
Proof. vm_compute. repeat split. Qed.

(* the checked operators do fire where the code would: Align::End with the size clamp removed *)
Example C10_checked_nonvacuous :
  usub 1005 3 5 = Panic 1005 /\ udiv 1008 7 0 = Panic 1008 /\ align_chk AEnd 5 3 = Ok 0 /\ align_chk ACenter 2 7 = Ok 2 /\
  flex_spaces JBetween 6 3 = Ok (0, 3) /\ flex_spaces JBetween 6 1 = Ok (0, 6) /\ flex_spaces JAround 6 0 = Ok (3, 6).
Proof. vm_compute. repeat split. Qed.
