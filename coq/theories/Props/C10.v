(* C10 — view layout honours constraints, never panics, and draws where it says it does.
   Statements only (placeholder while the proofs are being built). *)
From Coq Require Import List NArith.
From SNT Require Import Base.Outcome View.ViewModel.
Import ListNotations.
Local Open Scope N_scope.

Theorem C10_clamp_within : forall v lo hi x, clampN v lo hi = Ok x -> lo <= x <= hi.
Proof.
  intros v lo hi x. unfold clampN. destruct (hi <? lo) eqn:E; [discriminate|]. apply N.ltb_ge in E.
  intros [= <-]. destruct (v <? lo) eqn:E1; [apply N.ltb_lt in E1|apply N.ltb_ge in E1].
  - split; [apply N.le_refl|exact E].
  - destruct (hi <? v) eqn:E2; [apply N.ltb_lt in E2|apply N.ltb_ge in E2]; split; auto. apply N.le_refl.
Qed.
