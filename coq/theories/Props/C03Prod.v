(* C03 — the production decoders, at the level of the LANGUAGES of the production patterns.
   Separate target (props.d/C03.py `coq_props_more`): these two theorems depend on the C15 certificate
   that the dumped DFA is the subset construction of the dumped NFA (Automata/ProdInstances.v); a change
   of the compile step (e.g. a DFA minimisation) or of the NFA dump breaks these two obligations only. *)
From Coq Require Import List NArith Arith Bool.
From SNT Require Import Base.Outcome Automata.DfaData Automata.DfaDataProofs
  Automata.Tokenizer Automata.TokenizerRun Automata.TokenizerMunch Automata.TokenizerTheorems
  Gen.ProdDFA Automata.ProdNfaData Automata.ProdCheck Automata.ProdCheckProofs Automata.ProdInstances
  Automata.ProdLanguage Gen.ProdNFA.
Import ListNotations.

(* ------------------------------------------------------------------------- *)
(* Leftmost-longest with respect to the LANGUAGES of the production patterns.

   Gen/ProdNFA.v is the NFA the crate builds from the registered matchers right before `compile()`
   (NFA::choice of the tagged patterns); C15_production_event / _command prove that the dumped DFA
   is its subset construction.  Composed with C03_munch / C03_longest / C03_raw_span /
   C03_accepted_span: for every byte stream and every partition into reads the events are a
   tokenisation `LMunch` in which every token is characterised ON THE NFA (ProdLanguage.LangTok):
     - if the NFA accepts the token's bytes: no longer prefix of the remaining stream is accepted by
       the NFA, and the token is what decode_item makes of a state whose tag list is exactly the set
       of tags of the NFA states reached by those bytes (the code uses the first of that list, in the
       order of its BTreeSet<MatcherTag>: literal items, then matchers by index);
     - otherwise no prefix of the remaining stream is accepted by the NFA and the token is raw: the
       longest prefix on which the NFA is still live (or one byte when no pattern starts with it);
     - what stays pending at the end is live on the NFA in all its prefixes. *)
Section ProdLang.
  Variable Item : Type.
  Variable decode_item : N -> list N -> option Item.

  Lemma event_terminal_ok : terminal_ok (DfaData.compile event_data) = true.
  Proof. vm_compute. reflexivity. Qed.
  Lemma command_terminal_ok : terminal_ok (DfaData.compile command_data) = true.
  Proof. vm_compute. reflexivity. Qed.

  Theorem C03_prod_language_event : forall (chunks : list (list N)) (fuel : nat),
    ProdCheckProofs.bytes (concat chunks) ->
    (length (concat chunks) + 3 <= fuel)%nat ->
    exists ts s',
      feed N Item (d_start event_dfa) (d_delta event_dfa) (d_accepting event_dfa) (d_terminal event_dfa)
           decode_item fuel (init (d_start event_dfa)) chunks = Ok (ts, s') /\
      LMunch event_nfa_data event_data decode_item (concat chunks) ts (sbuf s').
  Proof.
    intros chunks fuel Hb Hf. rewrite event_dfa_eq.
    set (D := DfaData.compile event_data).
    destruct (feed_munch N Item (d_start D) (d_delta D) (d_accepting D) (d_terminal D) decode_item chunks fuel Hf)
      as (s' & HF & Hp & _).
    exists (fst (munch N Item (d_start D) (d_delta D) (d_accepting D) (d_terminal D) decode_item (concat chunks))), s'.
    split; [exact HF|]. rewrite Hp.
    apply (Munch_language event_nfa_data event_data event_subset_construction event_terminal_ok decode_item _ _ _ Hb).
    apply munch_Munch.
  Qed.

  Theorem C03_prod_language_command : forall (chunks : list (list N)) (fuel : nat),
    ProdCheckProofs.bytes (concat chunks) ->
    (length (concat chunks) + 3 <= fuel)%nat ->
    exists ts s',
      feed N Item (d_start command_dfa) (d_delta command_dfa) (d_accepting command_dfa) (d_terminal command_dfa)
           decode_item fuel (init (d_start command_dfa)) chunks = Ok (ts, s') /\
      LMunch command_nfa_data command_data decode_item (concat chunks) ts (sbuf s').
  Proof.
    intros chunks fuel Hb Hf. rewrite command_dfa_eq.
    set (D := DfaData.compile command_data).
    destruct (feed_munch N Item (d_start D) (d_delta D) (d_accepting D) (d_terminal D) decode_item chunks fuel Hf)
      as (s' & HF & Hp & _).
    exists (fst (munch N Item (d_start D) (d_delta D) (d_accepting D) (d_terminal D) decode_item (concat chunks))), s'.
    split; [exact HF|]. rewrite Hp.
    apply (Munch_language command_nfa_data command_data command_subset_construction command_terminal_ok decode_item _ _ _ Hb).
    apply munch_Munch.
  Qed.
End ProdLang.

(* non-vacuity: the hypothesis holds of real streams, e.g. the crate's test_reschedule input *)
Example C03_prod_language_nonvacuous : ProdCheckProofs.bytes [27; 79; 84]%N.
Proof. intros c [<-|[<-|[<-|[]]]]; reflexivity. Qed.

