(* C04 -- Every well-formed terminal report or key sequence decodes to what it encodes.

   Property text: "For every key, mouse action, cursor/size/mode/attribute/colour/termcap/
   keyboard-level report, kitty image response, bracketed paste and SGR sequence a terminal can
   legitimately send, with any parameter values, the decoder returns the event those bytes
   denote: the key or button named by the library's fixed naming table and exactly the
   transmitted coordinates, modifiers, numbers, colours and text.  Concatenating such sequences
   and plain UTF-8 text yields the concatenation of their events; a complete sequence is never
   merged with or corrupted by its neighbours."  Ambiguous legacy encodings (bare ESC-prefixed
   keys followed by more input, CSI 1;nR vs modified F3) are resolved in favour of the key.

   Objects: `print` / `denote` / `wf` -- the independent protocol printer (Decoder/Printer.v,
   specification side); `prod_decode` -- the model of TTYEventDecoder: the tokeniser
   specification `munch` of C03 over the regenerated production automaton (Gen/ProdDFA.v) with
   the payload decoders of Decoder/EvModel.v and the key names of Gen/C04Keys.v;
   `prod_wf r` = `wf r` at the regenerated name tables: decided on the specification side only
   (parameter bounds; for table keys: in the table and not one of the six bare ESC-prefixes);
   that the automaton is in a terminal accepting state after `print r` (self-delimiting) is a
   THEOREM (C04_self_delimiting), not a hypothesis.  Statements only; proofs in Decoder/C04Main.v and the files it imports.

   `proved_family r` is true for every report except: `RSgr` (an SGR sequence denotes a face
   modification, characterised by its meaning: C04_sgr_event) and `RFaceReport` with one of 7/27/39/49
   (known finding: C04_face_report_recorded states the recorded behaviour for every well-formed
   parameter string).  Hence the `_partial` suffix of the two headline theorems.

   Final state.  Counted theorems (11): C04_single_partial, C04_concat_partial, C04_chunking,
   C04_key_table, C04_xterm_keys (every modifier mask 0..255 since crate fix 8f4107f),
   C04_key_table_coverage, C04_sgr_event, C04_self_delimiting, C04_key_modifiers, C04_tables,
   C04_cpr_vs_f3.  Audited, not counted: lemmas C04_fast_decode, C04_key_mask8_decodes, C04_da_set,
   C04_face_report_recorded; examples C04_nonvacuous, C04_f3_mask8_not_wf, C04_sgr_event_nonvacuous,
   C04_self_delimiting_nonvacuous, C04_chunking_nonvacuous.  Spec decisions in `wf`: CSI 1;nR is the
   modified F3 for n = 2..8 and the cursor report otherwise (PC-style F3 with mask >= 8 is not wf);
   DA1 attributes > 0; the six bare ESC-prefixes are not wf.  Open known finding:
   C04-face-report-inverse (class sgr-inexpressible-report). *)
From Coq Require Import List NArith Bool.
From SNT Require Import Base.Outcome Base.Dec10 Automata.DfaData Automata.Tokenizer.
From SNT Require Import Render.FaceModel Decoder.SgrRef.
From SNT Require Import Decoder.EvModel Decoder.Printer Decoder.EvProd Decoder.EvProofs Decoder.EvFamilies2 Decoder.EvXterm Decoder.C04Main.
From SNT Require Import Gen.ProdDFA Gen.C04Keys.
Import ListNotations.
Local Open Scope N_scope.

(* 1. one report, any parameter values, anything after it *)
Theorem C04_single_partial : forall (r : report) (rest : list N),
  proved_family r = true -> prod_wf r = true ->
  prod_decode (print r ++ rest) = (prod_denote r :: fst (prod_decode rest), snd (prod_decode rest)).
Proof. exact single_report. Qed.

(* 2. concatenation: the events of a sequence of reports are the sequence of their events, and
   whatever follows is decoded as if it stood alone *)
Theorem C04_concat_partial : forall (rs : list report) (rest : list N),
  forallb (fun r => proved_family r && prod_wf r) rs = true ->
  prod_decode (concat (map print rs) ++ rest)
  = (map prod_denote rs ++ fst (prod_decode rest), snd (prod_decode rest)).
Proof. exact concat_reports. Qed.

(* 3. the same events under every partition of the stream into reads (C03 instantiated) *)
Theorem C04_chunking : forall (chunks : list (list N)) (fuel : nat),
  (length (concat chunks) + 3 <= fuel)%nat ->
  exists s',
    feed N tev (d_start event_dfa) (d_delta event_dfa) (d_accepting event_dfa) (d_terminal event_dfa) prod_item
         fuel (init (d_start event_dfa)) chunks
    = Ok (fst (prod_munch (concat chunks)), s')
    /\ sbuf s' = snd (prod_munch (concat chunks)).
Proof. exact chunking. Qed.

(* 3b. the linear evaluation function used by the case files is the specification *)
Lemma C04_fast_decode : forall s : list N, prod_decode_fast s = fst (prod_decode s).
Proof. exact fast_decode. Qed.

(* 4. the literal key table (re-checked on the regenerated automaton): every self-delimiting
   sequence of the table decodes to the key the table names *)
Theorem C04_key_table : forall (w rest : list N),
  lit_lookup prod_key_table w <> None -> bare_prefix w = false ->
  prod_decode (w ++ rest) = (prod_denote (RLit w) :: fst (prod_decode rest), snd (prod_decode rest)).
Proof. intros w rest Hl Hs. exact (decode_single _ _ rest (single_literal w Hl Hs)). Qed.

(* 4b. the library names the xterm PC-style / VT220-style sequences as the protocol documents do:
   cursor / editing / function keys with EVERY modifier mask 0..255 (xterm shift / alt / ctrl / meta,
   kitty super / hyper / meta / caps_lock / num_lock), Alt+letter, Alt+digit, Ctrl+letter.  (`wf`
   excludes one form only: PC-style F3 with a mask >= 8, whose bytes CSI 1 ; n R are the cursor
   position report -- it has the VT220-style form CSI 13 ; n ~.)  Masks >= 8 hold since crate fix
   8f4107f (former known finding C04-key-mask); regression: C04_key_mask8_decodes *)
Theorem C04_xterm_keys : forall (k : kname) (mods : N) (alt_form : bool) (rest : list N),
  wf decmode_all prod_key_table (RXterm k mods alt_form) = true ->
  prod_decode (print (RXterm k mods alt_form) ++ rest) = (EKey k mods :: fst (prod_decode rest), snd (prod_decode rest)).
Proof. exact xterm_keys_decode. Qed.

Lemma C04_key_mask8_decodes :
  print (RXterm KUp 8 false) = [27; 91; 49; 59; 57; 65]
  /\ fst (prod_decode (print (RXterm KUp 8 false))) = [EKey KUp 8]
  /\ fst (prod_decode (print (RXterm KDelete 133 false))) = [EKey KDelete 133].
Proof. exact xterm_mask8_decodes. Qed.

(* 4b'. coverage: every entry of the library's literal table is pinned by the reference encoding
   (C04_xterm_keys) except 12 entries whose names are the library's own choice: the six
   introducers, CSI P..S, and rxvt's CSI 7~ / CSI 8~ *)
Theorem C04_key_table_coverage :
  forallb (fun e => mem_bytes (fst e) xterm_image || mem_bytes (fst e) trusted_names) prod_key_table = true
  /\ length trusted_names = 12%nat.
Proof. exact table_coverage. Qed.

(* 4c. an SGR sequence received as an event: the modification's meaning is the reference SGR
   machine of C06 (the DECRPSS face report is part of C04_single_partial) *)
Theorem C04_sgr_event : forall (p rest : list N),
  SgrRef.sgr_wf p = true -> SgrRef.sgr_inexpressible p = false ->
  exists m, prod_decode (print (RSgr p) ++ rest) = (EFaceModify m :: fst (prod_decode rest), snd (prod_decode rest))
            /\ forall r, SgrRef.rapply m r = SgrRef.ref_sgr p r.
Proof. exact sgr_event_decode. Qed.

(* 4d. every well-formed report is self-delimiting *)
Theorem C04_self_delimiting : forall r : report,
  proved_family r = true -> prod_wf r = true -> self_delimiting (print r) = true.
Proof. exact wf_self_delimiting. Qed.

(* 4e. what DA1 denotes: THE strictly increasing list with the elements of the transmitted one
   (a fact about the specification's own `sort_dedup`: a lemma, not counted as an obligation) *)
Lemma C04_da_set : forall l : list N,
  strictly_increasing (sort_dedup l) = true /\ forall y, In y (sort_dedup l) <-> In y l.
Proof. exact sort_dedup_spec. Qed.

(* 4f. DECRPSS face report for EVERY well-formed parameter string: the face of the recorded SGR
   machine (7 / 27 / 39 / 49 ignored -- known finding C04-face-report-inverse = C06-inexpressible seen
   through events: a terminal in reverse video answering the library's own FaceGet loses REVERSE
   although Face can carry it); for strings without these parameters this is the reference machine
   itself and part of C04_single_partial *)
(* (pins the recorded defect: a lemma, not counted as an obligation) *)
Lemma C04_face_report_recorded : forall (p rest : list N),
  sgr_wf p = true ->
  prod_decode (print (RFaceReport p) ++ rest) = (face_report_recorded p :: fst (prod_decode rest), snd (prod_decode rest)).
Proof. exact face_report_recorded_decode. Qed.

(* 5. xterm / fixterms modifier convention: CSI n ; m ~ and CSI 1 ; m X name the key of the
   unmodified sequence with modifier mask m - 1 -- for the literal entries that remain in the table
   (modified F3) and for the parsed matcher (payload decoder 14): every final byte it accepts, every
   code below 32, every parameter 1..256; a code / final byte without an unmodified table entry is no key *)
Theorem C04_key_modifiers :
  forallb mod_entry_ok prod_key_table = true
  /\ forall f code p : N,
       In f (126 :: modkey_finals) -> code < 32 -> 1 <= p <= 256 ->
       ev_payload decmode_codes decstatus_codes 14 ([27; 91] ++ digits code ++ [59] ++ digits p ++ [f])
       = modkey_expect code p f.
Proof. exact key_modifiers. Qed.

(* 6. DecMode::from_usize / DecModeStatus::from_usize know every discriminant of their enum, and
   each variant has the number the xterm documents give to the mode of that name (regenerated
   name/number pairs of src/terminal.rs against Printer.xterm_decmodes / decrpm_statuses) *)
Theorem C04_tables :
  forallb (fun m => existsb (N.eqb m) decmode_codes) decmode_all = true
  /\ forallb (fun s => existsb (N.eqb s) decstatus_codes) decstatus_all = true
  /\ named_tables_agree decmode_named xterm_decmodes = true
  /\ named_tables_agree decstatus_named decrpm_statuses = true.
Proof. exact (conj (proj1 decmode_table_ok) (conj (proj2 decmode_table_ok) decmode_names_ok)). Qed.

(* 7. the named ambiguity: CSI 1 ; n R is the modified F3 *)
Theorem C04_cpr_vs_f3 : forall (n : N) (rest : list N),
  2 <= n <= 8 ->
  prod_decode ([27; 91; 49; 59; 48 + n; 82] ++ rest)
  = (EKey (KF 3) (n - 1) :: fst (prod_decode rest), snd (prod_decode rest)).
Proof. exact cpr_vs_f3. Qed.

Check C04_single_partial : forall (r : report) (rest : list N),
  proved_family r = true -> prod_wf r = true ->
  prod_decode (print r ++ rest) = (prod_denote r :: fst (prod_decode rest), snd (prod_decode rest)).
Check C04_concat_partial : forall (rs : list report) (rest : list N),
  forallb (fun r => proved_family r && prod_wf r) rs = true ->
  prod_decode (concat (map print rs) ++ rest)
  = (map prod_denote rs ++ fst (prod_decode rest), snd (prod_decode rest)).

(* ---- non-vacuity ---- *)
Definition ex_reports : list report :=
  [RMouse 85 true 65534 0; RMouse 128 true 0 0; RCursor 0 0; RChar 8364; RXterm (KF 5) 5 false;
   RDecMode 2004 1; RKittyKey (KF 35) 255 []; RKittyKey (KChar 97) 1 [Some 65]; RKittyKey (KChar 246) 0 [None; Some 59]; RDevAttrs [62; 1; 2; 6; 2]; RSize 24 80 480 1280;
   RPaste [104; 105; 226; 130; 172]; RKeyLevel 5; RLit [27; 91; 49; 59; 53; 82]; RXterm (KF 12) 7 false; RXterm KHome 0 true; RXterm KLeft 8 false; RXterm KPageDown 255 false; RXterm (KF 3) 64 true; RColor (TPalette 255) 1 2 15 Rgb1 true EndBEL; RColor TBg 31 2063 4095 Rgb3 false EndST; RColor TFg 33023 0 65535 Rgb4 false EndST; RKittyImage 7 (Some 3) (Some [69; 78; 79; 69; 78; 84]); RTermcapOk [([84; 78], [120; 116; 101; 114; 109]); ([99; 111], [50; 53; 54])] true; RTermcapFail [[82; 71; 66]] false; RFaceReport [48; 59; 49; 59; 52; 58; 51; 59; 51; 56; 58; 50; 58; 58; 49; 58; 50; 58; 51]].
Example C04_nonvacuous :
  forallb (fun r => proved_family r && prod_wf r) ex_reports = true
  /\ map prod_denote ex_reports
     = [EMouse MWheelUp 261 65534 0; ERaw [27; 91; 60; 49; 50; 56; 59; 49; 59; 49; 77]; ECursor 0 0; EKey (KChar 8364) 0; EKey (KF 5) 5; EDecMode 2004 1;
        EKey (KF 35) 255; EKey (KChar 97) 1; EKey (KChar 246) 0; EDevAttrs [1; 2; 6; 62]; ESize 24 80 480 1280; EPaste [104; 105; 226; 130; 172];
        EKeyLevel 5; EKey (KF 3) 4; EKey (KF 12) 7; EKey KHome 0; EKey KLeft 8; EKey KPageDown 255; EKey (KF 3) 64; EColor (TPalette 255) (RGBA 17 34 255 255); EColor TBg (RGBA 1 128 255 255); EColor TFg (RGBA 128 0 255 255); EKittyImage 7 (Some 3) (Some [69; 78; 79; 69; 78; 84]); ETermcap [([84; 78], Some [120; 116; 101; 114; 109]); ([99; 111], Some [50; 53; 54])]; ETermcap [([82; 71; 66], None)]; EFaceGet (mkFace (Some (RGBA 1 2 3 255)) None 11)]
  /\ length prod_key_table = 164%nat.
Proof. split; [vm_compute; reflexivity|]. split; vm_compute; reflexivity. Qed.

(* the restrictions bite where they should: PC-style F3 with mask 8 is outside wf (it is RCursor 0 8) *)
Example C04_f3_mask8_not_wf :
  prod_wf (RXterm (KF 3) 8 false) = false /\ prod_wf (RXterm (KF 3) 8 true) = true
  /\ prod_wf (RCursor 0 8) = true /\ print (RCursor 0 8) = [27; 91; 49; 59; 57; 82].
Proof. vm_compute. repeat split; reflexivity. Qed.

(* C04_sgr_event is not vacuous: a well-formed expressible parameter string and its event *)
Example C04_sgr_event_nonvacuous :
  let p := [49; 59; 51; 56; 59; 53; 59; 49; 57; 54; 59; 52; 58; 51] in   (* 1;38;5;196;4:3 *)
  SgrRef.sgr_wf p = true /\ SgrRef.sgr_inexpressible p = false
  /\ match fst (prod_decode (print (RSgr p))) with [EFaceModify _] => True | _ => False end.
Proof. vm_compute. repeat split; reflexivity || exact I. Qed.

(* C04_self_delimiting is not vacuous, and the bare ESC-prefixes are really not self-delimiting *)
Example C04_self_delimiting_nonvacuous :
  forallb (fun r => self_delimiting (print r)) ex_reports = true
  /\ self_delimiting [27] = false /\ self_delimiting [27; 91] = false.
Proof. vm_compute. repeat split; reflexivity. Qed.

(* C04_chunking on a concrete stream cut inside two sequences: the real decode loop, fed the three
   reads, returns the tokens of the whole stream *)
Example C04_chunking_nonvacuous :
  let chunks := [[27; 91; 49]; [59; 57; 65; 27; 91; 60; 48; 59]; [51; 59; 52; 77; 120]] in
  match feed N tev (d_start event_dfa) (d_delta event_dfa) (d_accepting event_dfa) (d_terminal event_dfa) prod_item
             20 (init (d_start event_dfa)) chunks with
  | Ok (ts, _) => map tok_event ts = [EKey KUp 8; EMouse MLeft 256 3 2; EKey (KChar 120) 0]
  | _ => False
  end.
Proof. vm_compute. reflexivity. Qed.
