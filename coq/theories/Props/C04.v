(* C04 -- every well-formed terminal report or key sequence decodes to what it encodes. *)
From Coq Require Import List NArith Bool.
From SNT Require Import Decoder.EvProd.
Import ListNotations.
Local Open Scope N_scope.

Theorem C04_literal_count : length prod_literals = 367%nat.
Proof. reflexivity. Qed.
