(* C19 — serialised forms round-trip; no JSON document crashes deserialisation.
   Statements only (under construction). *)
From Coq Require Import List NArith Bool.
From SNT Require Import Base.Outcome Serde.Json Serde.ImageDe.
Import ListNotations.
Local Open Scope N_scope.

Theorem C19_placeholder : image_de JNull = Err 1.
Proof. reflexivity. Qed.
