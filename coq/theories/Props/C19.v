(* C19 — serialised forms round-trip, and no JSON document can crash
   deserialisation.  Statements only; proofs under Serde/ and Keys/.

   Vocabulary
     json                 serde_json::Value as the visitors see it (Serde/Json.v); an object is the
                          sequence of (key, value) pairs delivered, in order, repeats allowed
     image_de / image_ser the hand-written Image visitor and serializer (Serde/ImageDe.v), after the fixes
     pixels_of c data     the pixels a buffer in the c-channel layout stands for (specification)
     face_parse / face_print, parse_chord / print_chord, de_size / ser_size   the text / serde forms
     view_de_kind         ViewDeserializer / TextDeserializer / Glyph visitor (Serde/ViewDe.v view_gen at unit); `orc` and
                          `frgba` are the external deserialisers (rasterize's Path, Scene, BBox, FillRule, colour names;
                          derived Axis / Justify / Align / Margins) as arbitrary functions, `handlers` the registered type names
     view_tree            the same deserialiser building a view tree of the C10 model (Serde/ViewTree.v); node contents
                          come from an arbitrary `content`
     no_panic o           o is Ok or Err (not Panic, and the model's fuel did not run out) *)
From Coq Require Import String.
From Coq Require Import List NArith ZArith Bool.
From SNT Require Import Surface.Bounds Surface.Shape Surface.ShapeProofs
  Render.CellLayout Render.Writer Render.WriterFrame View.ViewModel View.LayoutProofs.
From SNT Require Import Base.Outcome Keys.KeyParse Keys.KeyParseProofs Keys.KeyParseRoundTrip
  Encoder.Base64 Serde.Json Serde.ImageDe Serde.ImageProofs Serde.FaceStr Serde.FaceProofs
  Serde.ViewDe Serde.ViewProofs Serde.ImageCrop Serde.ViewTree.
Import ListNotations.
Local Open Scope N_scope.

(* ---- faces: any RGBA colours, any attribute set (an underline style and any of the five flags) *)

(* a face printed as text parses back to the same face, whatever the colour-name oracle *)
Theorem C19_face_text : forall (o : str -> option rgba) (f : face),
  face_ok f = true -> face_parse o (face_print f) = Ok f.
Proof. exact face_roundtrip. Qed.

(* serialisation followed by deserialisation *)
Theorem C19_face_json : forall (o : str -> option rgba) (f : face),
  face_ok f = true -> face_de_json o (face_ser f) = Ok f.
Proof. intros o f H. exact (face_roundtrip o f H). Qed.

(* "parses back to the same face" for the faces the crate's own parser produces: every accepted string,
   every colour oracle returning byte colours *)
Theorem C19_face_parsed : forall (o : str -> option rgba), oracle_ok o ->
  forall (s : str) (f : face), face_parse o s = Ok f -> face_parse o (face_print f) = Ok f.
Proof. intros o Ho s f. exact (face_parsed_roundtrip o s f Ho). Qed.

(* ---- sizes *)
Theorem C19_size : forall h w : N,
  h <= u64_max -> w <= u64_max -> de_size (ser_size (h, w)) = Some (h, w).
Proof. exact size_roundtrip. Qed.

(* ---- key chords: every chord that can be written in the textual syntax, i.e. every chord the parser returns *)
Theorem C19_chord : forall (lower : str -> str), lower_spec lower ->
  forall (s : str) (ks : list key),
    parse_chord lower s = Ok ks -> chord_de_json lower (chord_ser ks) = Ok ks.
Proof. intros lower LS s ks H. exact (chord_roundtrip lower LS s ks H). Qed.

(* ---- images *)

(* every image (any size for which h*w pixels of 4 bytes exist, any content — the pixels of a cropped view
   are the view's own pixels): serialisation followed by deserialisation returns it pixel for pixel *)
Theorem C19_image_roundtrip : forall img : image,
  image_ok img -> image_de (image_ser img) = Ok img.
Proof. exact image_roundtrip. Qed.

(* cropped views: the image value of any chain of view operations on an H x W pixel vector (its pixels are
   the cells of the window, Surface/Shape.v `iter`, C07) round-trips *)
Theorem C19_image_cropped : forall (H W : nat) (ops : list vop) (data : list rgba),
  (Z.of_nat (Nat.max H W) <= Bounds.i64_max)%Z ->
  forallb op_in ops = true ->
  (H * W <= List.length data)%nat ->
  forallb rgba_okb data = true ->
  let sh := apply_chain (of_size H W) ops in
  N.of_nat (sh_height sh) <= u64_max -> N.of_nat (sh_width sh) <= u64_max ->
  N.of_nat (sh_height sh) * N.of_nat (sh_width sh) * 4 < usize_lim ->
  image_de (image_ser (view_image sh data)) = Ok (view_image sh data).
Proof. exact cropped_roundtrip. Qed.

(* the three channel layouts on input: whatever the order of the keys and however often they repeat, once
   the visitor has collected a size, a channel count c in {1,3,4} and data of c*h*w bytes, the image has
   exactly the pixels the layout stands for *)
Theorem C19_image_layouts : forall (m : list (str * json)) (acc : img_acc) (h w : N),
  image_fields m acc0 = Ok acc ->
  a_size acc = Some (h, w) ->
  N.of_nat (List.length (a_data acc)) = h * w * a_channels acc ->
  h * w * a_channels acc < usize_lim ->
  image_de (JObj m)
  = Ok {| i_h := h; i_w := w; i_pix := pixels_of (a_channels acc) (a_data acc) |}.
Proof.
  intros m acc h w Hf Hs Hl Hlim. unfold image_de, image_de_gen. rewrite Hf. cbn [bind].
  destruct acc as [sz data c]. cbn [a_size a_data a_channels] in *. subst sz.
  apply image_finish_layout; try assumption.
  exact (image_fields_acc m acc0 _ Hf eq_refl).
Qed.

(* in particular a document with the three fields in any of the six key orders *)
Theorem C19_image_any_key_order : forall (c h w : N) (data : list N) (m : list (str * json)),
  channels_ok c = true -> bytes_ok data = true ->
  h <= u64_max -> w <= u64_max ->
  N.of_nat (List.length data) = h * w * c -> h * w * c < usize_lim ->
  Permutation.Permutation m [(s2l "size", ser_size (h, w)); (s2l "channels", JNum (NU c)); (s2l "data", JStr (rfc4648 data))] ->
  image_de (JObj m) = Ok {| i_h := h; i_w := w; i_pix := pixels_of c data |}.
Proof. exact image_any_order. Qed.

(* any JSON value as an image: a value or an error, never a panic or an overflow *)
Theorem C19_image_total : forall j : json, no_panic (image_de j).
Proof. exact image_de_total. Qed.

(* ---- text forms are total too *)
Theorem C19_face_total : forall (o : str -> option rgba) (s : str), no_panic (face_parse o s).
Proof. exact face_parse_total. Qed.

(* ---- any JSON value as a view tree, a text or a glyph: a value or an error, whatever the external
   deserialisers answer; the recursion is bounded by the nesting depth of the document *)
Theorem C19_view_total : forall (orc : N -> json -> bool) (frgba : str -> option rgba) (handlers : str -> bool)
    (k : vkind) (j : json),
  no_panic (view_de_kind orc frgba handlers k j).
Proof. exact view_de_kind_total. Qed.

(* ---- "any view tree that deserialises successfully can be laid out and rendered".
   view_tree is the same deserialiser (Serde/ViewDe.v view_gen) building the view tree of the C10 model
   instead of (): text -> VText, flex -> VFlex, container -> VContainer, glyph -> VGlyph, image -> VImage,
   image_ascii -> VImageAscii, tag -> VTag, ref -> VRef None, trace-layout -> the inner view; the node contents (cells, faces, alignments,
   flex factors, margins, ids) are arbitrary functions K of the JSON nodes. *)

(* every accepted document has such a view tree *)
Theorem C19_view_tree_covers :
  forall (orc : N -> json -> bool) (frgba : str -> option rgba) (K : content) (handlers : str -> bool)
    (k : vkind) (j : json),
    view_de_kind orc frgba handlers k j = Ok tt -> exists v, view_tree orc frgba K handlers k j = Ok v.
Proof. exact view_tree_covers. Qed.

(* and that view tree lays out under every valid constraint and renders into every surface cut out of a
   canvas: no panic, no InvalidLayout, nothing outside the surface touched.  This is C10_total re-exported at
   the view tree of a document (it holds for every vtree); C19's own content is the previous theorem and the
   mapping `view_tree`, whose node structure (child count and order, wrapper unwrapping, trace-layout
   transparent, cached ref with a node of its own) the run compares, by `skel_fits` (= `vskel`, except that a
   flex child with a factor and no room left keeps its default node), with the layout tree of the really
   deserialised view (Corr/C19Corr.v CView) *)
Theorem C19_view_layout_render :
  forall (orc : N -> json -> bool) (frgba : str -> option rgba) (K : content) (handlers : str -> bool)
    (k : vkind) (j : json) (v : vtree),
    view_tree orc frgba K handlers k j = Ok v ->
    forall (H W : nat) (vc : vctx) (c : ct) (sh : shape) (w : window) (s : rst),
      (Z.of_nat (Nat.max H W) <= Bounds.i64_max)%Z -> Valid c -> Rep H W sh w -> (H * W <= List.length (r_data s))%nat ->
      exists t s', layout vc v c = Ok t /\ render vc v t sh s = Ok s' /\ Frame sh (r_data s) (r_data s').
Proof. exact view_tree_layout_render. Qed.

(* ---- statement pins *)
Check C19_image_roundtrip : forall img : image, image_ok img -> image_de (image_ser img) = Ok img.
Check C19_image_total : forall j : json, no_panic (image_de j).
Check C19_face_text : forall (o : str -> option rgba) (f : face),
  face_ok f = true -> face_parse o (face_print f) = Ok f.
Check C19_view_total : forall (orc : N -> json -> bool) (frgba : str -> option rgba) (handlers : str -> bool)
    (k : vkind) (j : json), no_panic (view_de_kind orc frgba handlers k j).

(* ---- non-vacuity *)
Example C19_image_example :
  let img := {| i_h := 1; i_w := 2; i_pix := [(1, 2, 3, 255); (0, 255, 7, 9)] |} in
  image_ok img
  /\ image_ser img = JObj [(s2l "size", JObj [(s2l "height", JNum (NU 1)); (s2l "width", JNum (NU 2))]);
                           (s2l "channels", JNum (NU 4)); (s2l "data", JStr (s2l "AQID/wD/Bwk="))]
  /\ image_de (JObj [(s2l "data", JStr (s2l "AQID")); (s2l "size", JArr [JNum (NU 1); JNum (NU 1)])])
     = Ok {| i_h := 1; i_w := 1; i_pix := [(1, 2, 3, 255)] |}
  /\ image_de (JObj [(s2l "channels", JNum (NU 1)); (s2l "data", JStr (s2l "AQ==")); (s2l "data", JStr (s2l "Ag=="));
                     (s2l "size", JArr [JNum (NU 2); JNum (NU 1)])])
     = Ok {| i_h := 2; i_w := 1; i_pix := [(1, 1, 1, 255); (2, 2, 2, 255)] |}.
Proof.
  split; [|vm_compute; repeat split; reflexivity].
  unfold image_ok. cbn. repeat split; try reflexivity; vm_compute; try reflexivity; discriminate.
Qed.

(* extreme documents are errors after the repair; the code as it was panicked *)
Example C19_image_extreme :
  let doc := JObj [(s2l "size", JArr [JNum (NU 18446744073709551615); JNum (NU 2)]); (s2l "data", JStr [])] in
  image_de doc = Err 9 /\ image_de_orig doc = Panic 372
  /\ image_de (JObj [(s2l "size", JArr [JNum (NU 4611686018427387904); JNum (NU 0)]);
                     (s2l "channels", JNum (NU 1)); (s2l "data", JStr [])])
     = Ok {| i_h := 4611686018427387904; i_w := 0; i_pix := [] |}.
Proof. vm_compute. repeat split; reflexivity. Qed.

Example C19_face_example :
  let f := {| f_fg := Some (255, 0, 0, 255); f_bg := Some (0, 255, 0, 128); f_attrs := 3 + 8 |} in
  face_ok f = true
  /\ face_print f = s2l "fg=#ff0000,bg=#00ff0080,underline_curly,bold"
  /\ face_parse (fun _ => None) (s2l " fg = #FF0000 ,, bold ")
     = Ok {| f_fg := Some (255, 0, 0, 255); f_bg := None; f_attrs := 8 |}.
Proof. vm_compute. repeat split; reflexivity. Qed.

(* the defect found in the follow-up round: with `|=` as a plain OR of the bits (the code as it was) two
   underline names give the code 6, which prints as no underline and does not parse back *)
Example C19_face_orig_refuted :
  exists s f, face_parse_orig (fun _ => None) s = Ok f
              /\ face_parse_orig (fun _ => None) (face_print f) <> Ok f
              /\ face_parse (fun _ => None) s = Ok {| f_fg := None; f_bg := None; f_attrs := 4 |}.
Proof.
  exists (s2l "underline_double,underline_dotted"), {| f_fg := None; f_bg := None; f_attrs := 6 |}.
  split; [vm_compute; reflexivity|]. split; [vm_compute; discriminate | vm_compute; reflexivity].
Qed.

Example C19_size_chord_example :
  de_size (ser_size (3, 18446744073709551615)) = Some (3, 18446744073709551615)
  /\ chord_de_json ascii_lower (chord_ser [Key (KChar 120) 4; Key (KF 12) 0]) = Ok [Key (KChar 120) 4; Key (KF 12) 0]
  /\ parse_chord ascii_lower (s2l "Ctrl+X F12") = Ok [Key (KChar 120) 4; Key (KF 12) 0].
Proof. vm_compute. repeat split; reflexivity. Qed.

(* a 3x3 pixel vector cropped to rows 1.., columns ..2 *)
Example C19_image_cropped_example :
  let data := map (fun i => (i, i, i, 255)) [0; 1; 2; 3; 4; 5; 6; 7; 8] in
  let sh := apply_chain (of_size 3 3) [OpView (From 1) (To 2)] in
  view_image sh data = {| i_h := 2; i_w := 2; i_pix := [(3, 3, 3, 255); (4, 4, 4, 255); (6, 6, 6, 255); (7, 7, 7, 255)] |}
  /\ image_de (image_ser (view_image sh data)) = Ok (view_image sh data).
Proof. vm_compute. split; reflexivity. Qed.

(* view_tree on a concrete document: flex of a cached ref, a handler type, a wrapper around a container of a
   text, and an image_ascii; with the shape (vskel / skel_fits) the run compares with the real layout tree *)
Example C19_view_tree_example :
  let text := JObj [(s2l "type", JStr (s2l "text")); (s2l "text", JStr (s2l "a"))] in
  let doc := JObj [(s2l "type", JStr (s2l "flex")); (s2l "children", JArr [
      JObj [(s2l "type", JStr (s2l "ref")); (s2l "ref", JNum (NU 7))];
      JObj [(s2l "type", JStr (s2l "custom"))];
      JObj [(s2l "flex", JNum (NF 0)); (s2l "view", JObj [(s2l "type", JStr (s2l "trace-layout")); (s2l "view",
              JObj [(s2l "type", JStr (s2l "container")); (s2l "child", text)])])];
      JObj [(s2l "type", JStr (s2l "image_ascii")); (s2l "size", JArr [JNum (NU 1); JNum (NU 1)]); (s2l "data", JStr (s2l "AQID"))]])] in
  let hs := fun t => str_eqb t (s2l "custom") in
  view_tree (fun _ _ => true) (fun _ => None) (content0 true) hs KView doc
  = Ok (VFlex Hor JStart
         [(VRef (Some (VContainer (VText [] true) face0 AShrink AShrink (mkM 0 0 0 0) 0 0)), None, None, AShrink);
          (VText [] true, None, None, AShrink);
          (VContainer (VText [] true) face0 AShrink AShrink (mkM 0 0 0 0) 0 0, Some 1%positive, None, AShrink);
          (VImageAscii 1 1 0, None, None, AShrink)])
  /\ omap vskel (view_tree (fun _ _ => true) (fun _ => None) (content0 true) hs KView doc)
     = Ok (SK [SK [SK [SK []]]; SK []; SK [SK []]; SK []])
  (* the child with a flex factor may have been left without room (its node then has no children); no other may *)
  /\ omap (fun v => (skel_fits v (SK [SK [SK [SK []]]; SK []; SK [SK []]; SK []]),
                     skel_fits v (SK [SK [SK [SK []]]; SK []; SK []; SK []]),
                     skel_fits v (SK [SK []; SK []; SK [SK []]; SK []])))
       (view_tree (fun _ _ => true) (fun _ => None) (content0 true) hs KView doc)
     = Ok (true, true, false)
  /\ view_de_kind (fun _ _ => true) (fun _ => None) no_handlers KView doc = Err 9.
Proof. vm_compute. repeat split; reflexivity. Qed.

Example C19_view_example :
  let text := JObj [(s2l "type", JStr (s2l "text")); (s2l "text", JArr [JStr (s2l "a"); JObj [(s2l "face", JStr (s2l "bold")); (s2l "text", JStr (s2l "b"))]])] in
  let flex := JObj [(s2l "type", JStr (s2l "flex")); (s2l "children", JArr [text; JObj [(s2l "flex", JNum (NF 0)); (s2l "view", text)]])] in
  view_de_kind (fun _ _ => true) (fun _ => None) no_handlers KView flex = Ok tt
  /\ view_de_kind (fun _ _ => true) (fun _ => None) no_handlers KView (JObj [(s2l "type", JStr (s2l "tag")); (s2l "view", text)]) = Err 8
  /\ view_de_kind (fun _ _ => true) (fun _ => None) no_handlers KGlyph (JObj [(s2l "path", JStr []); (s2l "scene", JNull)]) = Err 2.
Proof. vm_compute. repeat split; reflexivity. Qed.
