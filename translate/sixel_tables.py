#!/usr/bin/env python3
"""Translator for C12: the sixel handler's channel scalings and constants,
read from the text of src/image.rs (SixelImageHandler::draw) and written to
coq/theories/Gen/TabSixel.v.

  pre(x)   = ((x as f32 / A).round() * B) as u8      reduction applied to the image before quantisation
  scale(x) = (x as f32 / C).round() as u8            value written into the palette definition
  quantize(N, dither, ..), `shift > S`, `repeats > R`, band height H

The two scalings are evaluated for all 256 bytes with exact IEEE-754 binary32
semantics (correctly rounded literal, division and multiplication; round half
away from zero; saturating truncation), implemented over fractions.  The
correspondence run validates the tables against the real code on every run
(one-colour images for scale(pre(x)), transparent images over a background for
scale(y)).  Fails loudly when the shape of the source changes.
"""
import os
import re
import sys
from fractions import Fraction

HERE = os.path.dirname(os.path.abspath(__file__))


class TranslateError(Exception):
    pass


def f32(v):
    """Round a non-negative rational to the nearest binary32 value (ties to even), as a Fraction."""
    v = Fraction(v)
    if v == 0:
        return v
    if v < 0:
        return -f32(-v)
    e = 0
    while Fraction(2) ** (e + 1) <= v:
        e += 1
    while Fraction(2) ** e > v:
        e -= 1
    if e < -126:
        raise TranslateError("subnormal range not supported")
    q = Fraction(2) ** (e - 23)
    n = v / q
    fl = n.numerator // n.denominator
    rem = n - fl
    if rem > Fraction(1, 2) or (rem == Fraction(1, 2) and fl % 2 == 1):
        fl += 1
    return fl * q


def round_half_away(v):
    fl = v.numerator // v.denominator
    return fl + 1 if v - fl >= Fraction(1, 2) else fl


def as_u8(v):
    t = v.numerator // v.denominator  # v >= 0: truncation
    return max(0, min(255, t))


def lit(s):
    return f32(Fraction(s))


def find(pattern, text, what):
    m = re.search(pattern, text, re.S)
    if not m:
        raise TranslateError("cannot find %s (source shape changed)" % what)
    return m


NUM = r"([0-9]+(?:\.[0-9]+)?)"


def strip_comments(text):
    """Remove // and /* */ comments (string literals of this function body contain neither)."""
    text = re.sub(r"/\*.*?\*/", "", text, flags=re.S)
    return re.sub(r"//[^\n]*", "", text)


def squeeze(text):
    """Comment- and whitespace-insensitive form of a piece of source: the patterns below are written without blanks."""
    return re.sub(r"\s+", "", strip_comments(text))


def const_int(expr, what):
    """Value of a simple constant expression: integer literals (with _ separators / type suffixes), + - * / << >> ( )."""
    e = strip_comments(expr).strip()
    e = re.sub(r"(?<=[0-9])_(?=[0-9])", "", e)
    e = re.sub(r"(?<=[0-9])(?:usize|u64|u32|u16|u8|isize|i64|i32)\b", "", e)
    if not re.fullmatch(r"[0-9xXa-fA-F+\-*/()<>\s]+", e):
        raise TranslateError("%s is not a simple constant expression: %s" % (what, expr.strip()))
    try:
        v = eval(e.replace("/", "//"), {"__builtins__": {}}, {})
    except Exception as exc:  # noqa: BLE001
        raise TranslateError("cannot evaluate %s (%s): %s" % (what, expr.strip(), exc))
    return int(v)


def generate(repo, gen_dir):
    with open(os.path.join(repo, "src", "image.rs"), encoding="utf-8") as f:
        text = f.read()
    m = find(r"impl\s+ImageHandler\s+for\s+SixelImageHandler\s*\{(.*?)\n    fn\s+erase\s*\(", text, "SixelImageHandler::draw")
    body = squeeze(m.group(1))          # no comments, no whitespace: a reformat of draw does not matter
    pre = []
    for ch in ("red", "green", "blue"):
        m = find(r"let%s=\(\(%sasf32/%s\)\.round\(\)\*%s\)asu8;" % (ch, ch, NUM, NUM), body, "pre-scaling of " + ch)
        pre.append((m.group(1), m.group(2)))
    scale = []
    for ch in ("red", "green", "blue"):
        m = find(r"let%s=\(%sasf32/%s\)\.round\(\)asu8;" % (ch, ch, NUM), body, "palette scaling of " + ch)
        scale.append(m.group(1))
    if len(set(pre)) != 1 or len(set(scale)) != 1:
        raise TranslateError("the three channels are no longer scaled alike")
    a, b = pre[0]
    c = scale[0]
    m = find(r"dimg\.quantize\(([0-9_]+),(true|false),self\.bg\)", body, "quantize call")
    psize, dither = const_int(m.group(1), "palette size"), m.group(2)
    m = find(r"letheight=\(img\.height\(\)/([0-9_]+)\)\*([0-9_]+);", body, "height truncation")
    if const_int(m.group(1), "band") != const_int(m.group(2), "band"):
        raise TranslateError("height truncation uses two different constants")
    band = const_int(m.group(1), "band")
    m = find(r"\.step_by\(([0-9_]+)\)", body, "band step")
    if const_int(m.group(1), "band step") != band:
        raise TranslateError("band step differs from the height truncation")
    m = find(r"letmutsixel=\[0usize;([0-9_]+)\];", body, "sixel array")
    if const_int(m.group(1), "sixel array") != band:
        raise TranslateError("sixel array length differs from the band height")
    shifts = re.findall(r"ifshift>([0-9_]+)\{", body)
    if len(shifts) != 2 or const_int(shifts[0], "shift") != 0:
        raise TranslateError("skip logic changed shape (expected `if shift > 0 { if shift > N {`)")
    shift_min = const_int(shifts[1], "skip threshold")
    m = find(r"ifrepeats>([0-9_]+)\{", body, "repeat threshold")
    rep_min = const_int(m.group(1), "repeat threshold")
    m = find(r"\.push\(\(col,sixel_code\+([0-9_]+)\)\);", body, "sixel offset")
    offset = const_int(m.group(1), "sixel offset")

    m = find(r"const\s+IMAGE_CACHE_SIZE\s*:\s*usize\s*=([^;]+);", text, "IMAGE_CACHE_SIZE")
    cache_limit = const_int(m.group(1), "IMAGE_CACHE_SIZE")
    if len(re.findall(r"whileself\.size>IMAGE_CACHE_SIZE\{", body)) != 1:
        raise TranslateError("cache eviction loop changed shape")

    A, B, C = lit(a), lit(b), lit(c)
    pre_tbl = [as_u8(f32(Fraction(round_half_away(f32(Fraction(x) / A))) * B)) for x in range(256)]
    scale_tbl = [as_u8(Fraction(round_half_away(f32(Fraction(x) / C)))) for x in range(256)]

    def nlist(xs):
        return "[" + "; ".join(str(x) for x in xs) + "]"

    s = "(* GENERATED by translate/sixel_tables.py from src/image.rs — do not edit *)\n"
    s += "From Coq Require Import List NArith.\nImport ListNotations.\nLocal Open Scope N_scope.\n"
    s += "(* ((x as f32 / %s).round() * %s) as u8 *)\n" % (a, b)
    s += "Definition sixel_pre_tbl : list N := %s.\n" % nlist(pre_tbl)
    s += "(* (x as f32 / %s).round() as u8 *)\n" % c
    s += "Definition sixel_scale_tbl : list N := %s.\n" % nlist(scale_tbl)
    s += "Definition sixel_palette_size : N := %d.\n" % psize
    s += "Definition sixel_dither : bool := %s.\n" % dither
    s += "Definition sixel_band : nat := %d%%nat.\n" % band
    s += "Definition sixel_shift_min : N := %d.\n" % shift_min
    s += "Definition sixel_repeat_min : N := %d.\n" % rep_min
    s += "Definition sixel_code_offset : N := %d.\n" % offset
    s += "Definition sixel_cache_limit : N := %d.\n" % cache_limit
    os.makedirs(gen_dir, exist_ok=True)
    path = os.path.join(gen_dir, "TabSixel.v")
    old = None
    if os.path.exists(path):
        with open(path) as f:
            old = f.read()
    if old != s:
        with open(path, "w") as f:
            f.write(s)
        return True
    return False


def hook(ctx):
    """pre_coq hook for props.d/C12.py"""
    try:
        changed = generate(ctx["repo"], os.path.join(ctx["coq"], "theories", "Gen"))
        return 0, "sixel tables: ok; changed=%s" % changed
    except TranslateError as e:
        return 3, "TRANSLATE-ERROR sixel tables: %s" % e


if __name__ == "__main__":
    repo = os.environ.get("VERIF_REPO", "/repo")
    rc, msg = hook({"repo": repo, "coq": os.path.join(HERE, "..", "coq")})
    print(msg)
    sys.exit(rc)
