#!/usr/bin/env python3
"""Anchor of the trait surface of the base64 codec (C14).

The model Encoder/Base64Prog.v covers `Read::read` of Base64Decoder and `Write::{write, flush}` of
Base64Encoder; every other method of std::io::Read / Write is std's DEFAULT method (an iteration of
read / write), which is what the model's operations are defined as.  This pre_coq hook lists the
methods written in `impl Read for Base64Decoder` and `impl Write for Base64Encoder` (and the inherent
methods of both types) and fails the run when a method appears that the model does not cover: an
override (read_to_end, read_exact, write_vectored, write_all ...) replaces the std iteration by code
the theorems say nothing about.  pre_coq(ctx) -> (rc, text).
"""
import os
import re
import sys

COVERED = {
    ("Read", "Base64Decoder"): {"read"},
    ("Write", "Base64Encoder"): {"write", "flush"},
    # inherent methods: only PUBLIC ones are anchored (a new private helper is a refactoring)
    (None, "Base64Decoder"): {"new"},
    (None, "Base64Encoder"): {"new", "finish"},
}
FILES = {"Base64Decoder": "src/decoder.rs", "Base64Encoder": "src/encoder.rs"}


def strip_comments(src):
    src = re.sub(r"//[^\n]*", "", src)
    return re.sub(r"/\*.*?\*/", "", src, flags=re.S)


def impl_blocks(src, ty):
    """yield (trait or None, body) for every `impl ... [Trait for] ty<..> {` block"""
    for m in re.finditer(r"\bimpl\b[^{;]*?\{", src):
        head = m.group(0)
        hm = re.search(r"(?:(\w+(?:::\w+)*)\s+for\s+)?%s\b" % ty, head)
        if not hm or re.search(r"\bfor\s+(?!%s\b)\w" % ty, head):
            continue
        depth, i = 1, m.end()
        while i < len(src) and depth:
            depth += {"{": 1, "}": -1}.get(src[i], 0)
            i += 1
        trait = hm.group(1).split("::")[-1] if hm.group(1) else None
        yield trait, src[m.end():i - 1]


def top_level_fns(body):
    """(name, is_pub) of the functions declared directly in the block"""
    names, depth = [], 0
    for tok in re.finditer(r"[{}]|(\bpub(?:\([^)]*\))?\s+)?(?:(?:const|unsafe|async)\s+)*\bfn\s+(\w+)", body):
        if tok.group(0) == "{":
            depth += 1
        elif tok.group(0) == "}":
            depth -= 1
        elif depth == 0:
            names.append((tok.group(2), tok.group(1) is not None))
    return names


def scan(repo):
    problems, seen = [], {}
    for ty, rel in FILES.items():
        try:
            with open(os.path.join(repo, rel), encoding="utf-8") as f:
                src = strip_comments(f.read())
        except OSError as e:
            return ["cannot read %s: %s" % (rel, e)], seen
        src = src.split("#[cfg(test)]\nmod tests")[0]
        found = False
        for trait, body in impl_blocks(src, ty):
            found = True
            fns = top_level_fns(body)
            seen.setdefault("%s for %s" % (trait, ty) if trait else ty, []).extend(n for n, _ in fns)
            if trait in ("Read", "Write", "BufRead", "Seek") or trait is None:
                covered = COVERED.get((trait, ty), set())
                for fn, is_pub in fns:
                    if fn not in covered and (trait is not None or is_pub):
                        problems.append("%s::%s in `impl %s%s` (%s) is not covered by the model Encoder/Base64Prog.v" % (
                            ty, fn, (trait + " for ") if trait else "", ty, rel))
        if not found:
            problems.append("no impl block of %s found in %s (source shape changed)" % (ty, rel))
    for (trait, ty), fns in COVERED.items():
        if trait is not None:
            have = set(seen.get("%s for %s" % (trait, ty), []))
            for fn in fns - have:
                problems.append("%s::%s is no longer implemented in `impl %s for %s`" % (ty, fn, trait, ty))
    return problems, seen


def pre_coq(ctx):
    repo = ctx.get("repo", os.environ.get("VERIF_REPO", "/repo"))
    problems, seen = scan(repo)
    if problems:
        return 3, "TRANSLATE-ERROR c14impl: the trait surface of the base64 codec changed: " + "; ".join(problems)
    return 0, "translate c14impl: ok (%s)" % "; ".join("%s: %s" % (k, ",".join(v)) for k, v in sorted(seen.items()))


if __name__ == "__main__":
    rc, text = pre_coq({"repo": sys.argv[1] if len(sys.argv) > 1 else os.environ.get("VERIF_REPO", "/repo")})
    print(text)
    sys.exit(rc)
