#!/usr/bin/env python3
"""API surface of the types of src/image.rs that C12 / C13 are about.

`surface(text, types)` lists, for every named type: its fields (name: type), its derives, every `pub fn` of its
inherent impl blocks, every trait it implements (one item per impl block, with the methods defined there) and, for a
trait named in `types`, its method names.  Private helper functions are NOT listed (they are internals reached through
the public ones).  `audit(repo, types, table)` compares that list with the table of a property (props.d/Cxx.py:
item -> (status, where)) and returns the items that appeared / disappeared: a public method, trait impl, derive or
field that no operation program of the property knows about breaks the tie between the checked histories and the
code (reported by `verify` as a broken obligation, no failing input by itself).

    python3 translate/image_api.py [repo] [Type ...]     prints the items
"""
import os
import re
import sys


def _strip_tests(text):
    m = re.search(r"^#\[cfg\(test\)\]\s*\nmod \w+", text, re.M)
    return text[: m.start()] if m else text


def _ws(s):
    return re.sub(r"\s+", " ", s).strip()


def _blocks(text):
    """Top-level items starting in column 0 with `impl`, `struct`, `enum`, `trait` (with pub), as
    (attrs, header, body_lines)."""
    lines = text.split("\n")
    i, out = 0, []
    attrs = []
    while i < len(lines):
        ln = lines[i]
        if ln.startswith("#["):
            attrs.append(ln.strip())
            i += 1
            continue
        if re.match(r"(pub(\([a-z]+\))? )?(unsafe )?(impl|struct|enum|trait)\b", ln):
            header = ln
            j = i
            while "{" not in lines[j] and not lines[j].rstrip().endswith(";") and j + 1 < len(lines):
                j += 1
                header += " " + lines[j]
            body = []
            if "{" in lines[j] and not lines[j].rstrip().endswith("}"):
                j += 1
                while j < len(lines) and not lines[j].startswith("}"):
                    body.append(lines[j])
                    j += 1
            out.append((attrs, _ws(header.split("{")[0]), body))
            attrs = []
            i = j + 1
            continue
        if ln.strip() and not ln.startswith("//"):
            attrs = []
        i += 1
    return out


def _fns(body, pub_only):
    names = []
    for ln in body:
        m = re.match(r"    (pub(?:\([a-z]+\))? )?(?:const )?(?:unsafe )?fn (\w+)", ln)
        if m and (m.group(1) or not pub_only):
            names.append(m.group(2))
    return names


def surface(text, types):
    text = _strip_tests(text)
    items = []
    for attrs, header, body in _blocks(text):
        hook = any("verif-hooks" in a for a in attrs)
        m = re.match(r"(?:pub(?:\([a-z]+\))? )?(struct|enum|trait) (\w+)", header)
        if m:
            kind, name = m.group(1), m.group(2)
            if name not in types:
                continue
            for a in attrs:
                d = re.match(r"#\[derive\((.*)\)\]", a)
                if d:
                    for t in d.group(1).split(","):
                        if t.strip():
                            items.append("%s derives %s" % (name, t.strip()))
            t = re.match(r"(?:pub(?:\([a-z]+\))? )?struct \w+\s*(\(.*\));", header)
            if t:
                items.append("%s%s" % (name, _ws(t.group(1))))
            if kind == "trait":
                for f in _fns(body, False):
                    items.append("trait %s::%s" % (name, f))
            else:
                for ln in body:
                    f = re.match(r"    (?:pub(?:\([a-z]+\))? )?(\w+)\s*:\s*(.*?),?\s*$", ln)
                    v = re.match(r"    (\w+)(\(.*\))?,\s*$", ln)
                    if kind == "struct" and f:
                        items.append("%s.%s: %s" % (name, f.group(1), _ws(f.group(2))))
                    elif kind == "enum" and v:
                        items.append("%s::%s%s" % (name, v.group(1), v.group(2) or ""))
            continue
        m = re.match(r"(?:unsafe )?impl(?:<[^>]*>)?\s+(?:(.+?)\s+for\s+)?(\w+)(?:<[^{]*>)?(?:\s+where\b.*)?$", header)
        if not m:
            continue
        trait, ty = m.group(1), m.group(2)
        if ty not in types:
            continue
        if trait is None:
            for f in _fns(body, True):
                items.append("%s::%s%s" % (ty, f, " [verif-hooks]" if hook else ""))
        else:
            fns = _fns(body, False)
            items.append("impl %s for %s {%s}" % (_ws(trait), ty, ", ".join(fns)))
    return items


def audit(repo, types, table, path="src/image.rs"):
    """(items, appeared, disappeared)"""
    text = open(os.path.join(repo, path)).read()
    items = surface(text, types)
    seen = set(items)
    appeared = [i for i in items if i not in table]
    disappeared = [i for i in table if i not in seen]
    return items, appeared, disappeared


def hook(prop, types, table):
    """An `extra` check for props.d: fail-closed comparison of the surface with the table of the property."""

    def api_surface(ctx):
        res = {"coverage": {}, "violations": [], "notes": []}
        try:
            items, appeared, disappeared = audit(ctx["repo"], types, table)
        except OSError as e:
            res["violations"].append({"kind": "broken-correspondence", "case": {"kind": "api-surface"},
                                      "what": "the API surface of src/image.rs cannot be read: %s" % e})
            return res
        by = {}
        for i in items:
            st = table.get(i, ("unknown", ""))[0]
            by[st] = by.get(st, 0) + 1
        res["coverage"] = {"api_surface_items": len(items), "api_surface_by_status": by}
        for i in appeared:
            res["violations"].append({
                "kind": "broken-correspondence", "case": {"kind": "api-surface", "item": i},
                "what": "src/image.rs now has `%s`, which the audited API surface of %s (design/%s.md) does not list: no operation "
                        "program of the harness exercises it and the model does not cover it" % (i, prop, prop)})
        for i in disappeared:
            res["violations"].append({
                "kind": "broken-correspondence", "case": {"kind": "api-surface", "item": i},
                "what": "`%s` is listed in the audited API surface of %s but is no longer in src/image.rs (changed field, "
                        "signature container or trait impl): the histories of the harness were written against it" % (i, prop)})
        return res

    api_surface.__name__ = "api_surface"
    return api_surface


if __name__ == "__main__":
    repo = sys.argv[1] if len(sys.argv) > 1 else os.environ.get("VERIF_REPO") or "/repo"
    tys = sys.argv[2:] or ["Image", "ColorPalette", "KDTree", "KDNode", "OcTree", "OcTreeNode", "OcTreeInfo", "OcTreeLeaf",
                           "OcTreePath", "ColorError", "SixelImageHandler", "ImageHandler", "Box"]
    for it in surface(open(os.path.join(repo, "src/image.rs")).read(), tys):
        print(it)
