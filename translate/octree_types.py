#!/usr/bin/env python3
"""Translator for C13 (and C12, which quantises through the same code): machine types of the
quantiser's state, read from the text of src/image.rs and src/common.rs and written to
coq/theories/Gen/TabOctree.v.

  OcTreeLeaf  { red_acc, green_acc, blue_acc, color_count, index }  and the casts in from_rgba / `+= RGBA`
  OcTreeInfo  { leaf_count, color_count, min_color_count: Option<_> }
  ColorError  ([f32; 3])          KDNode.color [u8; 3], KDNode.color_index usize, fn dist -> i32 with `as i32` operands
  Rnd { state: u32 }

Only TYPES are extracted (struct fields by name, whatever the layout, comments or attributes; function
bodies are not pinned).  The model (Image/Octree.v) checks every leaf accumulator against the emitted limits
(Panic on overflow); OctreeProofs.machine_words shows the widths cover images of 2^56 pixels, so a narrower
type breaks that obligation.  Fails loudly when a struct or a field disappears.
"""
import os
import re
import sys

HERE = os.path.dirname(os.path.abspath(__file__))

INT_BITS = {"u8": 8, "u16": 16, "u32": 32, "u64": 64, "usize": 64, "u128": 128,
            "i8": 7, "i16": 15, "i32": 31, "i64": 63, "isize": 63, "i128": 127}


class TranslateError(Exception):
    pass


def strip_comments(text):
    text = re.sub(r"/\*.*?\*/", "", text, flags=re.S)
    return re.sub(r"//[^\n]*", "", text)


def struct_fields(text, name, what):
    """name -> type for the fields of `struct <name> { .. }` (comments, attributes, visibility, layout ignored)."""
    m = re.search(r"\bstruct\s+%s\s*\{(.*?)\}" % name, text, re.S)
    if not m:
        raise TranslateError("cannot find %s (source shape changed)" % what)
    body = re.sub(r"#\[[^\]]*\]", "", m.group(1))
    fields = {}
    for f in re.finditer(r"(?:pub(?:\s*\([^)]*\))?\s+)?([A-Za-z_][A-Za-z0-9_]*)\s*:\s*([^,]+?)\s*(?:,|$)", body.strip(), re.S):
        fields[f.group(1)] = re.sub(r"\s+", "", f.group(2))
    return fields


def need(fields, key, what):
    if key not in fields:
        raise TranslateError("%s has no field %s any more" % (what, key))
    return fields[key]


def bits(ty, what):
    if ty not in INT_BITS:
        raise TranslateError("%s has type %s, not an integer type known to the translator" % (what, ty))
    return INT_BITS[ty]


FLOAT_SIGNIFICAND = {"f32": 24, "f64": 53}


def generate(repo, gen_dir):
    with open(os.path.join(repo, "src", "image.rs"), encoding="utf-8") as f:
        img = strip_comments(f.read())
    with open(os.path.join(repo, "src", "common.rs"), encoding="utf-8") as f:
        com = strip_comments(f.read())
    leaf = struct_fields(img, "OcTreeLeaf", "struct OcTreeLeaf")
    red, green, blue = (need(leaf, k, "OcTreeLeaf") for k in ("red_acc", "green_acc", "blue_acc"))
    count, index = need(leaf, "color_count", "OcTreeLeaf"), need(leaf, "index", "OcTreeLeaf")
    # types only: wherever a value is cast on its way into an accumulator, the cast must not be narrower than a byte
    # sum needs (the `+=` itself is done in the field type); bodies of from_rgba / add_assign / to_rgba are not pinned
    for fld, ty in re.findall(r"\b(red_acc|green_acc|blue_acc)\s*(?::|\+=)\s*[A-Za-z_][A-Za-z0-9_.]*\s+as\s+([A-Za-z0-9_]+)", img):
        if bits(ty, "cast into " + fld) < 8:
            raise TranslateError("a value is cast to %s on its way into %s" % (ty, fld))
    info = struct_fields(img, "OcTreeInfo", "struct OcTreeInfo")
    info_leaf, info_color = need(info, "leaf_count", "OcTreeInfo"), need(info, "color_count", "OcTreeInfo")
    m = re.fullmatch(r"Option<([A-Za-z0-9_]+)>", need(info, "min_color_count", "OcTreeInfo"))
    if not m:
        raise TranslateError("OcTreeInfo.min_color_count is no longer an Option of an integer")
    info_min = m.group(1)
    m = re.search(r"\bstruct\s+ColorError\s*\(\s*\[\s*([A-Za-z0-9_]+)\s*;\s*3\s*\]\s*\)", img)
    if not m:
        raise TranslateError("cannot find struct ColorError([_; 3])")
    if m.group(1) not in FLOAT_SIGNIFICAND:
        raise TranslateError("ColorError holds %s, the dithering model assumes a binary float" % m.group(1))
    err_ty = m.group(1)
    kd = struct_fields(img, "KDNode", "struct KDNode")
    m = re.fullmatch(r"\[([A-Za-z0-9_]+);3\]", need(kd, "color", "KDNode"))
    if not m:
        raise TranslateError("KDNode.color is no longer an array of three")
    kd_color = m.group(1)
    # the palette index a node carries (types only): the field, and every cast an index goes through on its way into
    # or out of it (`index as T`, `color_index as T`); the narrowest of them bounds the palette length that survives
    kd_index_ty = need(kd, "color_index", "KDNode")
    kd_index = bits(kd_index_ty, "KDNode.color_index")
    for ty in re.findall(r"\b(?:color_)?index\s+as\s+([A-Za-z0-9_]+)", img):
        kd_index = min(kd_index, bits(ty, "cast of a palette index"))
    m = re.search(r"fn\s+dist\s*\(\s*rgb\s*:[^)]*KDNode[^)]*\)\s*->\s*([A-Za-z0-9_]+)", img)
    if not m:
        raise TranslateError("cannot find the k-d tree's fn dist(rgb, node) -> _")
    dist_ty = m.group(1)
    rnd = struct_fields(com, "Rnd", "struct Rnd")
    rnd_ty = need(rnd, "state", "Rnd")

    acc = min(bits(red, "red_acc"), bits(green, "green_acc"), bits(blue, "blue_acc"))
    cnt = bits(count, "color_count")
    s = "(* GENERATED by translate/octree_types.py from src/image.rs, src/common.rs — do not edit *)\n"
    s += "From Coq Require Import NArith.\nLocal Open Scope N_scope.\n"
    s += "(* OcTreeLeaf { red_acc: %s, green_acc: %s, blue_acc: %s, color_count: %s, index: %s } *)\n" % (red, green, blue, count, index)
    s += "Definition leaf_acc_bits : N := %d.\n" % acc
    s += "Definition leaf_acc_limit : N := %d.\n" % (2 ** acc)
    s += "Definition leaf_count_bits : N := %d.\n" % cnt
    s += "Definition leaf_count_limit : N := %d.\n" % (2 ** cnt)
    s += "Definition leaf_index_bits : N := %d.\n" % bits(index, "index")
    s += "(* OcTreeInfo { leaf_count: %s, color_count: %s, min_color_count: Option<%s> } *)\n" % (info_leaf, info_color, info_min)
    s += "Definition info_leaf_bits : N := %d.\n" % bits(info_leaf, "leaf_count")
    s += "Definition info_color_bits : N := %d.\n" % bits(info_color, "color_count")
    s += "Definition info_min_bits : N := %d.\n" % bits(info_min, "min_color_count")
    s += "(* KDNode.color: [%s; 3]; fn dist -> %s *)\n" % (kd_color, dist_ty)
    s += "Definition kd_color_bits : N := %d.\n" % bits(kd_color, "KDNode.color")
    s += "Definition kd_dist_bits : N := %d.\n" % bits(dist_ty, "dist")
    s += "(* KDNode.color_index: %s (narrowest of the field and the casts of an index) *)\n" % kd_index_ty
    s += "Definition kd_index_bits : N := %d.\n" % kd_index
    s += "(* Rnd { state: %s }; ColorError([%s; 3]) *)\n" % (rnd_ty, err_ty)
    s += "Definition rnd_state_bits : N := %d.\n" % bits(rnd_ty, "Rnd.state")
    s += "Definition color_error_significand_bits : N := %d.\n" % FLOAT_SIGNIFICAND[err_ty]
    os.makedirs(gen_dir, exist_ok=True)
    path = os.path.join(gen_dir, "TabOctree.v")
    old = None
    if os.path.exists(path):
        with open(path) as f:
            old = f.read()
    if old != s:
        with open(path, "w") as f:
            f.write(s)
        return True
    return False


if __name__ == "__main__":
    repo = os.environ.get("VERIF_REPO", "/repo")
    try:
        print("octree types: ok; changed=%s" % generate(repo, os.path.join(HERE, "..", "coq", "theories", "Gen")))
    except TranslateError as e:
        print("TRANSLATE-ERROR octree types: %s" % e)
        sys.exit(3)
