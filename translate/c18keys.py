#!/usr/bin/env python3
"""Translator: the variant order of `pub enum KeyName`, the bit constants of `KeyMod`, and the literal
arms of KeyName::from_str and Key::from_str (the parsers' vocabulary) in src/keys.rs
-> coq/theories/Gen/C18Keys.v

The derived `Ord` of `Key` compares the variant index of the name first; Keys/KeyParse.v
`name_idx` must therefore list the variants in source order, and the modifier masks used by
the parser / printer models must be the constants of the source.  Keys/KeyOrderGen.v proves
both against this file on every run.  Fails loudly if the shape of the source changes.

Used as a pre_coq hook: pre_coq(ctx) -> (rc, text).
"""
import os
import re

HERE = os.path.dirname(os.path.abspath(__file__))
GEN = os.path.join(HERE, "..", "coq", "theories", "Gen")


def write_if_changed(path, content):
    if os.path.exists(path) and open(path).read() == content:
        return False
    os.makedirs(os.path.dirname(path), exist_ok=True)
    with open(path, "w") as f:
        f.write(content)
    return True


def extract(repo):
    src = open(os.path.join(repo, "src", "keys.rs")).read()
    m = re.search(r"pub enum KeyName \{(.*?)\n\}", src, re.S)
    if not m:
        raise ValueError("pub enum KeyName not found in src/keys.rs")
    variants = []
    for line in m.group(1).split("\n"):
        line = line.split("//")[0].strip().rstrip(",")
        if not line or line.startswith("#"):
            continue
        mm = re.match(r"^([A-Z][A-Za-z0-9]*)(\(.*\))?$", line)
        if not mm:
            raise ValueError("unexpected line in enum KeyName: %r" % line)
        variants.append(mm.group(1))
    consts = re.findall(r"pub const ([A-Z]+): Self = KeyMod \{ bits: (\d+) \};", src)
    if len(consts) < 9:
        raise ValueError("KeyMod constants not found in src/keys.rs")
    return variants, consts


CHAR_ESC = {"n": 10, "t": 9, "r": 13, "0": 0, "\\": 92, "'": 39, '"': 34}


def char_code(lit):
    """the scalar value of a Rust char literal body (between the quotes)"""
    if len(lit) == 1:
        return ord(lit)
    if lit.startswith("\\u{") and lit.endswith("}"):
        return int(lit[3:-1], 16)
    if len(lit) == 2 and lit[0] == "\\" and lit[1] in CHAR_ESC:
        return CHAR_ESC[lit[1]]
    raise ValueError("char literal not understood: %r" % lit)


def match_body(src, impl_header, opener):
    """text of the `match ... {` that follows `opener` inside the impl starting at `impl_header`"""
    i = src.find(impl_header)
    if i < 0:
        raise ValueError("%r not found in src/keys.rs" % impl_header)
    j = src.find(opener, i)
    if j < 0:
        raise ValueError("%r not found after %r" % (opener, impl_header))
    return src[j + len(opener):]


def literal_arms(body, arm_re, stop_re, what):
    """the leading run of `"literal" => ...,` arms of a match; every line up to the first arm that binds a
    name must be a literal arm of the expected shape (or a comment): anything else is a source shape this
    translator does not understand"""
    arms = []
    for line in body.split("\n"):
        t = line.strip()
        if not t or t.startswith("//"):
            continue
        if stop_re.match(t):
            return arms
        m = arm_re.match(t)
        if not m:
            raise ValueError("%s: arm not understood: %r" % (what, t))
        lit = m.group(1)
        if any(ord(c) > 126 or ord(c) < 32 or c in '"\\' for c in lit):
            raise ValueError("%s: literal outside printable ASCII: %r" % (what, lit))
        arms.append(m)
    raise ValueError("%s: end of the literal arms not found" % what)


def extract_parsers(repo, variants, consts):
    src = open(os.path.join(repo, "src", "keys.rs")).read()
    # KeyName::from_str:  "literal" => KeyName::Variant,  |  KeyName::Char('c'),  |  KeyName::F(n),
    body = match_body(src, "impl FromStr for KeyName", "match string.to_lowercase().as_ref() {")
    arm = re.compile(r'^"([^"]*)"\s*=>\s*KeyName::([A-Za-z0-9]+)(?:\((.*)\))?,$')
    names = []
    for m in literal_arms(body, arm, re.compile(r"^[a-z_]+ if "), "KeyName::from_str"):
        lit, var, payload = m.group(1), m.group(2), m.group(3)
        if var not in variants:
            raise ValueError("KeyName::from_str: unknown variant %s" % var)
        if var == "Char":
            if not (payload and payload.startswith("'") and payload.endswith("'")):
                raise ValueError("KeyName::from_str: Char payload not understood: %r" % payload)
            val = char_code(payload[1:-1])
        elif var == "F":
            val = int(payload)
        elif payload is not None:
            raise ValueError("KeyName::from_str: unexpected payload for %s" % var)
        else:
            val = 0
        names.append((lit, var, val))
    # Key::from_str:  "literal" => key_mod |= KeyMod::CONST,
    body = match_body(src, "impl FromStr for Key {", "match attr.to_lowercase().as_ref() {")
    arm = re.compile(r'^"([^"]*)"\s*=>\s*key_mod\s*\|=\s*KeyMod::([A-Z]+),$')
    mods = []
    known = dict(consts)
    for m in literal_arms(body, arm, re.compile(r"^[a-z_]+ => "), "Key::from_str"):
        if m.group(2) not in known:
            raise ValueError("Key::from_str: unknown KeyMod constant %s" % m.group(2))
        mods.append((m.group(1), m.group(2)))
    if not names or not mods:
        raise ValueError("no literal arms found")
    return names, mods


def pre_coq(ctx):
    try:
        variants, consts = extract(ctx["repo"])
        names, mods = extract_parsers(ctx["repo"], variants, consts)
    except (OSError, ValueError) as e:
        return 1, "translate/c18keys.py: %s" % e
    s = "(* generated by translate/c18keys.py from src/keys.rs; do not edit *)\n"
    s += "From Coq Require Import List NArith String.\nImport ListNotations.\nLocal Open Scope string_scope.\n"
    s += "Definition keyname_variants : list string := [%s].\n" % "; ".join('"%s"' % v for v in variants)
    s += "Definition keymod_consts : list (string * N) := [%s].\n" % "; ".join('("%s", %s%%N)' % (n, b) for n, b in consts)
    s += "(* the literal arms of KeyName::from_str, in source order: literal, variant, payload (char code / F index) *)\n"
    s += "Definition keyname_parse_arms : list (string * (string * N)) := [%s].\n" % "; ".join(
        '("%s", ("%s", %d%%N))' % a for a in names)
    s += "(* the literal arms of Key::from_str, in source order: literal, KeyMod constant *)\n"
    s += "Definition keymod_parse_arms : list (string * string) := [%s].\n" % "; ".join('("%s", "%s")' % a for a in mods)
    changed = write_if_changed(os.path.join(GEN, "C18Keys.v"), s)
    return 0, "translate/c18keys.py: %d KeyName variants, %d KeyMod constants, %d name literals, %d modifier literals%s" % (
        len(variants), len(consts), len(names), len(mods), " (regenerated)" if changed else "")


if __name__ == "__main__":
    import sys
    rc, text = pre_coq({"repo": os.environ.get("VERIF_REPO", "/repo")})
    print(text)
    sys.exit(rc)
