#!/bin/bash
# usage: keepseed.sh <PID> <tag> <caught: yes|no> "<what was run / result>"
PID=$1; TAG=$2; OUT=/tmp/seed_out/${PID}_${TAG}; DST=/verif/seeded/${PID}_${TAG}
mkdir -p $DST; cp $OUT/patch.diff $OUT/demo.rs $DST/
python3 - "$PID" "$TAG" "$3" "$4" <<'PY'
import json,sys
pid,tag,caught,ran=sys.argv[1:5]
src="/tmp/seed_out/%s_%s/meta.json"%(pid,tag)
try: m=json.load(open(src))
except Exception: m={}
m["property"]=pid
m["confirmed"]="existing 62 tests pass with the patch; demo.rs (as tests/seed_demo.rs) fails with it and passes without it (tools/seedtest.sh, run in the scratch worktree)"
m["check_result"]={"caught":caught=="yes","ran":ran}
json.dump(m,open("/verif/seeded/%s_%s/meta.json"%(pid,tag),"w"),indent=1)
PY
git -C /repo worktree remove --force /tmp/wt_${PID}_${TAG}; rm -rf /tmp/seed_out/${PID}_${TAG}
