#!/usr/bin/env python3
"""Regenerate MANIFEST.json from props.py (single source of truth for the checks)."""
import json
import os
import sys

ROOT = os.path.dirname(os.path.dirname(os.path.abspath(__file__)))
sys.path.insert(0, ROOT)
from props import PROPS, NOT_APPLICABLE, HOOK_COMMITS  # noqa: E402

ids = ["C%02d" % i for i in range(1, 21)]
checks = []
import re


def ready(c):
    """a property is claimed once its Props file holds real theorems (work in progress sets `wip: True`)"""
    if c.get("wip"):
        return False
    try:
        body = open(os.path.join(ROOT, "coq", c["props_file"])).read()
    except OSError:
        return False
    body = re.sub(r"\(\*.*?\*\)", "", body, flags=re.S)
    return len(re.findall(r"^\s*Theorem\s", body, re.M)) >= 2


WIP = [pid for pid in ids if pid in PROPS and not ready(PROPS[pid])]
for pid in ids:
    if pid not in PROPS or pid in WIP:
        continue
    c = PROPS[pid]
    checks.append({
        "property_id": pid,
        "quick_cmd": "./verify check %s --tier quick" % pid,
        "thorough_cmd": "./verify check %s --tier thorough" % pid,
        "evidence_file": "evidence/%s.json" % pid,
        "replay_cmd_template": "./verify check %s --replay {path}" % pid,
        "engine": "coq",
        "level_claimed": {"category": c.get("level", "proof"), "text": c["level_text"], "design_ref": c.get("design_ref", "DESIGN.md section 6")},
        "level_note": c["level_note"],
        "technique": c["technique"],
    })
claimed = [c["property_id"] for c in checks]
m = {
    "version": 1,
    "setup_cmd": "./verify setup",
    "hooks": {
        "guard": "cargo feature verif-hooks",
        "enable": "the harness crate depends on surf_n_term = { path = \"/repo\", features = [\"verif-hooks\"] }",
        "baseline_off_cmd": "cd /repo && cargo test --workspace --no-fail-fast --offline",
        "source_commits": HOOK_COMMITS,
        "add_only": True,
    },
    "engines": [
        {"name": "coq", "path": "coq/", "serves_properties": claimed, "kind_free_text": "Coq 8.16.1 theories: hand-written executable models, specifications and proofs; Gen/ regenerated from /repo on every run"},
        {"name": "harness", "path": "harness/", "serves_properties": claimed, "kind_free_text": "Rust crate linked against /repo's working tree: runs the implementation on generated cases and writes Coq case files in which the model is evaluated (vm_compute) and compared"},
        {"name": "verify", "path": "verify", "serves_properties": claimed, "kind_free_text": "python driver: translate -> make proofs -> Print Assumptions audit -> correspondence -> known findings -> evidence"},
    ],
    "checks": checks,
    "not_applicable": [{"property_id": p, "reason": NOT_APPLICABLE.get(p, "check not built yet in this session (planned, DESIGN.md section 9); not a claim that the technique cannot apply")} for p in ids if p not in PROPS or p in WIP],
    "notes": "see DESIGN.md; known_findings.json lists fixed and known defects",
}
with open(os.path.join(ROOT, "MANIFEST.json"), "w") as f:
    json.dump(m, f, indent=1)
print("MANIFEST.json: %d checks, %d not claimed" % (len(checks), len(m["not_applicable"])))


# source_fingerprint.json: sha256 of every file under src/ at /repo's HEAD commit (committed content, not the working tree)
import hashlib
import subprocess
repo = os.environ.get("VERIF_REPO", "/repo")
head = subprocess.run(["git", "-C", repo, "rev-parse", "HEAD"], capture_output=True, text=True).stdout.strip()
names = subprocess.run(["git", "-C", repo, "ls-tree", "-r", "--name-only", "HEAD", "src"], capture_output=True, text=True).stdout.split()
fp = {}
for n in names:
    blob = subprocess.run(["git", "-C", repo, "show", "HEAD:" + n], capture_output=True).stdout
    fp[n] = hashlib.sha256(blob).hexdigest()
with open(os.path.join(ROOT, "source_fingerprint.json"), "w") as f:
    json.dump({"repo_commit": head, "files": fp}, f, indent=1, sort_keys=True)
    f.write("\n")
print("source_fingerprint.json: %d files at %s" % (len(fp), head[:10]))
