#!/bin/bash
# usage: seedtest.sh <PID> <tag>   (expects /tmp/seed_out/<PID>_<tag>/{patch.diff,demo.rs,meta.json} and worktree /tmp/wt_<PID>_<tag>)
# 1. confirms in the scratch worktree: existing tests pass with the patch, demo fails with it and passes without it
# 2. applies the patch to /repo, runs the check, reverts
set -u
PID=$1; TAG=$2; OUT=/tmp/seed_out/${PID}_${TAG}; WT=/tmp/wt_${PID}_${TAG}
export CARGO_TARGET_DIR=$WT/target CARGO_NET_OFFLINE=true
cd $WT || exit 2
git checkout -q -- src 2>/dev/null; rm -f tests/seed_demo.rs
mkdir -p tests; cp $OUT/demo.rs tests/seed_demo.rs
echo "== clean tree: demo must pass"
cargo test --offline --test seed_demo 2>&1 | grep -E "^test result|error(\[|:)" | head -5
git apply $OUT/patch.diff || { echo "PATCH DOES NOT APPLY"; exit 2; }
echo "== patched: existing suite must pass"
cargo test --offline --lib 2>&1 | grep -E "^test result|error(\[|:)|warning" | head -5
echo "== patched: demo must fail"
cargo test --offline --test seed_demo 2>&1 | grep -E "^test result|error(\[|:)" | head -5
git checkout -q -- src; rm -f tests/seed_demo.rs
echo "== check against /repo with the patch"
cd /verif
git -C /repo apply $OUT/patch.diff || { echo "PATCH DOES NOT APPLY TO /repo"; exit 2; }
./verify check $PID --tier quick; echo "check rc=$?"
git -C /repo checkout -- .
git -C /repo status --short
