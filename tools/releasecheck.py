"""Release-profile cross-check (thorough tier), used as an `extra` hook by props.d/C02.py and C03.py.

The correspondence run uses the debug profile (overflow checks, debug assertions): there an
arithmetic overflow is a panic, which the models describe as `Panic`.  In the release profile the
same overflow would silently wrap.  This hook builds the harness with --release against the same
source tree, re-runs exactly the same cases (same seed, same generator) and requires identical
observations: every case already passed the model / property predicate in the debug profile, so any
difference is behaviour that exists only in the release build (a silent wrap, a removed debug
assertion, UB).  A case on which the debug build panicked must not produce an ordinary value in
the release build either.
"""
import fcntl
import json
import os
import shutil
import subprocess
import time


def release_crosscheck(ctx, mods, n_cases, limit=5):
    if ctx.get("tier") != "thorough" or ctx.get("replay"):
        return {"notes": ["release-profile cross-check: thorough tier only"]}
    pid = ctx["pid"]
    root, build, repo = ctx["root"], ctx["build"], ctx["repo"]
    hd = os.path.join(root, "harness") if os.path.realpath(repo) == "/repo" else os.path.join(build, "harness_alt")
    env = dict(ctx["env"], SNT_ONLY=",".join(mods))
    t0 = time.time()
    with open(os.path.join(build, ".cargo.lock"), "w") as lock:
        fcntl.flock(lock, fcntl.LOCK_EX)
        p = subprocess.run(["cargo", "build", "--offline", "--quiet", "--release"], cwd=hd, env=env,
                           stdout=subprocess.PIPE, stderr=subprocess.STDOUT, text=True, timeout=3000)
        built = os.path.join(env["CARGO_TARGET_DIR"], "release", "snt_harness")
        exe = os.path.join(build, "bin", "snt_harness_%s_release" % pid.lower())
        if p.returncode == 0:
            os.makedirs(os.path.dirname(exe), exist_ok=True)
            shutil.copy2(built, exe)
        fcntl.flock(lock, fcntl.LOCK_UN)
    if p.returncode != 0:
        return {"violations": [{"kind": "broken-correspondence", "what": "release build of the harness failed: " + p.stdout[-600:], "case": {}}]}
    out_dir = os.path.join(build, "cases", pid + "-release")
    cmd = [exe, pid, "--out", out_dir, "--seed", str(ctx["seed"]), "--n", str(n_cases), "--shard", "1000000", "--tier", "thorough",
           "--corpus", os.path.join(root, "corpus", pid)]
    p = subprocess.run(cmd, cwd=root, env=env, stdout=subprocess.PIPE, stderr=subprocess.STDOUT, text=True, timeout=3000)
    if p.returncode != 0:
        cur = os.path.join(out_dir, "current_case.json")
        case = json.load(open(cur)) if os.path.exists(cur) else {}
        return {"violations": [{"kind": "failing-input", "what": "release build of the harness died (rc=%d): %s" % (p.returncode, p.stdout[-300:]), "case": case}]}
    dbg_path = os.path.join(ctx.get("case_dir") or os.path.join(build, "cases", pid), "cases.jsonl")
    rel_path = os.path.join(out_dir, "cases.jsonl")
    try:
        dbg = [json.loads(line) for line in open(dbg_path)]
        rel = [json.loads(line) for line in open(rel_path)]
    except OSError as e:
        return {"violations": [{"kind": "broken-correspondence", "what": "release cross-check: cannot read case files: %s" % e, "case": {}}]}
    vio = []
    diffs = 0
    if len(dbg) != len(rel):
        vio.append({"kind": "broken-correspondence", "what": "release cross-check: %d debug cases vs %d release cases" % (len(dbg), len(rel)), "case": {}})
    for a, b in zip(dbg, rel):
        if a != b:
            diffs += 1
            if len(vio) < limit:
                case = dict(b)
                case["debug_impl"] = a.get("impl")
                case["what"] = "release-profile observation differs from the debug-profile one (silent wrap / profile-dependent behaviour)"
                vio.append({"kind": "failing-input", "what": case["what"], "case": case})
    return {"violations": vio,
            "coverage": {"release_cases": len(rel), "release_differences": diffs},
            "notes": ["release-profile cross-check: %d cases re-run with --release, %d differ from the debug run (%.0fs)" % (len(rel), diffs, time.time() - t0)]}
