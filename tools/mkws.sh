#!/bin/bash
# usage: mkws.sh <name>   -> scratch workspace /work/<name>/{verif,repo}: git worktrees on branch ws-<name>
set -e
N=$1; W=/work/$N
mkdir -p $W
git -C /verif worktree add -q -b ws-$N $W/verif HEAD
git -C /repo worktree add -q -b ws-$N $W/repo HEAD
cp /repo/Cargo.lock $W/repo/Cargo.lock 2>/dev/null || true
echo "workspace $W ready (verif branch ws-$N, repo branch ws-$N)"
