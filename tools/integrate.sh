#!/bin/bash
# usage: integrate.sh <ws>      merges branch ws-<ws> of /verif into main and lists repo commits to cherry-pick
set -u
WS=$1
cd /verif || exit 2
echo "== verif commits on ws-$WS not in main"; git log --oneline main..ws-$WS | cat
echo "== repo commits on ws-$WS not in main"; git -C /repo log --oneline --reverse main..ws-$WS | cat
echo "== shared files touched"; git diff --stat main...ws-$WS -- verify harness/src/util.rs harness/src/main.rs harness/build.rs harness/Cargo.toml props.py propbase.py coq/theories/Base known_findings.json HOWTO.md DESIGN.md MANIFEST.json tools translate/tables.py | cat
