#!/bin/bash
# usage: seedconfirm.sh <ID>     (ID like C05_a; expects /tmp/seed_out/<ID>/{patch.diff,demo.rs,meta.json} and worktree /tmp/wt_<ID>)
# Confirms in the scratch worktree: clean tree -> demo passes; patched -> 62 tests pass, demo fails.
# On success stores seeded/<ID>/ and removes the worktree with its build output.
set -u
ID=$1; OUT=/tmp/seed_out/$ID; WT=/tmp/wt_$ID; DST=/verif/seeded/$ID
export CARGO_TARGET_DIR=$WT/target CARGO_NET_OFFLINE=true
cd $WT || exit 2
git checkout -q -- . 2>/dev/null; rm -rf tests/seed_demo.rs
mkdir -p tests; cp $OUT/demo.rs tests/seed_demo.rs
clean=$(timeout 900 cargo test --offline --test seed_demo 2>&1 | grep -E "^test result" | head -1)
git apply $OUT/patch.diff || { echo "PATCH DOES NOT APPLY"; exit 2; }
suite=$(timeout 900 cargo test --offline --lib 2>&1 | grep -E "^test result|^error|warning: unused" | head -3)
demo=$(timeout 900 cargo test --offline --test seed_demo 2>&1 | grep -E "^test result|^error" | head -2)
echo "clean demo : $clean"; echo "patched lib: $suite"; echo "patched demo: $demo"
ok=1
echo "$clean" | grep -q "ok\." || ok=0
echo "$suite" | grep -q "ok. 62 passed" || ok=0
echo "$demo" | grep -q "FAILED\|^error" || ok=0
if [ $ok = 1 ]; then
  mkdir -p $DST; cp $OUT/patch.diff $OUT/demo.rs $DST/
  python3 - "$ID" "$clean" "$suite" "$demo" <<'PY'
import json,sys
i,clean,suite,demo=sys.argv[1:5]
try: m=json.load(open("/tmp/seed_out/%s/meta.json"%i))
except Exception: m={}
m["property"]=i.split("_")[0]
m["confirmed"]={"clean_tree_demo":clean,"patched_existing_suite":suite,"patched_demo":demo,"how":"tools/seedconfirm.sh in a scratch worktree of /repo"}
json.dump(m,open("/verif/seeded/%s/meta.json"%i,"w"),indent=1)
PY
  echo "CONFIRMED $ID"
else
  echo "NOT CONFIRMED $ID"
fi
cd /; git -C /repo worktree remove --force $WT; rm -rf $WT
exit $((1-ok))
