#!/bin/bash
# usage: mergews.sh <ws>   merge verif branch ws-<ws> into main, resolving the routine conflicts:
#   evidence/*: keep ours;  seeded/<ID>/ clashes: keep ours, store theirs as seeded/<PID>_self_<tag>/
set -u
WS=$1; B=ws-$WS
cd /verif; if ! git diff --name-only --diff-filter=U | grep -q .; then git add -A; git commit -qm "wip before merge" 2>/dev/null; fi
if git diff --name-only --diff-filter=U | grep -q .; then echo "(continuing a merge in progress)"; else git merge --no-edit $B > /tmp/merge_$WS.log 2>&1; fi
for f in $(git diff --name-only --diff-filter=U); do
  case $f in
    evidence/*|MANIFEST.json) git checkout --ours -- $f; git add $f;;
    seeded/*)
      id=$(echo $f | cut -d/ -f2); file=$(echo $f | cut -d/ -f3-)
      new=seeded/${id%%_*}_self_${id#*_}
      mkdir -p $new; git show $B:$f > $new/$file
      git checkout --ours -- $f; git add $f $new/$file;;
    *) echo "UNRESOLVED: $f";;
  esac
done
# files of a clashing seeded dir that did not conflict textually (e.g. demo.rs only on their side) stay where they are
if git diff --name-only --diff-filter=U | grep -q .; then echo "CONFLICTS REMAIN (merge aborted):"; git diff --name-only --diff-filter=U; git merge --abort; exit 1; fi
git commit -qm "merge $B" 2>/dev/null || true
git log --oneline -1
