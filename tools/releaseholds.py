"""Release-profile check by PREDICATE (thorough tier), used as an `extra` hook by props.d/C07.py.

tools/releasecheck.py demands identical observations in the debug and the release profile.  That is too
strict where the debug profile panics on an input that is outside the property's domain (C07: an
insert position whose usize index arithmetic overflows wraps in release and writes window cells).
This hook instead re-runs the same cases through a --release build of the harness and evaluates the
property predicate (second component of the Coq check) on the release observations: a case on which it
is false is behaviour of the release build that violates the property (e.g. a bounds check that exists
only as debug_assert!).  Model agreement (first component) is not demanded here.
"""
import fcntl
import glob
import json
import os
import re
import shutil
import subprocess
import time


def release_holds(ctx, mods, n_cases, shard, limit=5):
    if ctx.get("tier") != "thorough" or ctx.get("replay"):
        return {"notes": ["release-profile predicate check: thorough tier only"]}
    pid = ctx["pid"]
    root, build, repo, coq = ctx["root"], ctx["build"], ctx["repo"], ctx["coq"]
    hd = os.path.join(root, "harness") if os.path.realpath(repo) == "/repo" else os.path.join(build, "harness_alt")
    env = dict(ctx["env"], SNT_ONLY=",".join(mods))
    t0 = time.time()
    with open(os.path.join(build, ".cargo.lock"), "w") as lock:
        fcntl.flock(lock, fcntl.LOCK_EX)
        p = subprocess.run(["cargo", "build", "--offline", "--quiet", "--release"], cwd=hd, env=env,
                           stdout=subprocess.PIPE, stderr=subprocess.STDOUT, text=True, timeout=3000)
        built = os.path.join(env["CARGO_TARGET_DIR"], "release", "snt_harness")
        exe = os.path.join(build, "bin", "snt_harness_%s_release" % pid.lower())
        if p.returncode == 0:
            os.makedirs(os.path.dirname(exe), exist_ok=True)
            shutil.copy2(built, exe)
        fcntl.flock(lock, fcntl.LOCK_UN)
    if p.returncode != 0:
        return {"violations": [{"kind": "broken-correspondence", "what": "release build of the harness failed: " + p.stdout[-600:], "case": {}}]}
    out_dir = os.path.join(build, "cases", pid + "-release")
    cmd = [exe, pid, "--out", out_dir, "--seed", str(ctx["seed"]), "--n", str(n_cases), "--shard", str(shard), "--tier", "thorough",
           "--corpus", os.path.join(root, "corpus", pid)]
    p = subprocess.run(cmd, cwd=root, env=env, stdout=subprocess.PIPE, stderr=subprocess.STDOUT, text=True, timeout=3000)
    if p.returncode != 0:
        return {"violations": [{"kind": "failing-input", "what": "release build of the harness died (rc=%d): %s" % (p.returncode, p.stdout[-300:]), "case": {}}]}
    cases = [json.loads(line) for line in open(os.path.join(out_dir, "cases.jsonl"))]
    bad = []
    for path in sorted(glob.glob(os.path.join(out_dir, "cases_*.v"))):
        q = subprocess.run(["coqc", "-noglob", "-Q", os.path.join(coq, "theories"), "SNT", path], cwd=out_dir,
                           stdout=subprocess.PIPE, stderr=subprocess.STDOUT, text=True, timeout=3000)
        m = re.search(r"=\s*(\[.*?\])\s*:\s*list \(N \* bool \* bool\)", q.stdout, re.S)
        if q.returncode != 0 or not m:
            return {"violations": [{"kind": "broken-correspondence", "what": "release predicate check: cannot evaluate %s: %s" % (path, q.stdout[-300:]), "case": {}}]}
        for a, _agree, holds in re.findall(r"\((\d+),\s*(true|false),\s*(true|false)\)", m.group(1)):
            if holds == "false":
                bad.append(int(a))
    for junk in glob.glob(os.path.join(out_dir, "cases_*.vo*")) + glob.glob(os.path.join(out_dir, "cases_*.glob")) + glob.glob(os.path.join(out_dir, ".cases_*.aux")):
        try:
            os.remove(junk)
        except OSError:
            pass
    vio = []
    for idx in bad[:limit]:
        case = dict(cases[idx]) if idx < len(cases) else {"index": idx}
        case["what"] = "the property predicate is false on the observations of the RELEASE build"
        vio.append({"kind": "failing-input", "what": case["what"], "case": case})
    return {"violations": vio,
            "coverage": {"release_cases": len(cases), "release_predicate_failures": len(bad)},
            "notes": ["release-profile predicate check: %d cases re-run with --release, predicate false on %d (%.0fs)" % (len(cases), len(bad), time.time() - t0)]}
