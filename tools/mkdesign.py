#!/usr/bin/env python3
"""Regenerates the table of DESIGN.md section 12.2 (between the AUTO markers) from props.d, Props/*.v,
known_findings*, seeded/*/meta.json and design/*.md."""
import glob
import json
import os
import re
import sys

ROOT = os.path.dirname(os.path.dirname(os.path.abspath(__file__)))
sys.path.insert(0, ROOT)
from props import PROPS  # noqa: E402

ids = ["C%02d" % i for i in range(1, 21)]


def theorems(pid):
    c = PROPS.get(pid)
    if not c:
        return []
    try:
        body = open(os.path.join(ROOT, "coq", c["props_file"])).read()
    except OSError:
        return []
    return re.findall(r"^\s*Theorem\s+([A-Za-z0-9_']+)", body, re.M)


findings = []
for path in [os.path.join(ROOT, "known_findings.json")] + sorted(glob.glob(os.path.join(ROOT, "known_findings.d", "*.json"))):
    if os.path.exists(path):
        findings.extend(json.load(open(path)).get("findings", []))

seeded = {}
for path in sorted(glob.glob(os.path.join(ROOT, "seeded", "*", "meta.json"))):
    sid = os.path.basename(os.path.dirname(path))
    try:
        m = json.load(open(path))
    except Exception:
        continue
    pid = sid.split("_")[0]
    cr = m.get("check_result") or {}
    out = " ".join(cr.get("output") or []) if isinstance(cr.get("output"), list) else str(cr.get("ran", ""))
    how = "not run"
    if cr:
        if cr.get("caught"):
            how = "no-failing-input-found" if "no-failing-input-found" in out and out.count("VIOLATION") == out.count("no-failing-input-found") else "failing input"
        else:
            how = "MISSED"
    seeded.setdefault(pid, []).append((sid, how))

lines = ["| id | theorems in Props/Cxx.v | defects fixed (`fix:` commits) | known findings (open) | seeded changes: outcome | notes |",
         "|---|---|---|---|---|---|"]
for pid in ids:
    th = theorems(pid)
    fixed = [f for f in findings if f.get("property") == pid and f.get("status") == "fixed"]
    known = [f for f in findings if f.get("property") == pid and f.get("status") == "known"]
    sd = ", ".join("%s: %s" % x for x in seeded.get(pid, [])) or "-"
    note = "design/%s.md" % pid if os.path.exists(os.path.join(ROOT, "design", pid + ".md")) else ""
    if pid not in PROPS:
        lines.append("| %s | (not built yet) | | | %s | |" % (pid, sd))
        continue
    lines.append("| %s | %d: %s | %s | %s | %s | %s |" % (
        pid, len(th), ", ".join("`%s`" % t for t in th[:40]),
        "; ".join("%s (%s)" % (f.get("id", "?"), f.get("commit", "?")) for f in fixed) or "-",
        "; ".join("%s" % f.get("id", "?") for f in known) or "-", sd, note))

block = "\n".join(lines)
p = os.path.join(ROOT, "DESIGN.md")
s = open(p).read()
a, b = "<!-- AUTO:12.2 begin -->", "<!-- AUTO:12.2 end -->"
if a not in s:
    s = s.replace("(filled in as properties land; details in `design/Cxx.md`)", "%s\n%s\n%s" % (a, block, b))
else:
    s = s[: s.index(a) + len(a)] + "\n" + block + "\n" + s[s.index(b):]

# 12.3 fix commits, 12.4 open known findings (also generated)
import subprocess
log = subprocess.run(["git", "-C", os.environ.get("VERIF_REPO", "/repo"), "log", "--reverse", "--format=%h %s", "8897993..HEAD"],
                     stdout=subprocess.PIPE, text=True).stdout.splitlines()
fixes = [l for l in log if re.match(r"^[0-9a-f]+ fix:", l)]
hooks = [l for l in log if re.match(r"^[0-9a-f]+ verif-hooks:", l)]
by_commit = {}
for f in findings:
    for c in re.findall(r"[0-9a-f]{7}", str(f.get("commit", ""))):
        by_commit.setdefault(c, []).append(f.get("property", "?"))
b3 = ["| commit | property | subject |", "|---|---|---|"]
for l in fixes:
    h, subj = l.split(" ", 1)
    b3.append("| `%s` | %s | %s |" % (h, ", ".join(sorted(set(by_commit.get(h, [])))) or "-", subj.replace("|", "/")))
b3.append("")
b3.append("Hook commits (cargo feature `verif-hooks`, add-only): " + "; ".join("`%s` %s" % tuple(l.split(" ", 1)) for l in hooks))
b4 = ["| id | property | class tag | require_agree | what fails |", "|---|---|---|---|---|"]
for f in findings:
    if f.get("status") == "known":
        b4.append("| %s | %s | %s | %s | %s |" % (f.get("id"), f.get("property"), f.get("class_tag", "-"), f.get("require_agree", False),
                                                 str(f.get("what", "")).replace("|", "/")[:400]))
for tag, blk in (("12.3", "\n".join(b3)), ("12.4", "\n".join(b4))):
    a, b = "<!-- AUTO:%s begin -->" % tag, "<!-- AUTO:%s end -->" % tag
    if a in s:
        s = s[: s.index(a) + len(a)] + "\n" + blk + "\n" + s[s.index(b):]
open(p, "w").write(s)
print("DESIGN.md 12.2: %d rows; 12.3: %d fix commits; 12.4: %d open findings" % (len(lines) - 2, len(fixes), len(b4) - 2))
