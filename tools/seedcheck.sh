#!/bin/bash
# usage: seedcheck.sh <ID> [tier]   applies seeded/<ID>/patch.diff to /repo, runs the property's check, reverts, records the result
set -u
ID=$1; TIER=${2:-quick}; PID=${ID%%_*}; D=/verif/seeded/$ID
cd /verif
[ -z "$(git -C /repo status --porcelain)" ] || { echo "/repo not clean"; exit 2; }
if ! git -C /repo apply $D/patch.diff 2>/dev/null; then
  # the tree moved on (fix: commits): re-base the patch with a 3-way apply and store the refreshed diff
  git -C /repo apply --3way $D/patch.diff || { git -C /repo reset -q --hard HEAD; echo "PATCH DOES NOT APPLY TO /repo"; exit 2; }
  git -C /repo diff HEAD -- src > $D/patch.diff.new
  git -C /repo reset -q HEAD
  [ -s $D/patch.diff.new ] && mv $D/patch.diff.new $D/patch.diff && echo "patch re-based onto $(git -C /repo rev-parse --short HEAD)"
fi
cp evidence/$PID.json /tmp/evidence.keep.$PID.json 2>/dev/null
out=$(timeout 1800 ./verify check $PID --tier $TIER 2>&1); rc=$?
if [ -f /tmp/evidence.keep.$PID.json ]; then mv /tmp/evidence.keep.$PID.json evidence/$PID.json; else rm -f evidence/$PID.json; fi  # evidence is only ever kept from clean-tree runs
git -C /repo reset -q --hard HEAD
echo "$out" | tail -6; echo "check rc=$rc"
python3 - "$ID" "$rc" "$TIER" "$(echo "$out" | grep -E "VIOLATION|tier=" | head -4)" <<'PY'
import json,sys
i,rc,tier,lines=sys.argv[1:5]
p="/verif/seeded/%s/meta.json"%i
m=json.load(open(p))
m["check_result"]={"caught":rc=="1" and "VIOLATION" in lines,"tier":tier,"rc":int(rc),"ran":"./verify check %s --tier %s with the patch applied to /repo"%(i.split("_")[0],tier),"output":lines.split("\n")}
json.dump(m,open(p,"w"),indent=1)
PY
git -C /repo status --short
