"""Per-property configuration of the checks (data only)."""

# Axioms that may appear under Print Assumptions (standard-library axioms only;
# every one that actually appears is listed in the evidence of the run).
AXIOM_ALLOWLIST = {
    "functional_extensionality_dep",
    "FunctionalExtensionality.functional_extensionality_dep",
    "Eqdep.Eq_rect_eq.eq_rect_eq",
    "Eq_rect_eq.eq_rect_eq",
    "JMeq_eq",
    "JMeq.JMeq_eq",
    "proof_irrelevance",
    "ProofIrrelevance.proof_irrelevance",
    "Classical_Prop.classic",
    "classic",
}

KERNEL = "Coq 8.16.1 kernel incl. vm_compute (no native_compute); full .vo build, coqchk in the thorough tier"
HARNESS = "Rust harness (generators, canonical printing of observations) and the case files it writes; differential testing validates the model, it is not the theorem"

PROPS = {
    "C14": {
        "gen": ["base64"],
        "coq_props": ["theories/Props/C14.vo"],
        "coq_corr": ["theories/Corr/C14Corr.vo"],
        "props_file": "theories/Props/C14.v",
        "props_module": "Props.C14",
        "corr_check": "SNT.Corr.C14Corr.c14_check (model Encoder/Base64.v vs surf_n_term::{encoder::Base64Encoder, decoder::Base64Decoder})",
        "n_quick": 2000,
        "n_thorough": 40000,
        "shard": 125,
        "level": "proof",
        "trusted_base": [
            KERNEL,
            "translate/tables.py: BASE64_ENCODE, BASE64_DECODE and the decoder buffer length are re-extracted from src/encoder.rs, src/decoder.rs on every run (Gen/TabBase64.v)",
            "hand-written model Encoder/Base64.v of Base64Encoder::{write,finish} and Base64Decoder::{buffer_fill,read}, tied to the code by the correspondence run",
            HARNESS,
        ],
        "assumptions": [
            "the inner reader signals end of input only by returning 0 and otherwise returns between 1 and the requested number of bytes; io errors of the inner reader/writer are outside the model",
            "callers drain the decoder until a read returns 0 or an error",
        ],
    },
}
