"""Per-property configuration of the checks: one file props.d/Cxx.py per claimed property (data only)."""
import glob
import importlib.util
import os

from propbase import AXIOM_ALLOWLIST, KERNEL, HARNESS  # noqa: F401

_HERE = os.path.dirname(os.path.abspath(__file__))

# commits in /repo that add the guarded hooks (cargo feature verif-hooks)
HOOK_COMMITS = ["cf22d3e","6766a98","e05a067","16c382e","e270c08","235341b","ac36492","e794f5f","3be000a"]
# property id -> reason, for properties the technique genuinely cannot decide
NOT_APPLICABLE = {}

PROPS = {}
for _path in sorted(glob.glob(os.path.join(_HERE, "props.d", "C*.py"))):
    _pid = os.path.splitext(os.path.basename(_path))[0]
    _spec = importlib.util.spec_from_file_location("props_d_" + _pid, _path)
    _mod = importlib.util.module_from_spec(_spec)
    _spec.loader.exec_module(_mod)
    PROPS[_pid] = _mod.PROP
