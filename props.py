"""Per-property configuration of the checks (data only)."""

# Axioms that may appear under Print Assumptions (standard-library axioms only;
# every one that actually appears is listed in the evidence of the run).
AXIOM_ALLOWLIST = {
    "functional_extensionality_dep",
    "FunctionalExtensionality.functional_extensionality_dep",
    "Eqdep.Eq_rect_eq.eq_rect_eq",
    "Eq_rect_eq.eq_rect_eq",
    "JMeq_eq",
    "JMeq.JMeq_eq",
    "proof_irrelevance",
    "ProofIrrelevance.proof_irrelevance",
    "Classical_Prop.classic",
    "classic",
}

KERNEL = "Coq 8.16.1 kernel incl. vm_compute (no native_compute); full .vo build, coqchk in the thorough tier"
HARNESS = "Rust harness (generators, canonical printing of observations) and the case files it writes; differential testing validates the model, it is not the theorem"

HOOK_COMMITS = ["cf22d3e"]
NOT_APPLICABLE = {}

PROPS = {
    "C14": {
        "gen": ["base64"],
        "coq_props": ["theories/Props/C14.vo"],
        "coq_corr": ["theories/Corr/C14Corr.vo"],
        "props_file": "theories/Props/C14.v",
        "props_module": "Props.C14",
        "corr_check": "SNT.Corr.C14Corr.c14_check (model Encoder/Base64.v vs surf_n_term::{encoder::Base64Encoder, decoder::Base64Decoder})",
        "level_text": "Coq theorems over an executable model of Base64Encoder/Base64Decoder: encoder output = RFC 4648 text for every input and write partition; decoder returns the original bytes for every read schedule and every sequence of destination sizes; non-multiple-of-4 text is an error; no panic / termination for arbitrary bytes. Tables are regenerated from the source each run and the table lemmas re-checked; the model is tied to the code by a differential run.",
        "level_note": "Trusted: Coq kernel + vm_compute; translate/tables.py; hand-written model validated by the correspondence run; reader contract (0 only at EOF); io errors outside the model. No axioms (Print Assumptions: closed).",
        "technique": "Coq proof (induction, refinement to a pure group decoder, finite sweeps for bit operations) + regenerated tables + model/implementation correspondence",
        "design_ref": "DESIGN.md 6.14",
        "n_quick": 2000,
        "n_thorough": 40000,
        "shard": 125,
        "level": "proof",
        "trusted_base": [
            KERNEL,
            "translate/tables.py: BASE64_ENCODE, BASE64_DECODE and the decoder buffer length are re-extracted from src/encoder.rs, src/decoder.rs on every run (Gen/TabBase64.v)",
            "hand-written model Encoder/Base64.v of Base64Encoder::{write,finish} and Base64Decoder::{buffer_fill,read}, tied to the code by the correspondence run",
            HARNESS,
        ],
        "assumptions": [
            "the inner reader signals end of input only by returning 0 and otherwise returns between 1 and the requested number of bytes; io errors of the inner reader/writer are outside the model",
            "callers drain the decoder until a read returns 0 or an error",
        ],
    },
    "C08": {
        "gen": [],
        "coq_props": ["theories/Props/C08.vo"],
        "coq_corr": ["theories/Corr/C08Corr.vo"],
        "props_file": "theories/Props/C08.v",
        "props_module": "Props.C08",
        "corr_check": "SNT.Corr.C08Corr.c08_check (model Surface/Bounds.v vs surf_n_term::surface::ViewBounds for 10 integer types x 7 selector forms)",
        "level_text": "Coq theorem: for every axis length up to i64::MAX, every selector form, every integer type and every bound of that type, the model of view_bounds equals Python slice resolution over unbounded integers (hence 0 <= start < end <= n or absent, and type-independent). Model tied to the code by a differential run over all ten types, seven forms and extreme bounds (plus an exhaustive small sweep).",
        "level_note": "Trusted: Coq kernel; hand-written model of range_bounds/index_i64/casts validated by correspondence; 64-bit target; n <= i64::MAX. No axioms.",
        "technique": "Coq proof (case analysis + lia against a Python-slice specification over Z) + model/implementation correspondence",
        "design_ref": "DESIGN.md 6.8",
        "n_quick": 3000,
        "n_thorough": 60000,
        "shard": 1000,
        "level": "proof",
        "trusted_base": [
            KERNEL,
            "hand-written model Surface/Bounds.v of ViewBounds::view_bounds / range_bounds / index_i64 (casts and saturating arithmetic explicit), tied to the code by the correspondence run over all ten integer types",
            "specification py_slice written from the Python data model (PySlice_AdjustIndices, step 1) over unbounded Z",
            HARNESS,
        ],
        "assumptions": [
            "axis lengths are at most i64::MAX (no Rust allocation is longer; zero-sized-type surfaces beyond that are outside the theorem)",
            "64-bit target: usize = u64, isize = i64",
        ],
    },
    "C07": {
        "gen": [],
        "coq_props": ["theories/Props/C07.vo"],
        "coq_corr": ["theories/Corr/C07Corr.vo"],
        "props_file": "theories/Props/C07.v",
        "props_module": "Props.C07",
        "corr_check": "SNT.Corr.C07Corr.c07_check (model Surface/Shape.v vs surf_n_term::surface::{Shape, Surface, SurfaceMut} through chains of view_owned/transpose over owned and &mut bases)",
        "level_text": "Coq theorems: for every root size and every finite chain of view/transpose with arbitrary selectors the Shape computed by the code represents the window the same operations cut out of a plain matrix (induction over the chain, using the C08 theorem for selectors); for every represented shape offsets are in bounds and injective (the obligation of the unsafe iter_mut), get/iter/iter_mut/fill_with touch exactly the window's cells, each once, row-major, and fill_with leaves every other element unchanged. insert/map/to_owned are covered by the correspondence only. Model tied to the code by differential runs observing shapes, reads, handed-out addresses and the whole backing vector after each mutation.",
        "level_note": "Trusted: Coq kernel; hand-written model Surface/Shape.v validated by correspondence; the memory model of rustc is not modelled (the unsafe block is covered through the arithmetic obligation: distinct in-bounds offsets). No axioms.",
        "technique": "Coq proof (representation invariant by induction over the view chain; nia/lia; NoDup of handed-out offsets) + model/implementation correspondence",
        "design_ref": "DESIGN.md 6.7",
        "n_quick": 1500,
        "n_thorough": 30000,
        "shard": 100,
        "level": "proof",
        "trusted_base": [
            KERNEL,
            "hand-written model Surface/Shape.v of Shape::{offset,nth,view}, transpose, get, SurfaceIter, SurfaceMutIter, fill/fill_with/clear, insert, map; tied to the code by the correspondence run",
            "window semantics (win_view/win_transpose/win_coord) as the plain-matrix specification",
            HARNESS,
        ],
        "assumptions": [
            "root surfaces have height, width <= i64::MAX and a backing vector of at least H*W elements (SurfaceOwned::new/new_with)",
            "insert, map and to_owned_surf are validated by correspondence against the window semantics, not proved",
        ],
    },
}
