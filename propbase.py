"""Shared constants for the per-property configuration files in props.d/."""

# Axioms that may appear under Print Assumptions (standard-library axioms only;
# every one that actually appears is listed in the evidence of the run).
AXIOM_ALLOWLIST = {
    "functional_extensionality_dep",
    "FunctionalExtensionality.functional_extensionality_dep",
    "Eqdep.Eq_rect_eq.eq_rect_eq",
    "Eq_rect_eq.eq_rect_eq",
    "JMeq_eq",
    "JMeq.JMeq_eq",
    "proof_irrelevance",
    "ProofIrrelevance.proof_irrelevance",
    "Classical_Prop.classic",
    "classic",
}

KERNEL = "Coq 8.16.1 kernel incl. vm_compute (no native_compute); full .vo build, coqchk in the thorough tier"
HARNESS = "Rust harness (generators, canonical printing of observations) and the case files it writes; differential testing validates the model, it is not the theorem"
